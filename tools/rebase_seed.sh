#!/bin/sh
# tools/rebase_seed.sh <dir with patch.diff> : re-create patch.diff against /repo HEAD when a later fix: commit moved its context
S=$(realpath "$1"); W=/tmp/wt-rebase-$$
git -C /repo worktree add -q --detach $W HEAD || exit 2
cd $W
if patch -p1 --fuzz=3 -s < "$S/patch.diff"; then
  [ -f "$S/patch.orig.diff" ] || cp "$S/patch.diff" "$S/patch.orig.diff"
  git diff > "$S/patch.diff"; echo "rebased: $(git diff --stat | tail -1)"; rc=0
else echo "rebase failed"; rc=1; fi
cd /; git -C /repo worktree remove --force $W
exit $rc
