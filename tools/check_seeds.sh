#!/bin/sh
# tools/check_seeds.sh : every kept seeded change must still apply to /repo HEAD and be reported by its property's check
cd "$(dirname "$0")/.." || exit 2
rc=0
for d in seeded/C*-s[0-9]*; do
  id=$(basename $d); prop=${id%%-*}
  if grep -q obsolete_on_head $d/meta.json; then echo "$id: obsolete on HEAD (see meta.json): $(tools/trymutant.sh $d/patch.diff $prop 2>&1 | tail -1 | cut -c1-100)"; continue; fi
  if ! git -C /repo apply --check $PWD/$d/patch.diff 2>/dev/null; then echo "$id: patch does not apply to HEAD"; rc=1; continue; fi
  out=$(tools/trymutant.sh $d/patch.diff $prop 2>&1)
  if echo "$out" | grep -q "^VIOLATION property=$prop"; then
    echo "$id: reported ($(echo "$out" | grep -E "^$prop R" | head -1 | cut -c1-110))"
  else
    echo "$id: NOT REPORTED: $(echo "$out" | tail -1 | cut -c1-150)"; rc=1
  fi
done
exit $rc
