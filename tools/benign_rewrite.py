#!/usr/bin/env python3
"""tools/benign_rewrite.py <mode> <dest dir>
Robustness self-test: a copy of /repo's lib, include, tools in which every lib/*.c and tools/*.c unit has been rewritten by
engine/qbrewrite.cc in a behaviour-preserving way:
  swapcmp  a OP b  ->  (b) OP' (a)        for every innermost comparison
  negif    if (c) A else B  ->  if (!(c)) B else A     (innermost if/else with compound branches)
  incr     x++; / x--;  ->  x += 1; / x -= 1;          (statement level and for-increments)
  notzero  !x  ->  ((x) == 0)
  zeronot  x == 0 / x == NULL  ->  !(x)
  trace    a harmless libc call, (void)strlen(""), at the start of every function and in front of every returned value
The checks must give the same verdict on the copy (run with QB_REPO=<dest>).  Units that no longer parse after the rewrite
are restored (reported)."""
import os, subprocess, sys, shutil
V = os.path.dirname(os.path.dirname(os.path.abspath(__file__)))
sys.path.insert(0, V)
from engine import qb
mode, dest = sys.argv[1], sys.argv[2]
tool = os.path.join(qb.BUILD, 'qbrewrite')
src = os.path.join(V, 'engine', 'qbrewrite.cc')
if not os.path.exists(tool) or os.path.getmtime(tool) < os.path.getmtime(src):
    cxx = subprocess.check_output(['llvm-config-14', '--cxxflags'], text=True).split()
    subprocess.check_call(['clang++'] + cxx + ['-fno-rtti', '-O1', '-w', src, '-o', tool, '/usr/lib/llvm-14/lib/libclang-cpp.so.14', '/usr/lib/llvm-14/lib/libLLVM-14.so'])
for s in ('lib', 'include', 'tools'):
    subprocess.check_call(['rsync', '-a', '--exclude', '*.o', '--exclude', '*.lo', '--exclude', '.libs', '--exclude', '.deps', '--exclude', '*.la',
                           os.path.join(qb.REPO, s), dest + '/'])
flags = qb.cc_flags(qb.REPO) + ['-resource-dir', qb.resource_dir()]
tot = 0
for u in qb.lib_units():
    out = os.path.join(dest, u)
    r = subprocess.run([tool, os.path.join(qb.REPO, u), '-o', out + '.new', '--mode', mode, '--'] + flags, capture_output=True, text=True)
    n = 0
    for line in r.stderr.split('\n'):
        if ' edits (' in line:
            n = int(line.split(': ')[1].split(' ')[0])
    if r.returncode != 0 or not os.path.exists(out + '.new'):
        print('rewrite failed for', u, r.stderr[-300:])
        continue
    os.replace(out + '.new', out)
    chk = subprocess.run(['clang-14', '-fsyntax-only'] + qb.cc_flags(dest) + [out], capture_output=True, text=True)
    if chk.returncode != 0:
        print('restored %s (does not parse after rewrite): %s' % (u, chk.stderr.split('\n')[0][:200]))
        shutil.copy(os.path.join(qb.REPO, u), out)
        continue
    tot += n
print('%s: %d edits' % (mode, tot))
