#!/bin/sh
# tools/check_probes.sh : run every archived compile-only probe (triage/probe9/probe9-Cxx/pN.diff, written by independent agents that
# saw only the property text; argued by scenario, not run) through the check of its property on a scratch copy of the sources.
# One line per probe: reported by <rules> | exit 2 (analysis-broken) | not reported.  Result in triage/probe9/RESULTS.txt
cd "$(dirname "$0")/.." || exit 2
one() {
  P=$1
  for d in triage/probe9/probe9-$P/p*.diff; do
    out=$(tools/trymutant.sh $d $P 2>&1)
    rules=$(echo "$out" | grep -E "^$P R[0-9]+ \[" | sed -E "s/^$P (R[0-9]+) \[([^]]*)\].*/\1 \2/" | sort -u | head -3 | tr '\n' ';')
    if [ -n "$rules" ]; then echo "$P $(basename $d .diff): reported: $rules";
    elif echo "$out" | grep -q "ANALYSIS-BROKEN"; then echo "$P $(basename $d .diff): exit 2: $(echo "$out" | grep ANALYSIS-BROKEN | head -1 | cut -c1-140)";
    else echo "$P $(basename $d .diff): not reported"; fi
  done > /tmp/probes-$P.txt
}
for i in 01 02 03 04 05 06 07 08 09 10 11 12 13 14 15 16 17 18 19 20; do one C$i & done
wait
cat /tmp/probes-C*.txt > triage/probe9/RESULTS.txt; rm -f /tmp/probes-C*.txt
grep -c "reported:" triage/probe9/RESULTS.txt; grep -v "reported:" triage/probe9/RESULTS.txt
