#!/usr/bin/env python3
"""validate MANIFEST.json and evidence/*.json against the harness schemas (run with python3-vt)"""
import json, glob, sys, jsonschema
ok = True
m = json.load(open('/verif/MANIFEST.json'))
jsonschema.validate(m, json.load(open('/root/.vp/MANIFEST.schema.json')))
es = json.load(open('/root/.vp/EVIDENCE.schema.json'))
props = [json.loads(l)['id'] for l in open('/verif/properties.jsonl')]
claimed = [c['property_id'] for c in m['checks']]
na = [c['property_id'] for c in m.get('not_applicable', [])]
assert sorted(claimed + na) == sorted(props), (claimed, na)
for c in m['checks']:
    try:
        jsonschema.validate(json.load(open('/verif/' + c['evidence_file'])), es)
    except Exception as ex:
        ok = False
        print('EVIDENCE INVALID', c['property_id'], str(ex)[:300])
print('manifest ok; claimed', claimed)
sys.exit(0 if ok else 1)
