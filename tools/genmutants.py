#!/usr/bin/env python3
"""regenerate /verif/mutants/*.patch from mutants/specs.py against /repo's
current tree.  Each spec is a single textual edit (old -> new, must match
exactly once) used only to *produce* a variant of the source for the checker
self-test; the checker itself never matches text."""
import difflib
import os
import sys
sys.path.insert(0, os.path.dirname(os.path.dirname(os.path.abspath(__file__))))
from mutants.specs import SPECS

REPO = os.environ.get('QB_REPO', '/repo')
out = os.path.join(os.path.dirname(os.path.dirname(os.path.abspath(__file__))), 'mutants')
only = sys.argv[1:]
bad = 0
for sp in SPECS:
    name = sp['name']
    if only and not any(name.startswith(o) for o in only):
        continue
    edits = sp.get('edits') or [(sp['file'], sp['old'], sp['new'])]
    chunks = []
    ok = True
    for (file, old, new) in edits:
        path = os.path.join(REPO, file)
        src = open(path).read()
        if src.count(old) != 1:
            print('SPEC %s: old text matches %d times in %s' % (name, src.count(old), file))
            ok = False
            break
        dst = src.replace(old, new)
        chunks.append(''.join(difflib.unified_diff(src.splitlines(True), dst.splitlines(True), 'a/' + file, 'b/' + file)))
    if not ok:
        bad += 1
        continue
    with open(os.path.join(out, name + '.patch'), 'w') as fh:
        fh.write('# what: %s\n# expect-rule: %s\n' % (sp['what'], sp['rule']))
        fh.write(''.join(chunks))
print('done, %d bad' % bad)
sys.exit(1 if bad else 0)
