#!/usr/bin/env python3
"""write mutants/<prop>-regress-<Dn>.patch = the reverse of each fix: commit in /repo,
so that the thorough self-test proves the rule that exposed the defect still fires"""
import json, os, re, subprocess
V = os.path.dirname(os.path.dirname(os.path.abspath(__file__)))
RULE = {'D101': 'R9', 'D100': 'R10', 'D99': 'R8', 'D98': 'R15', 'D97': 'R4', 'D96': 'R3', 'D95': 'R11', 'D94': 'R13', 'D93': 'R10', 'D92': 'R9', 'D91': 'R1', 'D90': 'R9', 'D89': 'R11', 'D88': 'R2', 'D87': 'R3', 'D86': 'R11', 'D85': 'R10', 'D84': 'R13/R14', 'D83': 'R13', 'D82': 'R10', 'D81': 'R10', 'D80': 'R7', 'D79': 'R1', 'D78': 'R6', 'D77': 'R3', 'D76': 'R9', 'D75': 'R8', 'D74': 'R12', 'D73': 'R11', 'D72': 'R8', 'D71': 'R3', 'D70': 'R1', 'D69': 'R9', 'D68': 'R8', 'D67': 'R7', 'D66': 'R7', 'D65': 'R9', 'D64': 'R2', 'D63': 'R10', 'D62': 'R9', 'D61': 'R8', 'D60': 'R7', 'D59': 'R1', 'D58': 'R2', 'D57': 'R10', 'D56': 'R5', 'D55': 'R3', 'D53': 'R7', 'D52': 'R6', 'D51': 'R7', 'D50': 'R3', 'D49': 'R7', 'D48': 'R6', 'D47': 'R8', 'D46': 'R7', 'D45': 'R7', 'D44': 'R7', 'D43': 'R6', 'D42': 'R6', 'D41': 'R6', 'D40': 'R8', 'D39': 'R7', 'D38': 'R6', 'D37': 'R11', 'D36': 'R12', 'D35': 'R11', 'D34': 'R10', 'D33': 'R9', 'D32': 'R11', 'D31': 'R10', 'D30': 'R9', 'D29': 'R8', 'D26b': 'R8', 'D28': 'R7', 'D27': 'R9', 'D26': 'R8', 'D25': 'R8', 'D24': 'R4', 'D23': 'R6', 'D22': 'R3', 'D21': 'R6', 'D19': 'R4', 'D20': 'R5', 'D1': 'R1', 'D2': 'R2', 'D3': 'R1', 'D4': 'R2', 'D5': 'R4', 'D6': 'R2', 'D7': 'R3', 'D8a': 'R1', 'D8b': 'R4', 'D9': 'R2',
        'D10': 'R3', 'D11a': 'R1', 'D11b': 'R2', 'D11c': 'R3', 'D12': 'R6/R7', 'D13': 'R4', 'D14': 'R2', 'D15': 'R2', 'D16': 'R3',
        'D17': 'R1', 'D18': 'R6'}
ALSO_REVERT = {'D26': ['2cc7e70']}
# repaired in passing, outside what the property quantifies over: no rule claims it, so no regress mutant
NO_REGRESS = {'D54': 'h and hh are not among the length modifiers C14 quantifies over (l ll z t j)'}
kf = json.load(open(os.path.join(V, 'known_findings.json')))
for line in kf['fixed']:
    m = re.match(r'fixed: property=(C\d+) ([0-9a-f]+) (.*) \((D\w+)\)$', line)
    prop, h, what, d = m.groups()
    if d in NO_REGRESS:
        p0 = os.path.join(V, 'mutants', '%s-regress-%s.patch' % (prop, d))
        if os.path.exists(p0):
            os.unlink(p0)
        continue
    diff = subprocess.check_output(['git', '-C', '/repo', 'diff', h, h + '^', '--', 'lib', 'include'], text=True)
    if d in ALSO_REVERT:
        # a later fix: builds on this one: the reverse of this commit alone no longer compiles; revert the follow-up with it
        import tempfile, shutil
        wt = tempfile.mkdtemp(prefix='qbregress-')
        os.rmdir(wt)
        subprocess.check_call(['git', '-C', '/repo', 'worktree', 'add', '-q', '--detach', wt, 'HEAD'])
        try:
            ok = True
            for c in ALSO_REVERT[d] + [h]:
                r = subprocess.run(['git', '-C', wt, 'revert', '--no-commit', c], capture_output=True, text=True)
                ok = ok and r.returncode == 0
            if ok:
                diff = subprocess.check_output(['git', '-C', wt, 'diff', 'HEAD', '--', 'lib', 'include'], text=True)
        finally:
            subprocess.run(['git', '-C', '/repo', 'worktree', 'remove', '--force', wt])
    chk = subprocess.run(['git', '-C', '/repo', 'apply', '--check', '-'], input=diff, text=True, capture_output=True)
    path = os.path.join(V, 'mutants', '%s-regress-%s.patch' % (prop, d))
    if chk.returncode != 0:
        # a later fix touched the same lines: the reverse no longer applies; an equivalent hand-written mutant covers it
        if os.path.exists(path):
            os.unlink(path)
        print('skip %s (reverse patch no longer applies)' % d)
        continue
    with open(os.path.join(V, 'mutants', '%s-regress-%s.patch' % (prop, d)), 'w') as fh:
        fh.write('# what: reverts %s (%s): %s\n# expect-rule: %s\n' % (h, d, what, RULE[d]))
        fh.write(diff)
    # D14 also belongs to C14.R5 / D10 to C14.R5 - not duplicated
print('ok')
