#!/bin/sh
# tools/seedq.sh <seeddir> <name> ...   - confirm seeds one after another (serialised by a lock file)
exec 9>/tmp/seedq.lock
flock 9
while [ $# -ge 2 ]; do
  /verif/tools/confirm_seed.sh "$1" "$2" > /tmp/confirm-$2.out 2>&1
  shift 2
done
