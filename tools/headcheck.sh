#!/bin/sh
WT=/tmp/wt-headcheck
git -C /repo worktree remove --force $WT 2>/dev/null
git -C /repo worktree add -q --detach $WT HEAD || exit 2
rsync -a --ignore-existing --exclude .git /repo/ $WT/
cd $WT && ./config.status >/dev/null 2>&1 && make clean >/dev/null 2>&1 && make -j8 >/tmp/headcheck.build 2>&1
flock /tmp/qb-suite.lock make -j8 check > /tmp/headcheck.log 2>&1
echo "exit=$?" >> /tmp/headcheck.log
grep -E "^(PASS|FAIL|ERROR):" /tmp/headcheck.log > /tmp/headcheck.summary
cd /; git -C /repo worktree remove --force $WT
