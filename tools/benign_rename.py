#!/usr/bin/env python3
"""tools/benign_rename.py <dest dir>
Robustness self-test: write a copy of /repo's lib, include, tools in which every local variable and parameter of every
function defined in lib/*.c and tools/*.c is renamed (suffix _rn) - a behaviour-preserving edit.  The checks must give the
same verdict on the copy (run with QB_REPO=<dest>).  Names that also occur as a field/macro argument in the function text
are skipped (a textual rename could not tell them apart)."""
import json, os, re, subprocess, sys, glob, shutil
V = os.path.dirname(os.path.dirname(os.path.abspath(__file__)))
sys.path.insert(0, V)
from engine import qb

dest = sys.argv[1]
for s in ('lib', 'include', 'tools'):
    subprocess.check_call(['rsync', '-a', '--exclude', '*.o', '--exclude', '*.lo', '--exclude', '.libs', '--exclude', '.deps', '--exclude', '*.la',
                           os.path.join(qb.REPO, s), dest + '/'])
units = qb.lib_units()
tmp = os.path.join(qb.BUILD, 'facts-rename')
shutil.rmtree(tmp, ignore_errors=True)
files = qb.extract(units, repo=qb.REPO, outdir=tmp)
KEYWORDS = set('int char long short unsigned signed void struct union enum if else for while do return goto break continue switch case default sizeof static const volatile'.split())
nren = 0
FIELDS = set()   # member names may be passed bare to container_of-style macros
per_file = {}
for fp in files:
    d = json.load(open(fp))
    for r in d['records']:
        FIELDS.update(fl['n'] for fl in r['fields'])
    for f in d['functions']:
        if not f['file'].endswith('.c'):
            continue
        names = {p['n'] for p in f['params'] if p.get('n')}
        for b in f['blocks']:
            for ev in b.get('events', []):
                if ev.get('ev') == 'DECL' and ev.get('var') and not ev.get('mac'):
                    names.add(ev['var'])
        per_file.setdefault(f['file'], {})[(f['line'], f['end_line'])] = names
shutil.rmtree(tmp, ignore_errors=True)
def rename_file(rel, fns, aggressive):
    global nren
    path = os.path.join(dest, rel)
    text = open(os.path.join(qb.REPO, rel), errors='replace').read()
    lines = text.split('\n')
    # identifiers used inside macro bodies of this file (a macro may capture a local by name)
    captured = set()
    for m in re.finditer(r'^[ \t]*#[ \t]*define[^\n]*(?:\\\n[^\n]*)*', text, re.M):
        captured |= set(re.findall(r'[A-Za-z_]\w*', m.group(0)))
    for (a, b), names in fns.items():
        # the function header may start a few lines above 'line' (return type on its own line)
        a0 = max(0, a - 3)
        body = '\n'.join(lines[a0:b])
        for n in sorted(names, key=len, reverse=True):
            if n in KEYWORDS or n in captured or (n in FIELDS and not aggressive) or not re.match(r'^[A-Za-z_]\w*$', n):
                continue
            # rename in code only: string/char literals and comments are left alone; member accesses (->n, .n) are excluded
            # by the look-behind; a struct tag of the same name is left alone
            if re.search(r'\b(struct|union|enum)\s+%s\b' % re.escape(n), body):
                continue
            parts = re.split(r'("(?:\\.|[^"\\\n])*"|\'(?:\\.|[^\'\\\n])*\'|/\*.*?\*/|//[^\n]*)', body, flags=re.S)
            k = 0
            for i in range(0, len(parts), 2):
                parts[i], kk = re.subn(r'(?<![\w>.])%s\b' % re.escape(n), n + '_rn', parts[i])
                k += kk
            body = ''.join(parts)
            nren += 1 if k else 0
        lines[a0:b] = body.split('\n')
    open(path, 'w').write('\n'.join(lines))


def parses(rel):
    flags = qb.cc_flags(dest, (), [])
    r = subprocess.run(['clang-14', '-fsyntax-only', '-w'] + [f for f in flags] + [os.path.join(dest, rel)], capture_output=True, text=True)
    return r.returncode == 0


agg = 0
for rel, fns in per_file.items():
    rename_file(rel, fns, True)
    if rel.endswith('.c') and parses(rel):
        agg += 1
    else:
        rename_file(rel, fns, False)
print('aggressive (locals that share a name with a struct member also renamed) in %d files' % agg)
print('renamed %d (function, name) pairs in %d files' % (nren, len(per_file)))
