#!/bin/sh
# tools/confirm_seed.sh <dir with patch.diff demo.sh|demo.c> <name> [notests]
# Confirms a seeded change in a scratch worktree: demo passes on base, patch applies, library builds,
# full test suite passes with the change, demo fails with the change.  Writes <dir>/confirm.json.
S=$(realpath "$1"); NAME=$2; NOTESTS=$3
WT=/tmp/wt-confirm-$NAME
git -C /repo worktree remove --force $WT 2>/dev/null
git -C /repo worktree add -q --detach $WT HEAD || exit 2
rsync -a --ignore-existing --exclude .git /repo/ $WT/
cd $WT && ./config.status >/dev/null 2>&1 && make -j8 >/dev/null 2>&1
run_demo() {
  if [ -x "$S/demo.sh" ] || [ -f "$S/demo.sh" ]; then timeout 600 sh "$S/demo.sh" "$WT" >"$S/$1.out" 2>&1; echo $?;
  else gcc -g -O0 -I$WT/include -I$WT/include/qb "$S/demo.c" -L$WT/lib/.libs -lqb -lpthread -o /tmp/demo-$NAME >"$S/$1.out" 2>&1 && LD_LIBRARY_PATH=$WT/lib/.libs timeout 600 /tmp/demo-$NAME >>"$S/$1.out" 2>&1; echo $?; rm -f /tmp/demo-$NAME; fi
}
BASE=$(run_demo confirm-base)
git apply "$S/patch.diff"; APPLY=$?
make -j8 >/tmp/confirm-$NAME-build.log 2>&1; BUILD=$?
if [ -z "$NOTESTS" ]; then
  flock /tmp/qb-suite.lock make -j8 check >/tmp/confirm-$NAME-check.log 2>&1; CHECK=$?
  PASSN=$(grep -c "^PASS:" /tmp/confirm-$NAME-check.log); FAILN=$(grep -c "^FAIL:\|^ERROR:" /tmp/confirm-$NAME-check.log)
else CHECK=-1; PASSN=0; FAILN=0; fi
CHG=$(run_demo confirm-changed)
cd /; git -C /repo worktree remove --force $WT; rm -f /tmp/confirm-$NAME-build.log
printf '{"name":"%s","demo_on_base_exit":%s,"patch_applies":%s,"build_exit":%s,"suite_exit":%s,"suite_pass":%s,"suite_fail":%s,"demo_on_changed_exit":%s}\n' \
  "$NAME" "$BASE" "$APPLY" "$BUILD" "$CHECK" "$PASSN" "$FAILN" "$CHG" | tee "$S/confirm.json"
