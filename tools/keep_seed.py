#!/usr/bin/env python3
"""tools/keep_seed.py <seed dir> <seed id> <property> "<needs>" "<caught by / missed>"
copy a confirmed seeded change into /verif/seeded/<id>/ with meta.json"""
import json, os, shutil, sys
src, sid, prop, needs, caught = sys.argv[1:6]
conf = json.load(open(os.path.join(src, 'confirm.json')))
assert conf['demo_on_base_exit'] == 0 and conf['patch_applies'] == 0 and conf['build_exit'] == 0, conf
assert conf['suite_exit'] == 0 and conf['suite_fail'] == 0 and conf['suite_pass'] >= 11, conf
assert conf['demo_on_changed_exit'] != 0, conf
dst = os.path.join('/verif/seeded', sid)
os.makedirs(dst, exist_ok=True)
for n in os.listdir(src):
    if n in ('patch.diff', 'demo.c', 'demo.sh', 'NOTES.md', 'confirm.json') or n.endswith('.c') or n.endswith('.sh'):
        shutil.copy(os.path.join(src, n), os.path.join(dst, n))
meta = {'id': sid, 'property': prop, 'breaks': prop, 'needs_to_manifest': needs,
        'origin': 'independent sub-agent given only the property text and a scratch worktree',
        'confirmed_by': 'tools/confirm_seed.sh in a scratch worktree of /repo HEAD: demo passes on the unchanged tree (exit 0), '
                        'patch applies, library builds, full test suite passes with the change (%d PASS, 0 FAIL), demo fails with the change (exit %s)' % (
                            conf['suite_pass'], conf['demo_on_changed_exit']),
        'confirm': conf, 'static_check_result': caught}
json.dump(meta, open(os.path.join(dst, 'meta.json'), 'w'), indent=1)
print('kept', dst)
