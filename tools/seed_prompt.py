#!/usr/bin/env python3
"""print the prompt given to an independent sub-agent that seeds a property-breaking change
(only the property text and a scratch worktree recipe; nothing from /verif's machinery)"""
import json, sys
pid = sys.argv[1]
n = sys.argv[2] if len(sys.argv) > 2 else '2'
p = [json.loads(l) for l in open('/verif/properties.jsonl') if json.loads(l)['id'] == pid][0]
wt = '/tmp/wt-seed-%s' % pid
out = '/tmp/seed-%s' % pid
print(f'''You are helping to test a verification effort for the C library libqb (ClusterLabs/libqb: shared-memory/socket IPC, ring buffer, event loop, logging with blackbox, maps). Its pinned source is the git repository /repo. You must NOT modify /repo's working tree and must NOT read anything under /verif. Work only in your own scratch git worktree.

## Property (this is all you are given)
{p['id']}: {p['title']}
{p['statement']}
(Quantified over: {p['quantifier']['text']})

## Your task
Produce {n} DIFFERENT, realistic changes to libqb's library source (lib/, include/) — the kind of edit a developer could plausibly make during a refactoring, optimisation or "cleanup" — each of which BREAKS the property above while the library still compiles and the existing test suite still passes completely. Prefer changes that need something specific to manifest — a particular interleaving, a crash or fault at a particular point, a multi-step sequence of operations, an unusual input or size, or two cooperating sites that each look fine alone — NOT changes that ordinary use would expose at once. Each change should be small (a few lines, possibly in two places) and must not be a compile-time trick, must not touch tests, and must not add obviously-malicious code. The {n} changes should attack different mechanisms/sites behind the property.

For each change also write a demonstration: a small standalone C program (or shell script driving one) that uses the public API (or, if unavoidable, internal headers) and FAILS (non-zero exit / sanitizer report / wrong output detected by the program itself) on the changed library but PASSES on the unchanged library. Deterministic demonstrations are strongly preferred; if the break is schedule-dependent, make the demo force the schedule (sleeps, barriers, ordering) as far as possible and say how reliable it is.

## Scratch worktree recipe (exact, tested; no network available)
```
git -C /repo worktree add --detach {wt} HEAD
rsync -a --ignore-existing --exclude .git /repo/ {wt}/     # brings git-ignored configure outputs
cd {wt} && ./config.status >/dev/null && make -j8 >/dev/null 2>&1
```
Never run `make -B`, autogen or autoreconf. Test suite: `cd {wt} && flock /tmp/qb-suite.lock make -j8 check` (always through that flock: several agents share this machine and concurrent suites make the IPC tests flaky; about 3 minutes once the lock is yours; the 11 tests array, blackbox-segfault.sh, ipc, list, log, loop, map, rb, resources, sock_ipc_wrapper, start must all PASS; look at tests/test-suite.log). The built library is {wt}/lib/.libs/libqb.so (link demos with -I{wt}/include -I{wt}/include/qb -L{wt}/lib/.libs -lqb -lpthread and run with LD_LIBRARY_PATH={wt}/lib/.libs), or compile the needed lib/*.c files directly into the demo, optionally with -fsanitize=address,undefined (clang and gcc are available). Other agents may be running the test suite in their own worktrees at the same time: never delete /dev/shm/qb-* wholesale, remove only files your own runs left behind (by name), and if an IPC test fails once in a way unrelated to your change, re-run it before concluding.

## Deliverables (directory {out}/, create it)
For change k in 1..{n}: `{out}/change<k>/patch.diff` (unified diff, a/ b/ prefixes, applies to /repo HEAD with `git apply`), `{out}/change<k>/demo.c` (and `demo.sh` if needed: how to build and run it given a libqb tree path as $1, exit 0 = property held, non-zero = broken), `{out}/change<k>/NOTES.md`: what the change is, why it breaks the property, what it needs in order to manifest, the exact commands you ran, and the observed results: (a) test suite with the change: all pass; (b) demo on unchanged tree: pass; (c) demo on changed tree: fail (with output).
You must actually run (a), (b), (c) — do not guess. If a candidate change makes an existing test fail, discard it and find another.

When finished: `git -C /repo worktree remove --force {wt}` (and delete any other scratch directories except {out}), remove only your own leftovers in /dev/shm. Final message: a short summary of the {n} changes (files/functions touched, what they need to manifest) and the confirmation results.''')
