#!/usr/bin/env python3
"""regenerate MANIFEST.json from the rule modules present under rules/ (claimed) and
tools/not_applicable.json (reasons for the rest)"""
import importlib, json, os, sys
V = os.path.dirname(os.path.dirname(os.path.abspath(__file__)))
sys.path.insert(0, V)
props = [json.loads(l) for l in open(os.path.join(V, 'properties.jsonl'))]
na_reasons = json.load(open(os.path.join(V, 'tools', 'not_applicable.json')))
checks, na, claimed = [], [], []
for p in props:
    pid = p['id']
    modp = os.path.join(V, 'rules', pid.lower() + '.py')
    if os.path.exists(modp) and pid not in na_reasons:
        mod = importlib.import_module('rules.' + pid.lower())
        claimed.append(pid)
        checks.append({
            'property_id': pid,
            'quick_cmd': './qbcheck %s --tier quick' % pid,
            'thorough_cmd': './qbcheck %s --tier thorough' % pid,
            'evidence_file': 'evidence/%s.json' % pid,
            'replay_cmd_template': './qbcheck explain {path}',
            'engine': 'qbcheck',
            'level_claimed': {
                'category': 'other',
                'text': 'static analysis of the current source: %d structural rules (%s), each a necessary condition of the property, '
                        'decided on every path of the CFG / over the whole-library call graph. %s This is not a proof of the behaviour.' % (
                            len(mod.RULES), ', '.join(sorted(mod.RULES)), getattr(mod, 'DECIDES', '')),
                'design_ref': 'DESIGN.md section 3 / ' + pid},
            'level_note': 'trusted: clang 14 parser, constant evaluator and CFG builder; qbfacts callee/access-path resolution; the rule and owner tables in rules/%s.py. '
                          'The part of the property that quantifies over runtime values (see "Not decided" in DESIGN.md) is not claimed.' % pid.lower(),
            'technique': getattr(mod, 'TECHNIQUE', 'static analysis: custom clang-LibTooling CFG/dataflow rules (dominance, edge cut-sets, who-may-write/call, finite abstract evaluation)')})
    else:
        na.append({'property_id': pid, 'reason': na_reasons.get(pid, 'rules designed (DESIGN.md section 3) but not implemented yet')})
m = {'version': 1, 'setup_cmd': './setup.sh',
     'hooks': {'guard': 'LIBQB_VERIF',
               'enable': 'no hooks: the checks parse /repo\'s current sources with the build\'s own flags (lib/Makefile DEFS/CPPFLAGS, config.h) and execute nothing',
               'baseline_off_cmd': 'make -C /repo check', 'source_commits': [], 'add_only': True},
     'engines': [{'name': 'qbcheck', 'path': 'engine/', 'serves_properties': claimed,
                  'kind_free_text': 'clang-14 LibTooling fact extractor (per-function CFG with resolved events, constants, layouts) + Python rule engine; static analysis only'}],
     'checks': checks, 'not_applicable': na,
     'notes': 'Static-analysis family only; see DESIGN.md. exit 0 = all obligations discharged, 1 = VIOLATION, 2 = analysis broken (anchor vanished / floor not met / inconclusive / self-test mutant missed).'}
json.dump(m, open(os.path.join(V, 'MANIFEST.json'), 'w'), indent=1)
print('claimed:', claimed)
