#!/bin/sh
# tools/trymutant.sh <patch> <Cxx> : apply a patch to a scratch copy of the sources and run the rules there
P=$(realpath "$1"); PROP=$2
D=$(mktemp -d /tmp/qbtry-XXXXXX)
for s in lib include tools; do rsync -a --exclude '*.o' --exclude '*.lo' --exclude '.libs' --exclude '.deps' --exclude '*.la' /repo/$s $D/; done
(cd $D && patch -p1 -s < "$P") || { echo "patch failed"; rm -rf $D; exit 3; }
cd /verif && QB_REPO=$D python3 engine/driver.py $PROP --no-evidence
rc=$?
rm -rf $D
exit $rc
