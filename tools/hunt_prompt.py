#!/usr/bin/env python3
"""prompt for an independent sub-agent that hunts for violations of one property on the UNCHANGED tree (dynamic triage:
model-based fuzzing / sanitizers).  Its findings are triage input only - no check runs its programs."""
import json, sys
pid = sys.argv[1]
p = [json.loads(l) for l in open('/verif/properties.jsonl') if json.loads(l)['id'] == pid][0]
wt = '/tmp/wt-hunt-%s' % pid
out = '/tmp/hunt-%s' % pid
print(f'''You are testing the C library libqb (ClusterLabs/libqb: shared-memory/socket IPC, ring buffer, event loop, logging with blackbox, maps). Its pinned source is the git repository /repo (already built in place: /repo/lib/.libs/libqb.so, headers /repo/include). You must NOT modify /repo's working tree and must NOT read anything under /verif.

## Property
{p['id']}: {p['title']}
{p['statement']}
(Quantified over: {p['quantifier']['text']})
Code it is anchored in: {', '.join(p.get('anchors', {}).get('files', []))}

## Your task
Find out whether the UNCHANGED library violates this property for some input, sequence of operations, size or interleaving. Read the anchored code, then write a model-based randomized tester (a small C program using the public API - or internal headers/compiling lib/*.c directly if needed - that drives random operation sequences and checks every result against a simple reference model of what the property promises), build it with -fsanitize=address,undefined against the tree's sources (compile the needed /repo/lib/*.c files into the program with -DHAVE_CONFIG_H -I/repo/include -I/repo/include/qb -I/repo/lib, link the rest from -L/repo/lib/.libs -lqb; run with LD_LIBRARY_PATH=/repo/lib/.libs) and run at least a few hundred thousand operations with several seeds and parameter ranges (include small, boundary and unusual sizes). Also try targeted sequences suggested by reading the code (boundary sizes, wrap-around, removal of the element being visited, re-entrancy from callbacks, error paths). For anything threaded use -fsanitize=thread in a separate build. Minimise every failure to the shortest deterministic sequence you can.

Only report GENUINE violations of the property as stated (memory errors count when the property speaks of safety/no corruption). Do not report API misuse, behaviour the property does not promise, or leaks unless the property mentions them. If you find nothing after a serious effort, say so and describe what you covered - that is a useful result.

## Scratch space
Work under {out}/ (create it). If you need a writable source tree: `git -C /repo worktree add --detach {wt} HEAD && rsync -a --ignore-existing --exclude .git /repo/ {wt}/` and remove it with `git -C /repo worktree remove --force {wt}` when done. Never run the repository's test suite (other agents share this machine). Remove only your own leftovers in /dev/shm (by name).

## Deliverables in {out}/
`fuzz.c` (+ `build.sh`): the tester; for each distinct finding k: `finding<k>/demo.c` + `finding<k>/demo.sh <tree>` (exit 0 = property held, non-zero = violated; deterministic) and `finding<k>/NOTES.md`: the exact sequence, what goes wrong and where in the source (function:line, why), observed output on /repo. `REPORT.md`: summary, coverage, findings. Final message: short summary of findings (or of the coverage if none).''')
