#!/bin/sh
# tools/benign_all.sh [mode ...] : robustness self-test - every check must give the unchanged-tree verdict on behaviour-preserving
# rewrites of the sources (rename = every local renamed; swapcmp negif incr notzero zeronot = engine/qbrewrite.cc)
cd "$(dirname "$0")/.." || exit 2
MODES=${*:-rename swapcmp negif incr notzero zeronot trace}
rc=0
for m in $MODES; do
  D=$(mktemp -d /tmp/qbbenign-XXXXXX)
  if [ "$m" = rename ]; then python3 tools/benign_rename.py $D | tail -1; else python3 tools/benign_rewrite.py $m $D | tail -3; fi
  for i in 01 02 03 04 05 06 07 08 09 10 11 12 13 14 15 16 17 18 19 20; do
    out=$(QB_REPO=$D python3 engine/driver.py C$i --no-evidence 2>&1)
    if ! echo "$out" | grep -q "violations=0 known=0 broken=0"; then
      rc=1
      echo "$out" | grep -E "tier=|BROKEN|^C$i R" | cut -c1-260 | head -8 | sed "s/^/[$m] /"
    fi
  done
  rm -rf $D
done
[ $rc = 0 ] && echo "benign rewrites: all checks silent"
exit $rc
