#!/usr/bin/env python3
"""regenerate the generated part of DESIGN.md (between the GENERATED markers): the rules as implemented, the mutant
corpus and the seeded changes with the rule that reports each - read from rules/*.py, mutants/, seeded/, known_findings.json"""
import importlib, json, os, re, sys
V = os.path.dirname(os.path.dirname(os.path.abspath(__file__)))
sys.path.insert(0, V)
sys.path.insert(0, os.path.join(V, 'mutants'))
out = []
P = out.append
props = {json.loads(l)['id']: json.loads(l) for l in open(os.path.join(V, 'properties.jsonl'))}
ev = {}
for pid in props:
    p = os.path.join(V, 'evidence', pid + '.json')
    if os.path.exists(p):
        ev[pid] = json.load(open(p))

P('### 7.1 Rules as implemented (read from `rules/cXX.py`; counts from the committed evidence)\n')
for pid in sorted(props):
    try:
        m = importlib.import_module('rules.' + pid.lower())
    except ImportError:
        continue
    cov = ev.get(pid, {}).get('coverage', {})
    per = cov.get('per_rule', {})
    P('**%s – %s**  (units: %s)\n' % (pid, props[pid]['title'], ', '.join('`%s`' % u for u in m.UNITS)))
    P('*Decides:* %s\n' % m.DECIDES)
    P('| rule | obligation | floor | instances today |')
    P('|------|------------|-------|-----------------|')
    for r in sorted(m.RULES, key=lambda x: int(x[1:])):
        P('| %s | %s | %s | %s |' % (r, m.RULES[r].replace('|', '\\|'), m.FLOORS.get(r, ''), per.get(r, '')))
    alts = getattr(m, 'ALT_CONFIGS', [])
    if alts:
        P('\nAlternative configurations (thorough tier): ' + '; '.join('`%s`' % a['name'] for a in alts))
    P('')

P('### 7.2 Checker self-test corpus: which rule reports which change\n')
P('Each line is one patch under `mutants/`, applied to a scratch copy of the sources in the thorough tier; the run is *broken* (exit 2) '
  'unless one of the named rules reports it. `regress-Dn` patches are the exact reverse of the corresponding `fix:` commit in /repo.\n')
import specs
byprop = {}
for s in specs.SPECS:
    byprop.setdefault(s['name'][:3], []).append((s['name'], s['rule'], s['what']))
for fn in sorted(os.listdir(os.path.join(V, 'mutants'))):
    m = re.match(r'(C\d+)-regress-(D\w+)\.patch$', fn)
    if m:
        head = open(os.path.join(V, 'mutants', fn)).read().split('\n')[:2]
        what = head[0].replace('# what: ', '')
        rule = head[1].replace('# expect-rule: ', '')
        byprop.setdefault(m.group(1), []).append((fn[:-6], rule, what))
for pid in sorted(byprop):
    sel = ev.get(pid, {}).get('coverage', {}).get('mutant_selftest') or []
    got = {r['mutant'].replace('.patch', ''): r for r in sel}
    P('**%s** (%d changes)\n' % (pid, len(byprop[pid])))
    P('| change | what it does | expected rule | reported by (last thorough run) |')
    P('|--------|--------------|---------------|---------------------------------|')
    for (n, r, w) in byprop[pid]:
        g = got.get(n)
        rep = ('%s' % '/'.join(g['reported_by']) if g and g.get('caught') else ('MISSED' if g else 'n/a'))
        P('| `%s` | %s | %s | %s |' % (n, w.replace('|', '\\|'), r, rep))
    P('')

P('### 7.3 Independently seeded changes\n')
P('Written by sub-agents that saw only the property text and a scratch worktree (nothing of /verif), each confirmed by '
  '`tools/confirm_seed.sh` in a scratch worktree of /repo HEAD: demo passes on the unchanged tree, patch applies, library builds, '
  'all 11 tests pass with the change, demo fails with the change. Kept under `seeded/<id>/` (patch.diff, demo, NOTES.md, meta.json).\n')
P('| id | needs to manifest | static check result |')
P('|----|-------------------|---------------------|')
sd = os.path.join(V, 'seeded')
for d in sorted(os.listdir(sd)):
    mp = os.path.join(sd, d, 'meta.json')
    if os.path.exists(mp):
        m = json.load(open(mp))
        P('| %s | %s | %s |' % (m['id'], m['needs_to_manifest'].replace('|', '\\|'), m['static_check_result'].replace('|', '\\|')))
P('')

P('### 7.4 Defects repaired in /repo (`known_findings.json`, `fixed:` entries; none is suppressed)\n')
kf = json.load(open(os.path.join(V, 'known_findings.json')))
for line in kf['fixed']:
    P('* `%s`' % line)
P('')
P('Open findings (`findings`): %s\n' % (json.dumps(kf['findings']) if kf['findings'] else 'none'))

text = '\n'.join(out)
dp = os.path.join(V, 'DESIGN.md')
s = open(dp).read()
b, e = '<!-- BEGIN GENERATED (tools/gen_design.py) -->', '<!-- END GENERATED -->'
if b in s:
    s = s[:s.index(b) + len(b)] + '\n\n' + text + '\n' + s[s.index(e):]
    open(dp, 'w').write(s)
    print('DESIGN.md updated: %d generated lines' % len(out))
else:
    print(text)
