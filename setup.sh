#!/bin/sh
# builds the fact extractor (offline; clang 14 LibTooling libraries of the image)
cd "$(dirname "$0")" || exit 2
exec python3 -c "
import sys
sys.path.insert(0, '.')
from engine import qb
qb.ensure_extractor()
print('qbfacts ready:', qb.QBFACTS)
"
