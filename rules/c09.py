"""C09 - timers never fire early; the loop never sleeps past the next expiry."""
from engine.qb import (cmp_forms, AnalysisBroken, estr, unwrap, cval, walk, last_field, fields_of, callee_of, mentions_var,
                       atoms_of, var_ranges)
from rules.common import field_is, has_call, value_sources, some_source, derives, macro_named

UNITS = ['lib/loop_timerlist.c', 'lib/loop.c', 'lib/loop_job.c', 'lib/loop_poll.c', 'lib/loop_poll_epoll.c']
TECHNIQUE = ('static analysis: custom clang-LibTooling CFG/dataflow rules - interval analysis of the timeout value chain (conversions anywhere in the '
             'returned expression, refined by ?: conditions), reaching definitions, edge cut-sets, type facts of the time variables, finite abstract '
             'evaluation of the run loop')
DECIDES = ('Decides that no narrowing conversion on the way from the timer heap to the kernel poll timeout can turn a pending '
           'expiry into a negative ("forever") or wrapped timeout, that every timeout the loop may block with is timer-derived, '
           'that expiry is decided against a clock value read in the same call with consistent units, and that the state queries '
           'need a valid handle and ACTIVE state; heap ordering and real time are not decided.')
RULES = {
    'R1': 'value chain timerlist_msec_duration_to_expire -> qb_loop_timer_msec_duration_to_expire -> ms_timeout -> driver poll -> epoll_wait: at every narrowing conversion the operand range is within [0, INT32_MAX] or the -1 "no timer" sentinel',
    'R2': 'every definition of the poll timeout in qb_loop_run is a finite constant >= 0, the timer-derived call, or -1 only under timer_source == NULL',
    'R3': 'timerlist_expire compares expire_time with a clock value read in the same call (< or <=), takes the heap top, stops at the first unexpired entry; add_duration stores now + duration; ns->ms divisor is 10^6',
    'R5': 'the timer heap stays a min-heap on expire_time: index arithmetic (2i+1, 2i+2, (i-1)/2), entry comparison on expire_time, add sifts up, delete repairs in both directions depending on how the moved entry compares with the removed one',
    'R4': 'expire_time_get / expire_time_remaining return non-zero only when the handle check passed and state == ACTIVE; is_running is expire_time_get > 0',
    'R6': 'the pending-work count that keeps the loop from sleeping is not corrupted: level->todo is decremented only for items that were counted in it (= C08.R1 todo accounting)',
    'R7': 'an interrupted wait is not resumed with the timeout computed before it: from the EINTR edge of the descriptor driver\'s wait the wait call is not reached again without the timeout having been set anew (or the driver returns to the loop, which recomputes it)',
}
FLOORS = {'R1': 5, 'R2': 4, 'R3': 7, 'R4': 5, 'R5': 10, 'R6': 2, 'R7': 1}

I32_MAX = 2**31 - 1


def run(ctx):
    r1(ctx)
    r2(ctx)
    r3(ctx)
    r4(ctx)
    r5(ctx)
    from rules import c08
    c08.todo_accounting(ctx, 'R6')
    r6_entry(ctx)
    r7(ctx)


def _int(prog, ty):
    ti = prog.type_info(ty)
    return ti.get('bits'), ti.get('signed')


def r1(ctx):
    prog = ctx.prog
    src = prog.fn('timerlist_msec_duration_to_expire')
    sb, ss = _int(prog, src.ret)
    f = prog.fn('qb_loop_timer_msec_duration_to_expire')
    rb, rs = _int(prog, f.ret)
    ctx.check('R1', 'source-width', sb == 64 and ss is False, src, 'timerlist duration is uint64', 'timerlist duration type is %s' % src.ret)
    # returns of f: operand variable and its range
    rets = [ev for ev in f.returns() if ev.e is not None]
    if not rets:
        raise AnalysisBroken('qb_loop_timer_msec_duration_to_expire: no return value')
    for ev in rets:
        _return_conversions(ctx, prog, f, ev, rb, rs)
    # the rest of the chain has no narrowing: ms_timeout type, slot parameter type, epoll_wait argument
    run = prog.fn('qb_loop_run')
    polls = [ev for ev in run.calls('qb_loop_source::poll') if 'fd_source' in estr(ev.e)]
    if len(polls) != 1:
        raise AnalysisBroken('qb_loop_run: fd poll sites = %d' % len(polls))
    arg = polls[0].args[1]
    ab, asg = _int(prog, unwrap(arg).get('ty'))
    ctx.check('R1', 'ms_timeout-type', ab == rb and asg == rs and arg.get('k') != 'cast', polls[0],
              'the loop keeps the timeout in a %d-bit signed variable and passes it unconverted' % ab,
              'the timeout is converted between the timer source and the driver poll (%s)' % estr(arg, True))
    impls = prog.slots().get('qb_loop_source::poll', set())
    fdimpls = [n for n in impls if n not in ('get_more_jobs', 'expire_the_timers')]
    if not fdimpls:
        raise AnalysisBroken('no fd poll implementation found in the slot table')
    for n in fdimpls:
        g = prog.fn(n)
        pb, ps = _int(prog, g.params[1]['ty'])
        ctx.check('R1', 'driver-param:%s' % n, pb == 32 and ps, g, '%s takes the timeout as int32' % n, '%s takes the timeout as %s' % (n, g.params[1]['ty']))
        for ev in g.events('CALL'):
            if ev.callee in ('epoll_wait', 'poll', 'kevent'):
                targ = ev.args[-1] if ev.callee != 'kevent' else None
                if targ is None:
                    continue
                t = targ
                conv = any(n.get('k') == 'cast' and (_int(prog, n.get('ty'))[0] or 64) < 32 for n in walk(t))
                ok = estr(t) == g.params[1]['n'] and not conv
                ctx.check('R1', 'kernel-arg:%s' % n, ok, ev, '%s receives the timeout parameter unconverted' % ev.callee,
                          '%s receives %s' % (ev.callee, estr(t, True)))


def _type_range(prog, ty):
    b, sg = _int(prog, ty)
    if not b:
        return None
    return ((-(1 << (b - 1)), (1 << (b - 1)) - 1),) if sg else ((0, (1 << b) - 1),)


def _return_conversions(ctx, prog, f, ev, rb, rs):
    """every conversion to a 32-bit (or narrower) integer anywhere in the returned expression - the implicit one at the return as well
    as casts inside a conditional expression - sees an operand that is within [0, INT32_MAX] or is the "no timer" sentinel.
    Ranges: locals by the forward interval analysis, refined by the conditions of enclosing ?: operators."""
    from engine.qb import _iv_norm, _iv_meet, _iv_minus_point
    names = {n['n'] for n in walk(ev.e) if n.get('k') == 'var' and n.get('sc') == 'l'}
    env = {}
    for nm in names:
        ty = next(n.get('ty') for n in walk(ev.e) if n.get('k') == 'var' and n['n'] == nm)
        b, sg = _int(prog, ty)
        if not b:
            continue
        at, _IN = var_ranges(f, nm, b, sg, None)
        iv = at.get((ev.blk, ev.idx))
        if iv is not None:
            env[nm] = (iv, b, sg)
    found = []

    def refine(env, cond, sense):
        out = dict(env)
        for a in atoms_of(cond, sense):
            l = unwrap(a.l)
            if l.get('k') == 'var' and l['n'] in out and a.rc is not None:
                iv, b, sg = out[l['n']]
                lo_t, hi_t = (-(1 << (b - 1)), (1 << (b - 1)) - 1) if sg else (0, (1 << b) - 1)
                c = a.rc
                if not sg and c < 0:
                    c += 1 << b
                iv = {'==': lambda: _iv_meet(iv, c, c), '!=': lambda: _iv_minus_point(iv, c), '<': lambda: _iv_meet(iv, lo_t, c - 1),
                      '<=': lambda: _iv_meet(iv, lo_t, c), '>': lambda: _iv_meet(iv, c + 1, hi_t), '>=': lambda: _iv_meet(iv, c, hi_t)}[a.op]()
                out[l['n']] = (iv, b, sg)
        return out

    def rng(e, env):
        if not isinstance(e, dict):
            return None
        k = e.get('k')
        c = cval(e) if k != 'cast' else None
        if c is not None:
            return ((c, c),)
        if k == 'var':
            return env[e['n']][0] if e['n'] in env else _type_range(prog, e.get('ty'))
        if k == 'cond':
            t = rng(e['t'], refine(env, e['c'], True))
            fl = rng(e['f'], refine(env, e['c'], False))
            if t is None or fl is None:
                return None
            return _iv_norm(list(t) + list(fl))
        if k == 'cast':
            inner = rng(e['e'], env)
            tb, ts = _int(prog, e.get('ty'))
            tr = _type_range(prog, e.get('ty'))
            if tr is None:
                return inner
            ib, isg = _int(prog, (e['e'] or {}).get('ty')) if isinstance(e['e'], dict) else (None, None)
            if tb <= 32 and ib and (ib > tb or (ib == tb and isg != ts)):
                found.append((e, inner if inner is not None else _type_range(prog, e['e'].get('ty')), ib, isg))
            if inner is not None and all(tr[0][0] <= lo and hi <= tr[0][1] for (lo, hi) in inner):
                return inner
            if inner is not None and not ts and all(-(1 << (tb - 1)) <= lo and hi < 0 for (lo, hi) in inner):
                return _iv_norm([(lo + (1 << tb), hi + (1 << tb)) for (lo, hi) in inner])     # e.g. (unsigned long)-1
            return tr
        if k == 'call' and e.get('fn') == '__builtin_expect':
            return rng(e['args'][0], env)
        if k == 'bin' and e.get('op') == ',':
            return rng(e['r'], env)         # the value of (a, b) is b
        if k == 'paren':
            return rng(e['e'], env)
        if k == 'stmtexpr' and 'last' in e:
            return rng(e['last'], env)
        return _type_range(prog, e.get('ty'))

    rng(ev.e, env)
    if not found:
        ctx.ok('R1', 'return-conversion', ev, 'no narrowing conversion in the returned expression %s' % estr(ev.e, True))
        return
    for (node, iv, ib, isg) in found:
        if iv is None:
            ctx.inconclusive('R1', 'return-conversion', ev, 'no range for the operand of %s' % estr(node, True))
            continue
        sentinels = {-1, (1 << ib) - 1}
        bad = [(lo, hi) for (lo, hi) in iv if not (0 <= lo and hi <= I32_MAX) and not (lo == hi and lo in sentinels)]
        ctx.check('R1', 'return-conversion', not bad, ev,
                  'the operand of the conversion %s is within %s: [0, INT32_MAX] or the -1 sentinel' % (estr(node, True), list(iv)),
                  'the conversion %s can see %s: a duration >= 2^31 ms becomes a negative poll timeout (block forever) or wraps' % (
                      estr(node, True), ['[%#x, %#x]' % b for b in bad]), {'ranges': [list(x) for x in iv]})


def r6_entry(ctx):
    """the count that keeps the loop from sleeping is the sum of the levels' todo counts whenever the timeout is chosen - on the first
    pass of a run as well (items expired or polled before a qb_loop_stop are still queued when the loop is run again)"""
    from engine.qb import abstract_run, TOP
    f = ctx.prog.fn('qb_loop_run')
    tests = [ev for ev in f.events('LOAD') if f.blocks[ev.blk].cond is not None and unwrap(ev.e).get('k') == 'var' and
             any(a.ls == unwrap(ev.e)['n'] and a.op == '>' and a.rc == 0 for a in atoms_of(f.blocks[ev.blk].cond, True)) and
             any(st.d['op'] == '+=' and last_field(st.rhs) == ('qb_loop_level', 'todo') for st in f.events('STORE') if estr(st.lhs) == estr(ev.e))]
    if not tests:
        raise AnalysisBroken('qb_loop_run: no test of the summed todo count')
    var = unwrap(tests[0].e)['n']
    idx = {estr(unwrap(n['i'])) for st in f.events('STORE') if estr(st.lhs) == var and st.d['op'] == '+=' for n in walk(st.rhs) if n.get('k') == 'idx'}
    visits, _t = abstract_run(f, {}, tracked={var} | {i for i in idx if i.isidentifier()})
    stale = [(ev, env) for (ev, env) in visits if any(ev.d is t.d for t in tests) and env.get(var, TOP) is not TOP]
    ctx.check('R6', 'todo-sum-is-a-sum-when-the-timeout-is-chosen', not stale, stale[0][0] if stale else tests[0],
              'whenever the timeout is chosen %s has been summed over the levels' % var,
              'the timeout can be chosen with %s = %s, a constant that was never summed over the levels: items queued for dispatch when a previous run was stopped '
              'are still there, and the loop sleeps until the next timer (or for ever) with an expired timer queued' % (var, stale[0][1].get(var) if stale else '?'))


def r2(ctx):
    prog = ctx.prog
    f = prog.fn('qb_loop_run')
    polls = [ev for ev in f.calls('qb_loop_source::poll') if 'fd_source' in estr(ev.e)]
    p = polls[0]
    tv = unwrap(p.args[1])
    if tv.get('k') != 'var':
        raise AnalysisBroken('qb_loop_run: timeout argument is not a local')
    defs, entry = f.reaching_defs(tv['n'], p)
    ctx.check('R2', 'timeout-always-assigned', not entry and bool(defs), p, 'the timeout is assigned on every path to the poll',
              'the poll may be reached with an unassigned timeout')
    for d in defs:
        rhs = d.rhs if d.kind == 'STORE' else d.d.get('init')
        r = unwrap(rhs) if rhs else {}
        c = cval(r)
        if c is not None and c >= 0:
            ctx.ok('R2', 'def:const>=0', d, 'finite constant timeout %d' % c)
        elif callee_of(r) == 'qb_loop_timer_msec_duration_to_expire':
            ok = field_is(r['args'][0], 'timer_source')
            ctx.check('R2', 'def:timer-derived', ok, d, 'timeout derived from the timer source', 'timer duration taken from %s' % estr(r['args'][0]))
        elif c is not None and c < 0:
            def no_timers(a, fb):
                return a.op == '==' and a.rc == 0 and field_is(a.l, 'timer_source')
            path = f.uncut_path(d, no_timers)
            ctx.check('R2', 'def:infinite-only-without-timers', path is None, d,
                      'an infinite timeout is chosen only when there is no timer source',
                      'the loop may block forever (timeout %d) although a timer source exists' % c, {'path': f.path_lines(path) if path else None})
        else:
            ctx.viol('R2', 'def:unknown', d, 'the poll timeout is assigned %s, which is neither a finite constant nor timer-derived' % estr(rhs))


def r3(ctx):
    prog = ctx.prog
    f = prog.fn('timerlist_expire')
    fire = [ev for ev in f.calls('timerlist_timer::timer_fn')]
    if len(fire) != 1:
        raise AnalysisBroken('timerlist_expire: timer_fn call sites = %d' % len(fire))
    fire = fire[0]
    CLOCKS = ('qb_util_nano_current_get', 'qb_util_nano_from_epoch_get')

    def from_clock(x):
        return callee_of(x) in CLOCKS or (x.get('k') == 'cond' and all(True for _ in [0]))

    def expired_atom(a, fb):
        if a.op not in ('<', '<='):
            return False
        if not field_is(a.l, 'expire_time'):
            return False
        srcs, entry = value_sources(f, a.r, f.end_of(fb.id), depth=6)
        leaves = []
        for s in srcs:
            if s.get('k') == 'cond':
                for br in (s['t'], s['f']):
                    s2, e2 = value_sources(f, br, f.end_of(fb.id), depth=6)
                    leaves += s2
                    entry = entry or e2
            else:
                leaves.append(s)
        return bool(leaves) and not entry and all(callee_of(x) in CLOCKS for x in leaves)
    path = f.uncut_path(fire, expired_atom)
    ctx.check('R3', 'fires-only-when-expired', path is None, fire,
              'timer_fn is cut by expire_time < (a clock value read in this call)',
              'a timer callback can run without expire_time having been compared with the current clock',
              {'path': f.path_lines(path) if path else None})
    # the clock is read in this invocation (calls exist and dominate the firing)
    clk = [ev for ev in f.events('CALL') if ev.callee == 'qb_util_nano_current_get']
    ctx.check('R3', 'clock-read-in-call', bool(clk) and all(f.ev_dominates(c, fire) for c in clk), clk[0] if clk else f,
              'the monotonic clock is read before any expiry decision', 'the monotonic clock is not read in timerlist_expire')
    # heap top
    tops = [ev for ev in f.calls('timerlist_heap_entry_get')]
    ctx.check('R3', 'expire-takes-heap-top', bool(tops) and all(cval(unwrap(ev.args[1])) == 0 for ev in tops), tops[0] if tops else f,
              'the earliest timer (heap index 0) is examined', 'timerlist_expire does not examine heap index 0')
    # stops at the first unexpired entry: from the not-expired edge the callback is unreachable
    stop_ok = False
    for b in f.blocks.values():
        if b.cond is None:
            continue
        for (t, lab) in b.succs:
            if lab in (True, False):
                ats = atoms_of(b.cond, lab)
                if any(a.op in ('>=', '>') and field_is(a.l, 'expire_time') for a in ats):
                    hits, _e, _n = f.search(('edge', b.id, t), goal=lambda ev: ev is fire)
                    stop_ok = not hits
    ctx.check('R3', 'stops-at-first-unexpired', stop_ok, f, 'the scan stops at the first unexpired timer',
              'the scan continues past an unexpired heap top')
    ad = prog.fn('timerlist_add_duration')
    durp = ad.params[3]['n']
    sts = list(ad.stores(field='expire_time'))
    from_clock = [st for st in sts if st.rhs is not None and any(n.get('k') == 'call' and callee_of(n) == 'qb_util_nano_current_get' for n in walk(st.rhs))]
    adds = [st for st in sts if (st.d['op'] == '+=' and estr(unwrap(st.rhs)) == durp) or
            (st.d['op'] == '=' and unwrap(st.rhs).get('k') == 'bin' and unwrap(st.rhs)['op'] == '+' and any(n.get('k') == 'var' and n['n'] == durp for n in walk(st.rhs)))]
    ok = bool(from_clock) and bool(adds)
    ctx.check('R3', 'expire_time=now+duration', ok, sts[0] if sts else ad, 'expire_time = monotonic now + duration',
              'expire_time is %s' % (estr(sts[0].rhs) if sts else 'never stored'))

    def no_wrap(a, fb):
        # duration <= MAX - now   (any orientation atoms_of produces)
        return a.ls == durp and a.op in ('<=', '<') and unwrap(a.r).get('k') == 'bin' and unwrap(a.r)['op'] == '-'
    okw = bool(adds) and all(ad.uncut_path(st, no_wrap) is None for st in adds)
    ctx.check('R3', 'duration-addition-cannot-wrap', okw, adds[0] if adds else ad,
              'the duration is added only when now + duration fits 64 bits (otherwise the expiry saturates)',
              'now + duration is computed without a wrap test: a duration larger than what is left of the 64-bit clock (UINT64_MAX as "never") wraps round to a time in the past '
              'and the timer is dispatched in the next iteration')
    md = prog.fn('timerlist_msec_duration_to_expire')
    divs = [n for ev in md.events('STORE') for n in walk(ev.rhs or {}) if n.get('k') == 'bin' and n['op'] == '/' and field_is(unwrap(n['l']).get('l', {}), 'expire_time')]
    ctx.check('R3', 'ns-to-ms-divisor', len(divs) == 1 and cval(unwrap(divs[0]['r'])) == 1000000, md,
              'remaining ns are divided by 10^6 to get the poll timeout in ms',
              'the ns -> ms conversion divides by %s' % [cval(unwrap(d['r'])) for d in divs])
    tops2 = [ev for ev in md.calls('timerlist_heap_entry_get')]
    ctx.check('R3', 'duration-takes-heap-top', bool(tops2) and all(cval(unwrap(ev.args[1])) == 0 for ev in tops2), tops2[0] if tops2 else md,
              'the poll timeout is derived from the earliest timer', 'the poll timeout is not derived from heap index 0')
    # expired head => 0
    zero_ok = False
    for b in md.blocks.values():
        if b.cond is None:
            continue
        for (t, lab) in b.succs:
            if lab in (True, False) and any(a.op in ('<', '<=') and field_is(a.l, 'expire_time') for a in atoms_of(b.cond, lab)):
                rets, _e, _n = md.search(('edge', b.id, t), goal=lambda ev: ev.kind == 'RETURN')
                zero_ok = bool(rets) and all(cval(unwrap(ev.e)) == 0 for (ev, _p) in rets)
    ctx.check('R3', 'expired-head-gives-zero', zero_ok, md, 'an already expired head yields timeout 0', 'an expired head does not yield 0 (unsigned subtraction would wrap)')
    # the slack added is a small constant
    rets = [ev for ev in md.returns() if ev.e is not None and cval(unwrap(ev.e)) is None]
    slack_ok = False
    for ev in rets:
        srcs, _en = value_sources(md, ev.e, ev)
        for s in srcs:
            if s.get('k') == 'bin' and s['op'] == '+':
                sl = unwrap(s['r'])
                if cval(sl) is not None and 0 <= cval(sl) <= 50:
                    slack_ok = True
                # one clock tick: 1000 ms / ticks-per-second
                if sl.get('k') == 'bin' and sl['op'] == '/' and cval(unwrap(sl['l'])) is not None and 0 <= cval(unwrap(sl['l'])) <= 1000 and \
                        unwrap(sl['r']).get('k') == 'var' and unwrap(sl['r']).get('sc') == 'g':
                    slack_ok = True
    ctx.check('R3', 'slack-small', slack_ok, md, 'the added slack is a small constant or one clock tick (1000/hz ms)', 'the slack added to the timeout is not a small constant / one clock tick')


def r4(ctx):
    prog = ctx.prog
    ACTIVE = prog.econst('QB_POLL_ENTRY_ACTIVE')
    for name in ('qb_loop_timer_expire_time_get', 'qb_loop_timer_expire_time_remaining'):
        f = prog.fn(name)
        nz = [ev for ev in f.returns() if ev.e is not None and cval(unwrap(ev.e)) != 0]
        if not nz:
            raise AnalysisBroken('%s: no non-zero return' % name)

        def handle_ok(a, fb):
            if not (a.op == '==' and a.rc == 0 and unwrap(a.l).get('k') == 'var'):
                return False
            defs, entry = f.reaching_defs(unwrap(a.l)['n'], f.end_of(fb.id))
            return bool(defs) and not entry and all(d.kind == 'STORE' and callee_of(unwrap(d.rhs)) == '_timer_from_handle_' for d in defs)

        def active(a, fb):
            return a.op == '==' and a.rc == ACTIVE and field_is(a.l, 'state', 'qb_loop_timer')
        for ev in nz:
            p1 = f.uncut_path(ev, handle_ok)
            ctx.check('R4', '%s:needs-valid-handle' % name, p1 is None, ev, 'non-zero result needs _timer_from_handle_() == 0',
                      'a non-zero result is returned for a stale/invalid handle')
            p2 = f.uncut_path(ev, active)
            ctx.check('R4', '%s:needs-ACTIVE' % name, p2 is None, ev, 'non-zero result needs state == ACTIVE',
                      'a non-zero result is returned for a timer that is not pending')
    # times are unsigned 64-bit all the way: a difference kept in a signed variable turns every pending duration of 2^63 ns or more
    # (UINT64_MAX is "never") into "expired", i.e. 0 for a timer that is pending
    TIME_SRC = ('timerlist_expire_time', 'qb_util_nano_current_get', 'qb_util_nano_from_epoch_get')
    for name in ('qb_loop_timer_expire_time_get', 'qb_loop_timer_expire_time_remaining'):
        f = prog.fn(name)
        rb_, rs_ = _int(prog, f.ret)
        ctx.check('R4', '%s:result-is-unsigned-64' % name, rb_ == 64 and rs_ is False, f, 'the result is uint64', 'the result type is %s' % f.ret)
        tainted, bad = set(), []
        for _round in range(4):
            for ev in f.events():
                rhs = ev.rhs if ev.kind == 'STORE' else (ev.d.get('init') if ev.kind == 'DECL' else None)
                if rhs is None or not isinstance(rhs, dict):
                    continue
                is_time = any((n.get('k') == 'call' and callee_of(n) in TIME_SRC) or (n.get('k') == 'var' and n['n'] in tainted) for n in walk(rhs))
                if not is_time:
                    continue
                if ev.kind == 'DECL':
                    nm, ty = ev.d['var'], ev.d.get('ty')
                else:
                    lu = unwrap(ev.lhs)
                    if lu.get('k') != 'var':
                        continue
                    nm, ty = lu['n'], lu.get('ty')
                b_, s_ = _int(prog, ty)
                if nm not in tainted:
                    tainted.add(nm)
                    if not (b_ == 64 and s_ is False):
                        bad.append((ev, nm, ty))
        for ev in f.returns():
            if ev.e is not None:
                for n in walk(ev.e):
                    if n.get('k') == 'cast' and n is not ev.e:
                        b_, s_ = _int(prog, n.get('ty'))
                        if b_ and (b_ < 64 or s_) and any(m.get('k') == 'var' and m['n'] in tainted for m in walk(n['e'])):
                            bad.append((ev, estr(n, True), n.get('ty')))
        if name.endswith('remaining') and not tainted:
            raise AnalysisBroken('%s: no time value found' % name)
        ctx.check('R4', '%s:times-stay-unsigned-64' % name, not bad, bad[0][0] if bad else f,
                  'every time value and difference in %s is held in an unsigned 64-bit variable' % name,
                  '%s holds a time or a time difference in %s: a pending timer whose remaining time is 2^63 ns or more (or that was added with UINT64_MAX) '
                  'reads as expired - 0 although qb_loop_timer_is_running says it is pending' % (name, ', '.join('%s (%s)' % (nm, ty) for (_e, nm, ty) in bad)))
    ir = prog.fn('qb_loop_timer_is_running')
    rets = ir.returns()
    # expire_time_get() > 0 in either orientation; != 0 is the same thing for the unsigned result
    ok = len(rets) == 1 and any(o in ('>', '!=') and callee_of(unwrap(l)) == 'qb_loop_timer_expire_time_get' and cval(unwrap(r)) == 0
                                for (l, o, r) in cmp_forms(rets[0].e))
    ctx.check('R4', 'is_running', ok, ir, 'is_running == (expire_time_get > 0)', 'is_running is no longer expire_time_get() > 0')
    th = prog.fn('_timer_from_handle_')
    outs = [ev for ev in th.events('STORE') if unwrap(ev.lhs).get('k') == 'deref' and estr(unwrap(ev.lhs)['e']) == th.params[2]['n']]

    def chk(a, fb):
        return a.op == '==' and field_is(a.l, 'check', 'qb_loop_timer') or a.op == '==' and field_is(a.r, 'check', 'qb_loop_timer')
    ok = bool(outs) and all(th.uncut_path(ev, chk) is None for ev in outs)
    ctx.check('R4', 'handle-check-compared', ok, outs[0] if outs else th, 'the timer is handed out only after timer->check == handle check',
              '_timer_from_handle_ hands out a slot without comparing the check')


def r5(ctx):
    prog = ctx.prog
    for (nm, want) in (('timerlist_heap_index_left', '((2 * index) + 1)'), ('timerlist_heap_index_right', '((2 * index) + 2)'),
                       ('timerlist_heap_index_parent', '((index - 1) / 2)')):
        f = prog.fn(nm)
        rets = f.returns()
        got = estr(rets[0].e).replace(f.params[0]['n'], 'index') if rets else None
        ctx.check('R5', 'index:%s' % nm, len(rets) == 1 and got == want, f, '%s = %s' % (nm, want), '%s computes %s' % (nm, got))
    c = prog.fn('timerlist_entry_cmp')
    t1, t2 = c.params[0]['n'], c.params[1]['n']
    ok = True
    seen = set()
    for r in c.returns():
        v = cval(unwrap(r.e))
        g = {(a.ls, a.op, a.rs) for (a, _e) in c.guards(r)}
        e1, e2 = '%s->expire_time' % t1, '%s->expire_time' % t2
        if v == 0:
            ok = ok and (e1, '==', e2) in g
        elif v is not None and v < 0:
            ok = ok and (e1, '<', e2) in g
        elif v is not None and v > 0:
            ok = ok and (e1, '>=', e2) in g and (e1, '!=', e2) in g
        else:
            ok = False
        seen.add(0 if v == 0 else (-1 if (v or 0) < 0 else 1))
    ty = prog.record('timerlist_timer')
    ety = [fl['ty'] for fl in ty['fields'] if fl['n'] == 'expire_time'][0]
    ctx.check('R5', 'entry-cmp-orders-by-expire_time', ok and seen == {-1, 0, 1} and prog.type_info(ety).get('signed') is False, c,
              'timerlist_entry_cmp is the unsigned order of expire_time', 'timerlist_entry_cmp is not the plain unsigned order of expire_time')
    d = prog.fn('timerlist_heap_delete')
    ups = list(d.calls('timerlist_heap_sift_up'))
    downs = list(d.calls('timerlist_heap_sift_down'))
    cmpst = [st for st in d.events('STORE') if st.rhs is not None and callee_of(unwrap(st.rhs)) == 'timerlist_entry_cmp']
    ok_cmp = len(cmpst) == 1
    cv_ = estr(cmpst[0].lhs) if cmpst else None
    if ok_cmp:
        a0, a1 = unwrap(cmpst[0].rhs)['args']
        # compares the moved (last) entry with the removed one
        ok_cmp = estr(a1) == d.params[1]['n'] and derives(d, a0, cmpst[0], lambda x: callee_of(x) == 'timerlist_heap_entry_get')
    ctx.check('R5', 'delete:compares-moved-with-removed', ok_cmp, cmpst[0] if cmpst else d, 'the moved entry is compared with the removed entry',
              'heap delete does not compare the moved entry with the removed one')
    ctx.check('R5', 'delete:sifts-up-when-smaller', len(ups) == 1 and d.uncut_path(ups[0], lambda a, fb: a.ls == cv_ and a.op == '<' and a.rc == 0) is None, ups[0] if ups else d,
              'a moved entry that is smaller than the removed one is sifted up',
              'heap delete never sifts the moved entry up: after deleting a pending timer the heap top need not be the earliest expiry (late wake-up, out-of-order dispatch)')
    ctx.check('R5', 'delete:sifts-down-when-larger', len(downs) == 1 and d.uncut_path(downs[0], lambda a, fb: a.ls == cv_ and a.op == '>' and a.rc == 0) is None, downs[0] if downs else d,
              'a moved entry that is larger than the removed one is sifted down', 'heap delete never sifts the moved entry down')
    # the repair is not skipped: every path from entry to a return passes the comparison, except through an edge that says the
    # removed entry was the last one itself (moved entry == removed entry, or its position == the new size) - nothing was moved then
    if cmpst:
        posv = [estr(st.lhs) for st in d.events('STORE') if st.rhs is not None and last_field(unwrap(st.rhs)) == ('timerlist_timer', 'heap_pos')]
        posv += [ev.d['var'] for ev in d.events('DECL') if ev.d.get('init') is not None and last_field(unwrap(ev.d['init'])) == ('timerlist_timer', 'heap_pos')]
        entp = d.params[1]['n']

        def was_last(fb, t, lab):
            if fb.cond is None or lab not in (True, False):
                return True
            for a in atoms_of(fb.cond, lab):
                # position == size / position >= size (exactly the size field, no offset), or moved == removed
                if a.ls in posv and a.op in ('==', '>=') and last_field(unwrap(a.r)) == ('timerlist', 'size') and unwrap(a.r).get('k') == 'mem':
                    return False
                if a.op == '==' and entp in (a.ls, a.rs) and unwrap(a.l).get('k') == 'var' and unwrap(a.r).get('k') == 'var':
                    return False
            return True
        _h, exits, _n = d.search(('entry',), stop=lambda ev: ev.d is cmpst[0].d, edge_filter=was_last)
        ctx.check('R5', 'delete:repair-never-skipped', not exits, cmpst[0],
                  'every heap delete compares the moved entry with the removed one (unless the removed entry was the last one itself)',
                  'a path through timerlist_heap_delete returns without repairing the heap although an entry was moved into the hole: the heap top need not be the '
                  'earliest expiry any more (late wake-up, out-of-order dispatch)')
    # both branches are reachable from the comparison (the repair really is two-sided)
    for (nm, evs) in (('up', ups), ('down', downs)):
        if evs and cmpst:
            hits, _e, _n = d.search(('after', cmpst[0]), goal=lambda x, evs=evs: x is evs[0])
            ctx.check('R5', 'delete:sift-%s-reachable' % nm, bool(hits), evs[0], 'sift %s is reachable after the comparison' % nm, 'sift %s is dead code' % nm)
    a = prog.fn('timerlist_add')
    su = list(a.calls('timerlist_heap_sift_up'))
    sets = list(a.calls('timerlist_heap_entry_set'))
    ctx.check('R5', 'add:append-then-sift-up', len(su) == 1 and bool(sets) and all(a.ev_dominates(s_, su[0]) for s_ in sets) and
              estr(su[0].args[1]) == estr(sets[-1].args[1]), su[0] if su else a, 'a new timer is appended and sifted up', 'timerlist_add does not sift the new entry up')
    def last_of_comma(e):
        e = unwrap(e)
        while isinstance(e, dict) and e.get('k') == 'bin' and e['op'] == ',':
            e = unwrap(e['r'])
        return e
    u = prog.fn('timerlist_heap_sift_up')
    conds = [b for b in u.blocks.values() if b.cond is not None and has_call(b.cond, 'timerlist_entry_cmp')]
    ok = len(conds) == 1 and last_of_comma(conds[0].cond).get('k') == 'bin' and last_of_comma(conds[0].cond)['op'] == '>' and cval(unwrap(last_of_comma(conds[0].cond)['r'])) == 0
    if ok:
        cc = unwrap(last_of_comma(conds[0].cond)['l'])
        ok = 'parent' in estr(cc['args'][0])
    ctx.check('R5', 'sift-up:while-parent-larger', ok, u, 'sift up swaps while the parent is larger', 'sift up swaps on another condition')
    dn = prog.fn('timerlist_heap_sift_down')
    conds = [b for b in dn.blocks.values() if b.cond is not None and has_call(b.cond, 'timerlist_entry_cmp')]
    ok = len(conds) == 2 and all(last_of_comma(b.cond).get('k') == 'bin' and last_of_comma(b.cond)['op'] == '<' and cval(unwrap(last_of_comma(b.cond)['r'])) == 0 for b in conds)
    ctx.check('R5', 'sift-down:picks-smaller-child', ok, dn, 'sift down moves towards the smaller child (both children examined)', 'sift down does not examine both children for the smaller one')


def r7(ctx):
    prog = ctx.prog
    f = prog.fn('_poll_and_add_to_jobs_')
    waits = list(f.calls('epoll_wait'))
    if len(waits) != 1:
        raise AnalysisBroken('_poll_and_add_to_jobs_: epoll_wait calls = %d' % len(waits))
    w = waits[0]
    tv = estr(unwrap(w.args[3]))
    eintr = []
    for b in f.blocks.values():
        if b.cond is None:
            continue
        for (t, lab) in b.succs:
            if lab in (True, False) and any(a.op == '==' and (macro_named(a.r, 'EINTR') or a.rc == 4) and 'errno' in a.ls for a in atoms_of(b.cond, lab)):
                eintr.append((b, t))
    if not eintr:
        ctx.ok('R7', 'interrupted-wait-not-resumed-with-old-timeout', w, 'the driver has no EINTR special case: an interrupted wait returns to the loop')
        return
    bad = False
    for (b, t) in eintr:
        hits, _e, _n = f.search(('edge', b.id, t), goal=lambda ev: ev.d is w.d, stop=lambda ev: ev.kind == 'STORE' and estr(ev.lhs) == tv)
        bad = bad or bool(hits)
    ctx.check('R7', 'interrupted-wait-not-resumed-with-old-timeout', not bad, w,
              'after EINTR the wait is not entered again with the old timeout',
              'after EINTR the driver waits again with the timeout computed before the first wait: the timers are put off by the time already slept, '
              'and a signal that keeps arriving postpones them for ever')
