"""C01 - ring buffer, one writer + one reader: publication protocol.

Structural clauses decided (DESIGN.md 3/C01):
 R1 publish last            R2 validate before trust   R3 consume order
 R4 single writer per index R5 refused write has no effect
 R6 notifier pairing        R7 memory-order wrapper means what R1/R2 assume
"""
from engine.qb import (AnalysisBroken, estr, unwrap, cval, walk, last_field, fields_of,
                       callee_of, root_var, mentions_var, atoms_of)
from rules.common import (shared_store, is_marker_set, is_marker_get, model_name, RELEASE_OK, ACQUIRE_OK,
                          is_shared_data_idx, ret_value, slot_call, field_is)

UNITS = ['lib/ringbuffer.c', 'lib/unix.c']
DECIDES = ('Decides the publication/consumption protocol order in qb_rb_chunk_commit/_rb_chunk_reclaim/peek/read/alloc, '
           'the single-writer rule for read_pt/write_pt and the memory orders; does not decide FIFO/exactly-once over interleavings.')
RULES = {
    'R1': 'commit: length store and write_pt store precede the release-store of CHUNK_MAGIC; post_fn after; no shared store after',
    'R2': 'peek/read/reclaim: acquire-load of the marker and the == CHUNK_MAGIC edge dominate every length load, payload use, reclaim and shared store',
    'R3': 'reclaim: step (reads length) before length clear; length clear and MAGIC_DEAD release-store before read_pt store',
    'R4': 'write_pt / read_pt stored only by their owner functions; _rb_chunk_reclaim called only from its three callers, in alloc only under OVERWRITE',
    'R5': 'alloc: non-overwrite too-small edge returns NULL (errno=EAGAIN) with no shared store; chunk_write: NULL test dominates memcpy which precedes commit',
    'R6': 'peek/read: timedwait_fn (when installed) before the marker load; token reposted on the marker-not-published edge',
    'R7': 'qb_atomic_int_set_ex/get_ex are __atomic_store_n/__atomic_load_n with qb_model_map(model); qb_model_map maps every member to the same-named __ATOMIC_*',
    'R8': 'the write index never catches up with the read index while chunks are unread (equal indices are read as "empty"): the free-space computation keeps one spare word in both unequal-index cases and the allocation margin covers the chunk header plus the alignment word, the same margin at open and at alloc (= C07.R1, C07.R6)',
    'R9': 'an unread chunk is not damaged by the commit of another (or by its own): the two words commit overwrites behind a chunk are the free words the margin keeps, and where the second one is the committed chunk\'s own length word (a chunk that fills the ring) it is left alone - the index stored at is the index compared (= C07.R7)',
    'R10': 'attaching to a ring writes nothing into it: the function that maps the data area (twice, back to back) stores nothing through the addresses it has mapped - a second handle may be opened while chunks are in flight, and a store into the area, even one that puts the old value back, races with the writer and the reader',
}
FLOORS = {'R1': 5, 'R2': 9, 'R3': 4, 'R4': 5, 'R5': 5, 'R6': 5, 'R7': 8, 'R8': 8, 'R9': 4, 'R10': 1}

MAGIC = 0xA1A1A1A1


def _magic_consts(prog):
    """the published-chunk marker as the code uses it: the constant the reader compares the marker word with before it takes a
    chunk, which must also be a value qb_rb_chunk_commit stores - read from the facts"""
    rd = prog.fn('qb_rb_chunk_read')
    cands = set()
    for b in rd.blocks.values():
        if b.cond is None:
            continue
        for lab in (True, False):
            for a in atoms_of(b.cond, lab):
                if a.op in ('==', '!=') and a.rc is not None and a.rc not in (0,):
                    v = unwrap(a.l)
                    if is_marker_get(v):
                        cands.add(a.rc & 0xFFFFFFFF)
                    elif v.get('k') == 'var':
                        for st in list(rd.events('STORE')) + list(rd.events('DECL')):
                            rhs = st.rhs if st.kind == 'STORE' else st.d.get('init')
                            nm = estr(st.lhs) if st.kind == 'STORE' else st.d['var']
                            if nm == v['n'] and rhs is not None and is_marker_get(unwrap(rhs)):
                                cands.add(a.rc & 0xFFFFFFFF)
    commit = prog.fn('qb_rb_chunk_commit')
    vals = {(is_marker_set(ev)['value'] or 0) & 0xFFFFFFFF for ev in commit.events('CALL') if is_marker_set(ev) and is_marker_set(ev)['value'] is not None}
    both = cands & vals
    if len(both) != 1:
        raise AnalysisBroken('published-chunk marker not identified: qb_rb_chunk_read compares the marker with %s, qb_rb_chunk_commit stores %s' % (
            sorted(hex(c) for c in cands), sorted(hex(v) for v in vals)))
    return both.pop()


def run(ctx):
    prog = ctx.prog
    magic = _magic_consts(prog)
    r1(ctx, magic)
    r2(ctx, magic)
    r3(ctx, magic)
    r4(ctx)
    r5(ctx, magic)
    r6(ctx, magic)
    r7(ctx)
    r8(ctx)
    # R9 = C07.R7: what commit writes behind a chunk never lands on a published, unread length word - not on the next chunk's
    # (margin) and not on its own (a chunk that fills the ring)
    from rules import c07
    sub = type(ctx)(prog, ctx.prop, ctx.tier, ctx.depth)
    c07.r7(sub)
    for r in sub.results:
        r['rule'] = 'R9'
        ctx.results.append(r)
    r10(ctx)


# -- R1 ---------------------------------------------------------------------
def r1(ctx, magic):
    f = ctx.inl(ctx.prog.fn('qb_rb_chunk_commit'))
    pubs = [ev for ev in f.events('CALL') if is_marker_set(ev) and (is_marker_set(ev)['value'] or 0) & 0xFFFFFFFF == magic]
    if len(pubs) != 1:
        raise AnalysisBroken('qb_rb_chunk_commit: %d publishing marker stores' % len(pubs))
    pub = pubs[0]
    m = is_marker_set(pub)
    ctx.check('R1', 'marker-model', m['model'] in RELEASE_OK, pub,
              'marker published with %s' % m['model'],
              'marker published with memory order %s (needs release or stronger)' % m['model'])
    # marker index is (wp + 1) % word_size
    ix = m['index']
    okix = any(n.get('k') == 'bin' and n['op'] == '%' and ('qb_ringbuffer_shared_s', 'word_size') in fields_of(n['r'])
               for n in walk(ix))
    ctx.check('R1', 'marker-index-mod', okix, pub, 'marker index reduced modulo word_size: %s' % estr(ix),
              'marker index %s is not reduced modulo word_size' % estr(ix))
    lens = [ev for ev in f.events('STORE') if is_shared_data_idx(ev.lhs) and not ev.inl]
    wps = [ev for ev in f.stores(field='write_pt')]
    if not lens or not wps:
        raise AnalysisBroken('qb_rb_chunk_commit: length store or write_pt store not found')
    for ev in lens:
        ctx.check('R1', 'len-before-marker', f.ev_dominates(ev, pub) and not f.may_follow(pub, ev), ev,
                  'length store precedes the marker publication on every path',
                  'length store %r is not ordered before the marker publication' % ev)
    # once the chunk is published the reader may consume it and scrub its header: the writer must not read the ring any more
    # (in particular the new write position, which is computed from the chunk's length word, is computed before) ...
    late_reads = [ev for ev in f.events() if f.may_follow(pub, ev) and
                  ((ev.kind == 'LOAD' and is_shared_data_idx(ev.e)) or (ev.kind == 'CALL' and ev.callee in ('qb_rb_chunk_step',)) or
                   (ev.kind == 'CALL' and is_marker_get(ev.e)))]
    for ev in wps:
        ctx.check('R1', 'new-position-computed-before-publication', not late_reads, late_reads[0] if late_reads else ev,
                  'the value stored into write_pt is computed (chunk length read) before the marker publication',
                  'the ring is read after the marker publication (%r): the reader may already have consumed the chunk and cleared its length word, '
                  'the new write position is then computed from garbage' % (late_reads[0] if late_reads else None))
    # ... and must not write ring words any more either (the index store itself may be on either side of the publication:
    # the reader never looks at write_pt)
    after = [ev for ev in f.events() if shared_store(ev) and ev is not pub and f.may_follow(pub, ev) and not
             (ev.kind == 'STORE' and last_field(ev.lhs) == ('qb_ringbuffer_shared_s', 'write_pt'))]
    ctx.check('R1', 'no-ring-store-after-publication', not after, after[0] if after else pub,
              'no store to the ring words after the publication',
              'ring words are stored after the marker publication (%r): the reader may already be looking at them (a scrub of the next header that comes too late '
              'lets stale payload pass for a chunk)' % (after[0] if after else None))
    posts = [ev for ev in f.events('CALL') if ev.callee == 'qb_rb_notifier::post_fn']
    if not posts:
        raise AnalysisBroken('qb_rb_chunk_commit: no post_fn call')
    for ev in posts:
        ctx.check('R1', 'post-after-marker', f.ev_dominates(pub, ev), ev,
                  'post_fn is called after the publication',
                  'post_fn is called on a path that has not published the marker')


# -- R2 ---------------------------------------------------------------------
def _marker_guard(f, ev, magic):
    """is event dominated by the edge `marker == MAGIC` where the marker value
    comes from an acquire load of the marker word?"""
    for (a, edge) in f.guards_live(ev):
        if a.op != '==':
            continue
        for (val, other) in ((a.l, a.r), (a.r, a.l)):
            c = cval(unwrap(other))
            if c is None or c & 0xFFFFFFFF != magic:
                continue
            v = unwrap(val)
            # directly the load, or a local assigned from it
            loads = []
            if v.get('k') == 'call':
                loads = [v]
            elif v.get('k') == 'var':
                gb = f.blocks[edge[0]]
                gev = gb.events[-1] if gb.events else None
                if gev is None:
                    continue
                defs, entry = f.reaching_defs(v['n'], gev)
                if entry or not defs:
                    continue
                ok = True
                for d in defs:
                    rhs = d.rhs if d.kind == 'STORE' else d.d.get('init')
                    r = unwrap(rhs) if rhs else None
                    if not r or r.get('k') != 'call':
                        ok = False
                        break
                    loads.append(r)
                if not ok:
                    continue
            good = True
            for ld in loads:
                info = is_marker_get(ld)
                if not info or info['model'] not in ACQUIRE_OK:
                    good = False
            if loads and good:
                return True, loads
    return False, []


def r2(ctx, magic):
    prog = ctx.prog
    for name in ('qb_rb_chunk_peek', 'qb_rb_chunk_read', '_rb_chunk_reclaim'):
        f = prog.fn(name)
        # marker loads must be acquire
        gets = [ev for ev in f.events('CALL') if is_marker_get(ev.e)]
        if not gets:
            raise AnalysisBroken('%s: no marker load' % name)
        for ev in gets:
            info = is_marker_get(ev.e)
            ctx.check('R2', '%s:marker-load-model' % name, info['model'] in ACQUIRE_OK, ev,
                      'marker loaded with %s' % info['model'],
                      'marker loaded with memory order %s (needs acquire or stronger)' % info['model'])
        # sensitive events
        sens = []
        for ev in f.events():
            if ev.kind == 'LOAD' and is_shared_data_idx(ev.e):
                sens.append(('length-load', ev))
            elif ev.kind == 'CALL' and ev.callee == '_rb_chunk_reclaim':
                sens.append(('reclaim', ev))
            elif ev.kind == 'CALL' and ev.callee == 'qb_rb_chunk_step':
                sens.append(('step(reads length)', ev))
            elif ev.kind == 'CALL' and ev.callee == 'memcpy' and any(
                    ('qb_ringbuffer_s', 'shared_data') in fields_of(a) for a in ev.args):
                sens.append(('payload-copy', ev))
            elif ev.kind == 'STORE' and unwrap(ev.lhs).get('k') == 'deref' and ev.rhs is not None and \
                    ('qb_ringbuffer_s', 'shared_data') in fields_of(ev.rhs):
                sens.append(('payload-pointer-out', ev))
            elif shared_store(ev):
                sens.append(('shared-store', ev))
        if not sens:
            raise AnalysisBroken('%s: no marker-dependent events found' % name)
        for (what, ev) in sens:
            ok, _ = _marker_guard(f, ev, magic)
            ctx.check('R2', '%s:%s' % (name, what), ok, ev,
                      '%s is dominated by the acquire-loaded marker == CHUNK_MAGIC edge' % what,
                      '%s %r is reachable without the marker having been checked against CHUNK_MAGIC' % (what, ev))


# -- R3 ---------------------------------------------------------------------
def r3(ctx, magic):
    f = ctx.prog.fn('_rb_chunk_reclaim')
    steps = list(f.calls('qb_rb_chunk_step'))
    clears = [ev for ev in f.events('STORE') if is_shared_data_idx(ev.lhs)]
    deads = [ev for ev in f.events('CALL') if is_marker_set(ev)]
    rps = list(f.stores(field='read_pt'))
    if len(steps) != 1 or not clears or not deads or not rps:
        raise AnalysisBroken('_rb_chunk_reclaim: step=%d clear=%d marker=%d read_pt=%d' % (len(steps), len(clears), len(deads), len(rps)))
    step = steps[0]
    for dead in deads:
        d = is_marker_set(dead)
        ctx.check('R3', 'dead-marker', d['value'] is not None and d['value'] & 0xFFFFFFFF != magic and d['model'] in RELEASE_OK, dead,
                  'consumed marker is a different constant, stored with %s' % d['model'],
                  'consumed chunk marker store is %s / %s' % (d['value'], d['model']))
    for c in clears:
        ctx.check('R3', 'step-before-clear', f.ev_dominates(step, c), c,
                  'the length is read (qb_rb_chunk_step) before it is cleared',
                  'length cleared before qb_rb_chunk_step read it')
    for rp in rps:
        for c in clears:
            ctx.check('R3', 'clear-before-read_pt', f.ev_dominates(c, rp) and not f.may_follow(rp, c), rp,
                      'length clear precedes the read_pt store',
                      'length clear is not ordered before the read_pt store')
        for dead in deads:
            ctx.check('R3', 'dead-before-read_pt', f.ev_dominates(dead, rp) and not f.may_follow(rp, dead), rp,
                      'marker invalidation precedes the read_pt store',
                      'read_pt is advanced before the chunk header is invalidated (a fast writer\'s new chunk can be hit by the late clear)')


# -- R4 ---------------------------------------------------------------------
WRITERS = {
    'write_pt': {'qb_rb_open_2', 'qb_rb_chunk_commit', 'qb_rb_create_from_file'},
    'read_pt': {'qb_rb_open_2', '_rb_chunk_reclaim', 'qb_rb_create_from_file'},
}
RECLAIM_CALLERS = {'qb_rb_chunk_reclaim', 'qb_rb_chunk_read', 'qb_rb_chunk_alloc'}


def r4(ctx):
    prog = ctx.prog
    for fld, owners in WRITERS.items():
        ws = prog.writers(fld, 'qb_ringbuffer_shared_s')
        if not ws:
            raise AnalysisBroken('no writer of %s found' % fld)
        for (f, ev) in ws:
            ctx.check('R4', 'writer:%s:%s' % (fld, f.name), f.name in owners, ev,
                      '%s stored by its owner %s' % (fld, f.name),
                      '%s is stored in %s, which is not one of its owners %s' % (fld, f.name, sorted(owners)))
    calls = prog.callers_of('_rb_chunk_reclaim')
    if not calls:
        raise AnalysisBroken('_rb_chunk_reclaim has no callers')
    for (f, ev) in calls:
        ctx.check('R4', 'reclaim-caller:%s' % f.name, f.name in RECLAIM_CALLERS, ev,
                  '_rb_chunk_reclaim called from %s' % f.name,
                  '_rb_chunk_reclaim (the only read_pt mover) is called from %s' % f.name)
        if f.name == 'qb_rb_chunk_alloc':
            g = [a for (a, _e) in f.guards(ev)]
            ok = any(a.op == '!=' and a.rc == 0 and any(n.get('k') == 'bin' and n['op'] == '&' and
                                                          field_is(n['l'], 'flags') and
                                                          n['r'].get('mn') == 'QB_RB_FLAG_OVERWRITE'
                                                          for n in walk(a.l)) for a in g)
            ctx.check('R4', 'alloc-reclaim-under-overwrite', ok, ev,
                      'the writer-side reclaim is control dependent on flags & QB_RB_FLAG_OVERWRITE',
                      'qb_rb_chunk_alloc reclaims without the OVERWRITE flag being tested: a second read_pt writer in normal mode')
    refs = [(f, ev) for (f, ev) in prog.fn_refs('_rb_chunk_reclaim')]
    ctx.check('R4', 'reclaim-address-not-taken', not refs, refs[0][1] if refs else None,
              '_rb_chunk_reclaim is never stored or passed as a pointer',
              '_rb_chunk_reclaim escapes as a function pointer')


# -- R5 ---------------------------------------------------------------------
def r5(ctx, magic):
    prog = ctx.prog
    f = prog.fn('qb_rb_chunk_alloc')
    # the comparison space_free < len + K on the non-overwrite path
    cmp_blocks = []
    for b in f.blocks.values():
        c = unwrap(b.cond) if b.cond else None
        if c and c.get('k') == 'bin' and c['op'] in ('<', '<=', '>', '>=') and \
                any(callee_of(n) == 'qb_rb_space_free' for n in walk(c) if n.get('k') == 'call') and \
                mentions_var(c, f.params[1]['n']):
            cmp_blocks.append(b)
    if not cmp_blocks:
        raise AnalysisBroken('qb_rb_chunk_alloc: no free-space comparison found')
    shared = [ev for ev in f.events() if shared_store(ev)]
    if not shared:
        raise AnalysisBroken('qb_rb_chunk_alloc: no header stores')
    # a refusal (NULL result) changes nothing: no shared store can precede a NULL return, whatever the control structure
    nulls = [r for r in f.returns() if r.e is not None and cval(unwrap(r.e)) == 0]
    if not nulls:
        raise AnalysisBroken('qb_rb_chunk_alloc: no NULL return')
    dirty = [(s_, r) for s_ in shared for r in nulls if f.may_follow(s_, r)]
    ctx.check('R5', 'refusal-stores-nothing', not dirty, dirty[0][0] if dirty else nulls[0],
              'no store to the ring precedes a NULL return of qb_rb_chunk_alloc',
              'qb_rb_chunk_alloc can return NULL after it has already stored to the ring (%r): a refused write changes the ring' % (dirty[0][0] if dirty else None))
    nonloop = [b for b in cmp_blocks if b.term == 'IfStmt']
    b = nonloop[0] if len(nonloop) == 1 else None
    c = unwrap(b.cond) if b is not None else None
    # which sense means "too small"?  space_free on the left with '<' => True
    left_is_free = b is not None and any(callee_of(n) == 'qb_rb_space_free' for n in walk(c['l']) if n.get('k') == 'call')
    small_sense = b is not None and (c['op'] in ('<', '<=')) == left_is_free
    if b is None:
        # no separate non-overwrite test: the refusal must still exist somewhere - a NULL return with errno = EAGAIN
        eag = [st for st in f.events('STORE') if 'errno' in estr(st.lhs) and cval(unwrap(st.rhs)) == 11]
        ctx.check('R5', 'refused-errno-eagain', bool(eag) and any(f.may_follow(st, r) for st in eag for r in nulls), eag[0] if eag else f,
                  'a refusal sets errno = EAGAIN and returns NULL', 'no refusal path sets errno to EAGAIN')
    for (t, lab) in (b.succs if b is not None else []):
        if lab is small_sense:
            hits, exits, _n = f.search(('edge', b.id, t), goal=lambda ev: shared_store(ev))
            ctx.check('R5', 'refused-no-shared-store', not hits, hits[0][0] if hits else 'lib/ringbuffer.c (qb_rb_chunk_alloc)',
                      'the too-small edge reaches no shared store',
                      'a refused allocation still stores to shared memory: %r' % (hits[0][0] if hits else None))
            rets, _e, _n2 = f.search(('edge', b.id, t), goal=lambda ev: ev.kind == 'RETURN')
            allnull = rets and all(cval(unwrap(ev.e)) == 0 for (ev, _p) in rets)
            ctx.check('R5', 'refused-returns-null', bool(allnull), rets[0][0] if rets else f,
                      'the too-small edge returns NULL', 'the too-small edge does not return NULL')
            errs, _e, _n3 = f.search(('edge', b.id, t), goal=lambda ev: ev.kind == 'STORE' and 'errno' in estr(ev.lhs) and
                                     cval(unwrap(ev.rhs)) == 11)
            ctx.check('R5', 'refused-errno-eagain', bool(errs), rets[0][0] if rets else f,
                      'errno = EAGAIN on the refusal edge', 'refusal edge does not set errno to EAGAIN')
    # every path from entry to a header store crosses a "space is sufficient" edge
    def small_sense_of(cb):
        cc = unwrap(cb.cond)
        lf = any(callee_of(n) == 'qb_rb_space_free' for n in walk(cc['l']) if n.get('k') == 'call')
        return (cc['op'] in ('<', '<=')) == lf
    okedges = {(cb.id, not small_sense_of(cb)) for cb in cmp_blocks}
    for ev in shared:
        hits, _e, _n = f.search(('entry',), goal=lambda x: x is ev,
                                edge_filter=lambda fb, t, lab: (fb.id, lab) not in okedges)
        ctx.check('R5', 'header-store-after-space-test', not hits, ev,
                  'every path to the header store crosses a passed free-space test',
                  'header store %r is reachable without the free-space test having passed' % ev,
                  {'path': f.path_lines(hits[0][1]) if hits else None})
    w = prog.fn('qb_rb_chunk_write')
    cps = list(w.calls('memcpy'))
    commits = list(w.calls('qb_rb_chunk_commit'))
    allocs = list(w.calls('qb_rb_chunk_alloc'))
    if len(cps) != 1 or len(commits) != 1 or len(allocs) != 1:
        raise AnalysisBroken('qb_rb_chunk_write: memcpy=%d commit=%d alloc=%d' % (len(cps), len(commits), len(allocs)))
    cp = cps[0]
    dst = unwrap(cp.args[0])
    ok = False
    if dst.get('k') == 'var':
        for (a, _e) in w.guards_live(cp):
            if a.op == '!=' and a.rc == 0 and a.ls == dst['n']:
                defs, entry = w.reaching_defs(dst['n'], cp)
                ok = not entry and all(callee_of(unwrap(d.rhs if d.kind == 'STORE' else d.d.get('init'))) == 'qb_rb_chunk_alloc' for d in defs)
    ctx.check('R5', 'write:null-test-before-copy', ok, cp,
              'payload memcpy is dominated by the allocation result != NULL',
              'payload memcpy is reachable with a NULL / unchecked allocation result')
    ctx.check('R5', 'write:copy-before-commit', w.ev_dominates(cp, commits[0]), commits[0],
              'payload copied before the chunk is committed',
              'chunk committed before (or without) the payload copy')


# -- R6 ---------------------------------------------------------------------
def r6(ctx, magic):
    prog = ctx.prog
    for name in ('qb_rb_chunk_peek', 'qb_rb_chunk_read'):
        f = prog.fn(name)
        waits = list(f.calls('qb_rb_notifier::timedwait_fn'))
        gets = [ev for ev in f.events('CALL') if is_marker_get(ev.e)]
        if len(waits) != 1 or not gets:
            raise AnalysisBroken('%s: timedwait=%d marker loads=%d' % (name, len(waits), len(gets)))
        w = waits[0]
        # the wait is skipped only when the slot is NULL
        skip_ok = True
        for g in gets:
            hits, _e, _n = f.search(('entry',), goal=lambda ev: ev is g, stop=lambda ev: ev is w)
            if hits:
                # reached without the wait: the path must go over the slot-is-NULL edge
                gl = [a for (a, _e2) in f.guards(w)]
                skip_ok = any(a.op == '!=' and a.rc == 0 and field_is(a.l, 'timedwait_fn') for a in gl)
        ctx.check('R6', '%s:wait-before-marker-load' % name, skip_ok, w,
                  'timedwait_fn precedes the marker load unless the slot is NULL',
                  'the marker is loaded on a path that skipped an installed timedwait_fn')
        # on the marker != MAGIC edge with a notifier, the token is reposted before returning
        for b in f.blocks.values():
            if b.cond is None:
                continue
            for lab in (True, False):
                ats = atoms_of(b.cond, lab)
                if any(a.op == '!=' and ((a.rc is not None and a.rc & 0xFFFFFFFF == magic)) for a in ats):
                    tgt = [t for (t, l2) in b.succs if l2 is lab]
                    if not tgt:
                        continue
                    # every path to exit passes post_fn, unless it crosses an edge
                    # on which the notifier slot is known to be NULL
                    def is_post(ev):
                        return ev.kind == 'CALL' and ev.callee == 'qb_rb_notifier::post_fn'

                    def not_nullslot(fb, t, l3):
                        if fb.cond is None or l3 not in (True, False):
                            return True
                        return not any(a.op == '==' and a.rc == 0 and (field_is(a.l, 'post_fn') or field_is(a.l, 'timedwait_fn'))
                                       for a in atoms_of(fb.cond, l3))
                    _h, exits, _n = f.search(('edge', b.id, tgt[0]), stop=is_post, edge_filter=not_nullslot)
                    ctx.check('R6', '%s:repost-on-unpublished' % name, not exits, '%s:%d (%s)' % (f.file, b.term_ln, name),
                              'the wait token is given back (post_fn) on the marker-not-published edge',
                              'marker-not-published edge can return without reposting the token',
                              {'path': f.path_lines(exits[0]) if exits else None})


    # read: a token taken by a successful wait is either used up by consuming a chunk
    # (reclaim) or given back (post_fn) on every path to a return
    f = prog.fn('qb_rb_chunk_read')
    w = list(f.calls('qb_rb_notifier::timedwait_fn'))[0]

    def keep_edge(fb, t, lab):
        if fb.cond is None or lab not in (True, False):
            return True
        for a in atoms_of(fb.cond, lab):
            if a.op == '==' and a.rc == 0 and (field_is(a.l, 'post_fn') or field_is(a.l, 'timedwait_fn')):
                return False        # no notifier installed
            if a.op == '<' and a.rc == 0 and unwrap(a.l).get('k') == 'var':
                defs, _en = f.reaching_defs(unwrap(a.l)['n'], f.end_of(fb.id))
                if any(d.kind == 'STORE' and callee_of(unwrap(d.rhs)) == 'qb_rb_notifier::timedwait_fn' for d in defs):
                    return False    # the wait failed: no token was taken
        return True
    _h, exits, _n = f.search(('after', w), stop=lambda ev: ev.kind == 'CALL' and ev.callee in ('qb_rb_notifier::post_fn', '_rb_chunk_reclaim'),
                             edge_filter=keep_edge)
    ctx.check('R6', 'qb_rb_chunk_read:token-used-or-returned', not exits, w,
              'after a successful wait every return has either consumed a chunk or reposted the token',
              'a path returns after a successful wait without consuming a chunk or reposting: the count falls behind the chunks and the last chunk is never delivered',
              {'path': f.path_lines(exits[0]) if exits else None})


# -- R7 ---------------------------------------------------------------------
ATOMIC_NAMES = {'QB_ATOMIC_RELAXED': 0, 'QB_ATOMIC_CONSUME': 1, 'QB_ATOMIC_ACQUIRE': 2,
                'QB_ATOMIC_RELEASE': 3, 'QB_ATOMIC_ACQ_REL': 4, 'QB_ATOMIC_SEQ_CST': 5}
# gcc/clang __ATOMIC_* values
GNU = {'RELAXED': 0, 'CONSUME': 1, 'ACQUIRE': 2, 'RELEASE': 3, 'ACQ_REL': 4, 'SEQ_CST': 5}


def r7(ctx):
    prog = ctx.prog
    en = prog.enum('qb_atomic_model')
    mm = prog.fn('qb_model_map')
    # evaluate the switch per enum member
    from engine.qb import abstract_run
    p = mm.params[0]['n']
    for name, val in en.items():
        visits, terms = abstract_run(mm, {p: val})
        rets = {cval(unwrap(ev.e)) for (ev, env) in visits if ev.kind == 'RETURN'}
        want = GNU.get(name.replace('QB_ATOMIC_', ''))
        ctx.check('R7', 'map:%s' % name, rets == {want}, mm,
                  'qb_model_map(%s) = %s' % (name, want),
                  'qb_model_map(%s) evaluates to %s, expected __ATOMIC_%s=%s' % (name, sorted(rets, key=str), name[10:], want))
    for (fname, builtin, nargs) in (('qb_atomic_int_set_ex', '__atomic_store_n', 3), ('qb_atomic_int_get_ex', '__atomic_load_n', 2)):
        f = prog.fn(fname)
        cs = [ev for ev in f.events('CALL') if ev.callee == builtin]
        ok = len(cs) == 1
        if ok:
            c = cs[0].e
            ptr_ok = estr(c['ptr']) == f.params[0]['n']
            order = unwrap(c['order'])
            ord_ok = callee_of(order) == 'qb_model_map' and estr(order['args'][0]) == f.params[-1]['n']
            val_ok = True
            if builtin == '__atomic_store_n':
                val_ok = estr(c['val']) == f.params[1]['n']
            ok = ptr_ok and ord_ok and val_ok
            # executed on every path
            ok = ok and f.must_pass(('entry',), lambda ev: ev is cs[0])[0]
        ctx.check('R7', 'wrapper:%s' % fname, ok, f,
                  '%s is %s(atomic, …, qb_model_map(model)) on every path' % (fname, builtin),
                  '%s no longer forwards to %s with the mapped memory order' % (fname, builtin))


def r8(ctx):
    from rules import c07
    sub = type(ctx)(ctx.prog, ctx.prop, ctx.tier, ctx.depth)
    H = c07.r2(sub)
    # of C07.R2: the step over a chunk covers its last, partial word (an untorn chunk needs the guard words behind its bytes, not in them)
    keep = [r for r in sub.results if r['key'] == 'step-rounds-up']
    sub.results = []
    c07.r1(sub, H)
    c07.r6(sub)
    # C07.R9: a peek gives its count back (peek + reclaim is one of the two ways to read, in the property's own words)
    c07.r9(sub)
    for r in keep + sub.results:
        r['rule'] = 'R8'
        ctx.results.append(r)


def r10(ctx):
    prog = ctx.prog
    f = prog.fn('qb_sys_circular_mmap')
    maps = [st for st in list(f.events('STORE')) + list(f.events('DECL')) if (st.rhs if st.kind == 'STORE' else st.d.get('init')) is not None and
            callee_of(unwrap(st.rhs if st.kind == 'STORE' else st.d['init'])) == 'mmap']
    if len(maps) < 2:
        raise AnalysisBroken('qb_sys_circular_mmap: mappings = %d' % len(maps))
    # pointers into the mapped area: the mmap results and every local computed from them
    ptrs = {estr(st.lhs) if st.kind == 'STORE' else st.d['var'] for st in maps}
    outp = f.params[1]['n']
    grew = True
    while grew:
        grew = False
        for st in list(f.events('STORE')) + list(f.events('DECL')):
            rhs = st.rhs if st.kind == 'STORE' else st.d.get('init')
            name = (estr(st.lhs) if unwrap(st.lhs).get('k') == 'var' else None) if st.kind == 'STORE' else st.d['var']
            if name and name not in ptrs and isinstance(rhs, dict) and any(n.get('k') == 'var' and n.get('n') in ptrs for n in walk(rhs)):
                ptrs.add(name)
                grew = True
    bad = []
    for st in f.events('STORE'):
        l = unwrap(st.lhs)
        if l.get('k') in ('deref', 'idx'):
            base = l.get('e') if l.get('k') == 'deref' else l.get('b')
            if any(n.get('k') == 'var' and n.get('n') in ptrs for n in walk(base)) and not any(n.get('k') == 'var' and n.get('n') == outp for n in walk(base)):
                bad.append(st)
    for ev in f.events('CALL'):
        if ev.callee in ('memset', 'memcpy', 'memmove') and any(n.get('k') == 'var' and n.get('n') in ptrs for n in walk(ev.args[0])):
            bad.append(ev)
    ctx.check('R10', 'mapping-the-ring-writes-nothing-into-it', not bad, bad[0] if bad else maps[0],
              'qb_sys_circular_mmap stores nothing through the addresses it maps',
              'qb_sys_circular_mmap stores into the area it has just mapped: it runs on every attach, also on one made while chunks are in flight - a word of a published chunk (its length, its payload) is overwritten and put back behind the back of the writer and the reader')
