"""C02 - IPC requests, responses and events exactly once, in order, intact."""
from engine.qb import (AnalysisBroken, abstract_run, estr, unwrap, cval, walk, last_field, fields_of, callee_of,
                       mentions_var, atoms_of, root_var, TOP)
from rules.common import field_is, has_call, derives, value_sources

UNITS = ['lib/ipcc.c', 'lib/ipcs.c', 'lib/ipc_shm.c', 'lib/ipc_socket.c', 'lib/ringbuffer.c']
DECIDES = ('Decides the gates in front of every transport send (size, flow control), the one-wake-up-byte-per-accepted-message '
           'pairing on both sides of the shared-memory transport, the deferred notification bookkeeping, peek/process/reclaim order, '
           'agreement of the two transports on the function slots, and the polled descriptor; end-to-end order and content rest on C01 '
           'and kernel datagram semantics and are not decided.')
RULES = {
    'R1': 'qb_ipcc_send / qb_ipcc_sendv / qb_ipcs_event_send / qb_ipcs_event_sendv / qb_ipcs_response_send / qb_ipcs_response_sendv: the message length (sendv: the total of all iovec lengths) is compared with the channel max_msg_size before the transport send; too big returns -EMSGSIZE without sending',
    'R2': 'qb_ipcc_send / sendv / sendv_recv: unless fc_get is not installed, fc_get is consulted and 0 < res <= fc_enable_max returns -EAGAIN before any transport send',
    'R3': 'shm wake-up bytes: client sends exactly one byte (retrying -EAGAIN) after an accepted request; server notifies exactly on accepted events; client consumes one byte per received event; server consumes as many bytes as requests it processed, after processing, into a buffer as large as the per-dispatch cap',
    'R4': 'deferred notifications: -EAGAIN increments outstanding_notifiers and enables POLLOUT; the counter is decreased only by a positive byte count and POLLOUT is dropped only at 0',
    'R5': '_process_request_ (peek mode): msg_process precedes reclaim; reclaim exactly once after a processed request; error/disconnect edges reach neither',
    'R6': 'both transports fill every slot of qb_ipcs_funcs / qb_ipcc_funcs that is called without a NULL test; peek and reclaim are both set or both unset',
    'R7': 'qb_ipcc_fd_get returns the event socket for socket transport and the setup socket otherwise; the server writes notification bytes to c->setup only under needs_sock_for_poll',
    'R8': 'a receive that is refused because the caller\'s buffer is too small changes nothing: the shm receive path (qb_rb_chunk_read) copies only after len >= chunk size, leaves the chunk, and gives the wait token it had taken back (= C07.R4) - otherwise the retry with a big enough buffer times out and every later response or event comes one late',
    'R9': 'the ring under the shared-memory transport keeps an accepted message intact (= C01.R3, R8, R9 / C07.R1, R2, R6, R7, R9): the margin covers header and guard words, the step covers a partial last word, the consumer invalidates a chunk before it advances the read index, a peek gives its count back, and what commit writes behind a chunk never lands on a length word',
}
FLOORS = {'R9': 10, 'R1': 12, 'R2': 6, 'R3': 12, 'R4': 5, 'R5': 4, 'R6': 6, 'R7': 4, 'R8': 5}

EMSGSIZE, EAGAIN = -90, -11


def run(ctx):
    r1(ctx)
    r2(ctx)
    r3(ctx)
    r4(ctx)
    r5(ctx)
    r6(ctx)
    r7(ctx)
    # R8 = C07.R4: a receive into a buffer that is too small is an error without effect
    from rules import c01, c07
    sub = type(ctx)(ctx.prog, ctx.prop, ctx.tier, ctx.depth)
    c07.r4(sub, c01._magic_consts(ctx.prog))
    for r in sub.results:
        r['rule'] = 'R8'
        ctx.results.append(r)
    r4_order(ctx)
    r8_socket(ctx)
    r5_copy_then_commit(ctx)
    r3_byte_after_event(ctx)
    # R9 = what the shared-memory transport takes from the ring it is built on: margin, step and the consumer's order of stores
    # (C01.R3, R8, R9) - a message that was accepted is only intact if the ring keeps it so
    sub = type(ctx)(ctx.prog, ctx.prop, ctx.tier, ctx.depth)
    magic = c01._magic_consts(ctx.prog)
    c01.r3(sub, magic)
    c01.r8(sub)
    c07.r7(sub)
    for r in sub.results:
        r['key'] = 'ring:' + r['key']
        r['rule'] = 'R9'
        ctx.results.append(r)


def _sends(f, rec):
    return [ev for ev in f.events('CALL') if ev.callee in ('%s::send' % rec, '%s::sendv' % rec)]


def _sum_fits_helper(prog, name):
    """is `name`(iov, n, max) a function that returns non-zero only if iov[0..n-1].iov_len add up to at most max?
    total starts at 0; the loop runs i = 0 .. n-1; an element is added only where iov[i].iov_len <= max - total was seen; a
    non-zero constant is returned only behind the loop's exit condition"""
    if not prog.has_fn(name):
        return False
    h = prog.fn(name)
    if len(h.params) != 3:
        return False
    iovp, np_, maxp = (q['n'] for q in h.params)
    acc = [ev for ev in h.events('STORE') if ev.d['op'] == '+=' and field_is(ev.rhs, 'iov_len')]
    if len(acc) != 1 or unwrap(acc[0].lhs).get('k') != 'var':
        return False
    tot = unwrap(acc[0].lhs)['n']
    ixs = [estr(n['i']) for n in walk(acc[0].rhs) if n.get('k') == 'idx' and estr(unwrap(n['b'])) == iovp]
    if not ixs:
        return False
    ix = ixs[0]
    elem = estr(unwrap(acc[0].rhs))
    gl = [a for (a, _e) in h.guards_live(acc[0])]
    in_loop = any(a.ls == ix and a.op == '<' and a.rs == np_ for a in gl)
    room = any(a.ls == elem and a.op == '<=' and a.rs in ('(%s - %s)' % (maxp, tot),) for a in gl)
    inits = [ev for ev in h.events() if (ev.kind == 'STORE' and estr(ev.lhs) == ix and ev.d['op'] == '=') or (ev.kind == 'DECL' and ev.d['var'] == ix and 'init' in ev.d)]
    zero_i = bool(inits) and all(cval(unwrap(ev.rhs if ev.kind == 'STORE' else ev.d['init'])) == 0 for ev in inits)
    tin = [ev for ev in h.events() if (ev.kind == 'STORE' and estr(ev.lhs) == tot and ev.d['op'] == '=') or (ev.kind == 'DECL' and ev.d['var'] == tot)]
    zero_t = bool(tin) and all(cval(unwrap(ev.rhs if ev.kind == 'STORE' else ev.d.get('init') or {})) == 0 for ev in tin)
    steps = [ev for ev in h.events('STORE') if estr(ev.lhs) == ix and ev.d['op'] != '=']
    step1 = bool(steps) and all(ev.d['op'] == '++' for ev in steps)
    yes = [ev for ev in h.returns() if cval(unwrap(ev.e)) not in (0, None)]
    unknown = [ev for ev in h.returns() if cval(unwrap(ev.e)) is None]

    def done(a, fb):
        return a.ls == ix and a.op == '>=' and a.rs == np_
    return bool(in_loop and room and zero_i and zero_t and step1 and yes and not unknown and all(h.uncut_path(ev, done) is None for ev in yes))


def r1(ctx):
    prog = ctx.prog
    for (fname, rec, chan, lenp) in (('qb_ipcc_send', 'qb_ipcc_funcs', 'request', 2), ('qb_ipcc_sendv', 'qb_ipcc_funcs', 'request', None),
                                     ('qb_ipcs_event_send', 'qb_ipcs_funcs', 'event', 2), ('qb_ipcs_response_send', 'qb_ipcs_funcs', 'response', 2),
                                     ('qb_ipcs_response_sendv', 'qb_ipcs_funcs', 'response', None), ('qb_ipcs_event_sendv', 'qb_ipcs_funcs', 'event', None)):
        f = prog.fn(fname)
        sends = _sends(f, rec)
        if len(sends) != 1:
            raise AnalysisBroken('%s: transport send sites = %d' % (fname, len(sends)))
        helper = None
        if lenp is None:
            # a checked "do these iovecs add up to at most max" helper in front of the send
            for ev in f.events('CALL'):
                if ev.callee and prog.has_fn(ev.callee) and len(ev.args) == 3 and estr(unwrap(ev.args[0])) == f.params[1]['n'] and \
                        estr(unwrap(ev.args[1])) == f.params[2]['n'] and field_is(ev.args[2], 'max_msg_size') and chan in estr(ev.args[2]):
                    if _sum_fits_helper(prog, ev.callee):
                        helper = ev.callee
        if helper is not None:
            def fits_h(a, fb, helper=helper, chan=chan):
                l = unwrap(a.l)
                return a.op == '!=' and a.rc == 0 and callee_of(l) == helper and chan in estr(l['args'][2])
            path = f.uncut_path(sends[0], fits_h)
            ctx.check('R1', '%s:size-gate' % fname, path is None, sends[0], 'the transport send is cut by %s(iov, iov_len, %s.max_msg_size) (a verified sum-fits test)' % (helper, chan),
                      'a message larger than the negotiated maximum can reach the transport send')
            ok = False
            for b in f.blocks.values():
                if b.cond is None:
                    continue
                for (t, lab) in b.succs:
                    if lab in (True, False) and any(a.op == '==' and a.rc == 0 and callee_of(unwrap(a.l)) == helper for a in atoms_of(b.cond, lab)):
                        rets, _e, _n = f.search(('edge', b.id, t), goal=lambda ev: ev.kind == 'RETURN')
                        hits, _e2, _n2 = f.search(('edge', b.id, t), goal=lambda ev: ev is sends[0])
                        ok = bool(rets) and all(cval(unwrap(ev.e)) == EMSGSIZE for (ev, _p) in rets) and not hits
            ctx.check('R1', '%s:too-big-returns-EMSGSIZE' % fname, ok, f, 'too big returns -EMSGSIZE and sends nothing', 'the too-big edge does not return -EMSGSIZE')
            continue
        if lenp is None and helper is None:
            # the same test written into the function itself: every element compared with what is left of the maximum before it is added
            acc0 = [ev for ev in f.events('STORE') if ev.d['op'] == '+=' and field_is(ev.rhs, 'iov_len') and unwrap(ev.lhs).get('k') == 'var']
            if len(acc0) == 1:
                tot = unwrap(acc0[0].lhs)['n']
                elem = estr(unwrap(acc0[0].rhs))
                gl = [a for (a, _e) in f.guards_live(acc0[0])]
                room = [a for a in gl if a.ls == elem and a.op == '<=' and field_is(unwrap(a.r).get('l', {}), 'max_msg_size') and chan in a.rs and
                        unwrap(a.r).get('k') == 'bin' and unwrap(a.r).get('op') == '-' and estr(unwrap(unwrap(a.r)['r'])) == tot]
                if room:
                    ixs = [estr(n['i']) for n in walk(acc0[0].rhs) if n.get('k') == 'idx']
                    npar = f.params[2]['n']
                    in_loop = any(a.ls == ixs[0] and a.op == '<' and a.rs == npar for a in gl) if ixs else False
                    inits = [ev for ev in f.events() if ixs and ((ev.kind == 'STORE' and estr(ev.lhs) == ixs[0] and ev.d['op'] == '=') or (ev.kind == 'DECL' and ev.d['var'] == ixs[0] and 'init' in ev.d))]
                    zero_i = bool(inits) and all(cval(unwrap(ev.rhs if ev.kind == 'STORE' else ev.d['init'])) == 0 for ev in inits)
                    tin = [ev for ev in f.events() if (ev.kind == 'STORE' and estr(ev.lhs) == tot and ev.d['op'] == '=') or (ev.kind == 'DECL' and ev.d['var'] == tot)]
                    zero_t = bool(tin) and all(cval(unwrap(ev.rhs if ev.kind == 'STORE' else ev.d.get('init') or {})) == 0 for ev in tin)

                    def done(a, fb, ix=ixs[0] if ixs else None, npar=npar):
                        return a.ls == ix and a.op == '>=' and a.rs == npar
                    after_loop = f.uncut_path(sends[0], done) is None
                    wide = prog.type_info(unwrap(acc0[0].lhs).get('ty', '')).get('bits', 0) >= 64
                    ctx.check('R1', '%s:size-gate' % fname, in_loop and zero_i and zero_t and after_loop and wide, sends[0],
                              'every iovec element is compared with what is left of %s.max_msg_size before it is added (%s-bit total), and the send comes after the whole walk' % (
                                  chan, prog.type_info(unwrap(acc0[0].lhs).get('ty', '')).get('bits')),
                              'a message larger than the negotiated maximum can reach the transport send (loop %s, index from 0 %s, total from 0 %s, send after the walk %s, 64-bit total %s)' % (
                                  in_loop, zero_i, zero_t, after_loop, wide))
                    ok = False
                    for b in f.blocks.values():
                        if b.cond is None:
                            continue
                        for (t, lab) in b.succs:
                            if lab in (True, False) and any(a.ls == elem and a.op == '>' and tot in a.rs and 'max_msg_size' in a.rs for a in atoms_of(b.cond, lab)):
                                rets, _e, _n = f.search(('edge', b.id, t), goal=lambda ev: ev.kind == 'RETURN')
                                hits, _e2, _n2 = f.search(('edge', b.id, t), goal=lambda ev: ev is sends[0])
                                ok = bool(rets) and all(cval(unwrap(ev.e)) == EMSGSIZE for (ev, _p) in rets) and not hits
                    ctx.check('R1', '%s:too-big-returns-EMSGSIZE' % fname, ok, f, 'too big returns -EMSGSIZE and sends nothing', 'the too-big edge does not return -EMSGSIZE')
                    continue
        if lenp is not None:
            lv = f.params[lenp]['n']
        else:
            # sendv: the accumulated total
            acc = [ev for ev in f.events('STORE') if ev.d['op'] == '+=' and field_is(ev.rhs, 'iov_len')]
            if len(acc) == 0:
                ctx.check('R1', '%s:size-gate' % fname, False, sends[0], '',
                          '%s hands its iovecs to the transport without adding their lengths up: a message larger than the negotiated maximum is '
                          'accepted (the client\'s receive buffer is max_msg_size bytes: it gets -ENOBUFS / -EMSGSIZE for ever and every message behind it is stuck)' % fname)
                continue
            if len(acc) != 1:
                raise AnalysisBroken('%s: iovec length accumulation not understood' % fname)
            lv = estr(acc[0].lhs)
            bits = prog.type_info(unwrap(acc[0].lhs).get('ty', '')).get('bits', 0)
            ctx.check('R1', '%s:total-cannot-wrap' % fname, bits >= 64, acc[0], 'the total of the iovec lengths is kept in %s bits' % bits,
                      'the total of the iovec lengths is kept in %s bits and compared after the walk: a message of 4 GiB + 16 bytes passes the size gate as one of 16 '
                      '(and is then copied into a 16-byte chunk of the request ring)' % bits)
            # the loop covers every element: i from 0 while i < iov_len
            ixs = [estr(n['i']) for n in walk(acc[0].rhs) if n.get('k') == 'idx']
            ok = False
            if ixs:
                gl = [a for (a, _e) in f.guards(acc[0])]
                ok = any(a.ls == ixs[0] and a.op == '<' and a.rs == f.params[2]['n'] for a in gl)
                inits = [ev for ev in f.events('STORE') if estr(ev.lhs) == ixs[0] and ev.d['op'] == '=']
                ok = ok and bool(inits) and all(cval(unwrap(ev.rhs)) == 0 for ev in inits)
            ctx.check('R1', '%s:total-covers-all-iovecs' % fname, ok, acc[0], 'the total adds iov_len of elements 0..iov_len-1',
                      'the size total does not cover every iovec element: an oversized message passes the size gate')

        def fits(a, fb, lv=lv, chan=chan):
            return a.ls == lv and a.op == '<=' and field_is(a.r, 'max_msg_size') and chan in a.rs
        path = f.uncut_path(sends[0], fits)
        ctx.check('R1', '%s:size-gate' % fname, path is None, sends[0], 'the transport send is cut by %s <= %s.max_msg_size' % (lv, chan),
                  'a message larger than the negotiated maximum can reach the transport send')
        ok = False
        for b in f.blocks.values():
            if b.cond is None:
                continue
            for (t, lab) in b.succs:
                if lab in (True, False) and any(a.ls == lv and a.op == '>' and field_is(a.r, 'max_msg_size') for a in atoms_of(b.cond, lab)):
                    rets, _e, _n = f.search(('edge', b.id, t), goal=lambda ev: ev.kind == 'RETURN')
                    hits, _e2, _n2 = f.search(('edge', b.id, t), goal=lambda ev: ev is sends[0])
                    ok = bool(rets) and all(cval(unwrap(ev.e)) == EMSGSIZE for (ev, _p) in rets) and not hits
        ctx.check('R1', '%s:too-big-returns-EMSGSIZE' % fname, ok, f, 'too big returns -EMSGSIZE and sends nothing', 'the too-big edge does not return -EMSGSIZE')


def _refusal(prog, f, e, depth=2):
    """the returned value says "not sent": -EAGAIN, or the result of a helper that returns -EAGAIN unless it has a (negative)
    disconnect error to report:  (x < 0) ? x : -EAGAIN"""
    u = unwrap(e) if e is not None else {}
    if cval(u) == EAGAIN:
        return True
    if u.get('k') == 'cond':
        a, b = unwrap(u['t']), unwrap(u['f'])
        neg = lambda sense, x: any(at.ls == estr(x) and at.op == '<' and at.rc == 0 for at in atoms_of(u['c'], sense))
        # (x < 0) ? x : -EAGAIN   or   (x >= 0) ? -EAGAIN : x
        return (neg(True, a) and cval(b) == EAGAIN) or (neg(False, b) and cval(a) == EAGAIN)
    if u.get('k') == 'call' and depth > 0:
        cands = [g for g in prog.fns.get(callee_of(u) or '', []) if g.file == f.file]
        return len(cands) == 1 and bool(cands[0].returns()) and all(_refusal(prog, cands[0], r.e, depth - 1) for r in cands[0].returns())
    return False


def r2(ctx):
    prog = ctx.prog
    for fname in ('qb_ipcc_send', 'qb_ipcc_sendv', 'qb_ipcc_sendv_recv'):
        f = prog.fn(fname)
        sends = _sends(f, 'qb_ipcc_funcs') + [ev for ev in f.events('CALL') if ev.callee in ('qb_ipcc_sendv', 'qb_ipcc_send')]
        fcs = list(f.calls('qb_ipcc_funcs::fc_get'))
        if not sends or len(fcs) != 1:
            raise AnalysisBroken('%s: sends=%d fc_get calls=%d' % (fname, len(sends), len(fcs)))
        fc = fcs[0]

        def not_nullslot(fb, t, lab):
            if fb.cond is None or lab not in (True, False):
                return True
            return not any(a.op == '==' and a.rc == 0 and field_is(a.l, 'fc_get') for a in atoms_of(fb.cond, lab))
        bad = []
        for s in sends:
            hits, _e, _n = f.search(('entry',), goal=lambda ev, s=s: ev is s, stop=lambda ev: ev is fc, edge_filter=not_nullslot)
            if hits:
                bad.append(s)
        ctx.check('R2', '%s:fc-consulted' % fname, not bad, bad[0] if bad else fc, 'flow control is consulted before sending whenever fc_get is installed',
                  'a send can happen without consulting flow control')
        # the blocked edge: res > 0 && res <= fc_enable_max  -> -EAGAIN, no send
        resv = None
        for st in f.events('STORE'):
            if st.rhs is not None and callee_of(unwrap(st.rhs)) == 'qb_ipcc_funcs::fc_get':
                resv = estr(st.lhs)
        ok = False
        if resv:
            for b in f.blocks.values():
                if b.cond is None:
                    continue
                for (t, lab) in b.succs:
                    if lab in (True, False) and any(a.ls == resv and a.op == '<=' and field_is(a.r, 'fc_enable_max') for a in atoms_of(b.cond, lab)):
                        # this edge is only taken with res > 0 (short-circuit) - check the guard
                        g = [a for (a, _e) in f.guards(t)]
                        pos = any(a.ls == resv and a.op == '>' and a.rc == 0 for a in g)
                        rets, _e, _n = f.search(('edge', b.id, t), goal=lambda ev: ev.kind == 'RETURN')
                        hits, _e2, _n2 = f.search(('edge', b.id, t), goal=lambda ev: any(ev is s for s in sends))
                        ok = pos and bool(rets) and all(_refusal(prog, f, ev.e) for (ev, _p) in rets) and not hits
        ctx.check('R2', '%s:blocked-returns-EAGAIN' % fname, ok, fc, 'with flow control on (0 < res <= fc_enable_max) the call returns -EAGAIN (or the disconnect error found while looking at the sockets) and sends nothing',
                  'flow control on does not lead to -EAGAIN without sending')


def _us_call(ev, fn, chan='setup'):
    return ev.kind == 'CALL' and ev.callee == fn and field_is(ev.args[0], chan)


def r3(ctx):
    prog = ctx.prog
    # --- client request side
    for (fname, okatom) in (('qb_ipcc_send', 'eq-len'), ('qb_ipcc_sendv', 'positive')):
        f = prog.fn(fname)
        sends = _sends(f, 'qb_ipcc_funcs')
        resv = None
        for st in f.events('STORE'):
            if st.rhs is not None and callee_of(unwrap(st.rhs)) in ('qb_ipcc_funcs::send', 'qb_ipcc_funcs::sendv'):
                resv = estr(st.lhs)
        wake = [ev for ev in f.events('CALL') if _us_call(ev, 'qb_ipc_us_send')]
        if len(wake) != 1 or resv is None:
            raise AnalysisBroken('%s: wake-up sends = %d' % (fname, len(wake)))
        w = wake[0]
        ctx.check('R3', '%s:one-byte' % fname, cval(unwrap(w.args[2])) == 1, w, 'the wake-up is exactly one byte', 'the wake-up sends %s bytes' % estr(w.args[2]))

        def accepted(a, fb):
            if a.ls != resv:
                return False
            return (a.op == '==' and a.rs == f.params[2]['n']) if okatom == 'eq-len' else (a.op == '>' and a.rc == 0)

        def needs(a, fb):
            return a.op == '!=' and a.rc == 0 and field_is(a.l, 'needs_sock_for_poll')
        ctx.check('R3', '%s:wake-only-after-accepted-send' % fname, f.uncut_path(w, accepted, start=('after', sends[0])) is None and f.ev_dominates(sends[0], w), w,
                  'a wake-up byte is sent only after the transport accepted the request', 'a wake-up byte can be sent for a request that was not queued')
        ctx.check('R3', '%s:wake-only-for-shm' % fname, f.uncut_path(w, needs) is None, w, 'wake-up bytes only when the transport needs them',
                  'wake-up byte sent although needs_sock_for_poll is false')
        # on the accepted+needs edge the wake-up is on every path
        ok_every = True
        for b in f.blocks.values():
            if b.cond is None:
                continue
            for (t, lab) in b.succs:
                if lab in (True, False) and any(needs(a, b) for a in atoms_of(b.cond, lab)) and any(accepted(a, b) for (a, _e) in f.guards(t)):
                    okp, _p = f.must_pass(('edge', b.id, t), lambda ev: ev is w)
                    ok_every = ok_every and okp
        ctx.check('R3', '%s:wake-on-every-accepted-path' % fname, ok_every, w, 'every accepted request is followed by a wake-up byte',
                  'an accepted request can go without its wake-up byte (server never dispatches it)')
        # retried while -EAGAIN: the call is in a loop whose back edge carries res2 == -EAGAIN
        loops = f.natural_loops()
        wres = None
        for st in f.events('STORE'):
            if st.rhs is not None and any(n is w.e or n.get('id') == w.e.get('id') for n in walk(st.rhs)):
                wres = estr(st.lhs)
        retry = False
        for hdr, body in loops.items():
            if w.blk in body:
                for bid in body:
                    b = f.blocks[bid]
                    if b.cond is None:
                        continue
                    stay = [(t, lab) for (t, lab) in b.succs if t in body]
                    leave = [(t, lab) for (t, lab) in b.succs if t not in body]
                    for (t, lab) in stay:
                        if leave and lab in (True, False) and any(a.ls == wres and a.op == '==' and a.rc == EAGAIN for a in atoms_of(b.cond, lab)):
                            retry = True
        ctx.check('R3', '%s:wake-retried-on-EAGAIN' % fname, retry, w, 'the wake-up byte is retried while the socket says -EAGAIN',
                  'the wake-up byte is not retried on -EAGAIN although the request is already queued: reporting the error makes a retry duplicate the request and leaves requests without wake-ups')
    # --- server event side
    for (fname, okatom) in (('qb_ipcs_event_send', 'eq-len'), ('qb_ipcs_event_sendv', 'positive')):
        f = prog.fn(fname)
        sends = _sends(f, 'qb_ipcs_funcs')
        resv = None
        for st in f.events('STORE'):
            if st.rhs is not None and callee_of(unwrap(st.rhs)) in ('qb_ipcs_funcs::send', 'qb_ipcs_funcs::sendv'):
                resv = estr(st.lhs)
        nots = list(f.calls('new_event_notification'))
        if len(nots) != 1 or len(sends) != 1 or resv is None:
            raise AnalysisBroken('%s: notification sites=%d' % (fname, len(nots)))

        def accepted(a, fb):
            if a.ls != resv:
                return False
            return (a.op == '==' and a.rs == f.params[2]['n']) if okatom == 'eq-len' else (a.op == '>' and a.rc == 0)
        ctx.check('R3', '%s:notify-only-accepted' % fname, f.uncut_path(nots[0], accepted, start=('after', sends[0])) is None and f.ev_dominates(sends[0], nots[0]), nots[0],
                  'the client is notified only for an event that was queued', 'a notification byte can be sent for an event that was not queued')
        ok_every = False
        for b in f.blocks.values():
            if b.cond is None:
                continue
            for (t, lab) in b.succs:
                if lab in (True, False) and any(accepted(a, b) for a in atoms_of(b.cond, lab)):
                    okp, _p = f.must_pass(('edge', b.id, t), lambda ev: ev is nots[0])
                    ok_every = okp
        ctx.check('R3', '%s:notify-every-accepted' % fname, ok_every, nots[0], 'every queued event is followed by a notification',
                  'a queued event can go without notification: the client\'s descriptor never becomes readable for it')
    n = prog.fn('new_event_notification')
    direct = [ev for ev in n.events('CALL') if _us_call(ev, 'qb_ipc_us_send')]
    ctx.check('R3', 'new_event_notification:one-byte', len(direct) == 1 and cval(unwrap(direct[0].args[2])) == 1, direct[0] if direct else n,
              'a fresh notification is exactly one byte', 'a fresh notification is not exactly one byte')
    # --- client event side
    f = prog.fn('qb_ipcc_event_recv')
    rc = [ev for ev in f.events('CALL') if _us_call(ev, 'qb_ipc_us_recv')]
    recvs = list(f.calls('qb_ipcc_funcs::recv'))
    if len(rc) != 1 or len(recvs) != 1:
        raise AnalysisBroken('qb_ipcc_event_recv: byte consumption sites=%d' % len(rc))
    sz = None
    for st in f.events('STORE'):
        if st.rhs is not None and callee_of(unwrap(st.rhs)) == 'qb_ipcc_funcs::recv':
            sz = estr(st.lhs)
    ctx.check('R3', 'event_recv:consumes-one-byte', cval(unwrap(rc[0].args[2])) == 1, rc[0], 'one notification byte is consumed per received event',
              'event_recv consumes %s bytes per event' % estr(rc[0].args[2]))
    ctx.check('R3', 'event_recv:consume-only-after-event', f.uncut_path(rc[0], lambda a, fb: a.ls == sz and a.op == '>' and a.rc == 0, start=('after', recvs[0])) is None and
              f.uncut_path(rc[0], lambda a, fb: a.op == '!=' and a.rc == 0 and field_is(a.l, 'needs_sock_for_poll')) is None, rc[0],
              'a byte is consumed only when an event was received (and the transport uses them)', 'a notification byte is consumed without an event having been received')
    # --- server request side
    d = prog.fn('qb_ipcs_dispatch_connection_request')
    procs = list(d.calls('_process_request_'))
    if len(procs) != 1:
        raise AnalysisBroken('dispatch: _process_request_ sites=%d' % len(procs))
    loops = d.natural_loops()
    lp = [(h, b) for (h, b) in loops.items() if procs[0].blk in b]
    if not lp:
        raise AnalysisBroken('dispatch: request processing is not in a loop')
    hdr, body = max(lp, key=lambda x: len(x[1]))
    cons = [ev for ev in d.events('CALL') if _us_call(ev, 'qb_ipc_us_recv') and cval(unwrap(ev.args[2])) is None]
    ctx.check('R3', 'dispatch:single-bulk-consumption', len(cons) == 1, cons[0] if cons else d, 'one variable-length consumption of notification bytes',
              '%d variable-length consumptions of notification bytes' % len(cons))
    for c in cons:
        lv = unwrap(c.args[2])
        incs = [ev for ev in d.events('STORE') if lv.get('k') == 'var' and estr(ev.lhs) == lv['n']]
        ok_counter = lv.get('k') == 'var' and bool(incs) and all(ev.d['op'] == '++' and ev.blk in body and d.ev_dominates(procs[0], ev) for ev in incs)
        decl = [ev for ev in d.events('DECL') if lv.get('k') == 'var' and ev.d['var'] == lv['n']]
        ok_counter = ok_counter and bool(decl) and all(cval(unwrap(ev.d.get('init'))) == 0 for ev in decl)
        ctx.check('R3', 'dispatch:consumes-processed-count', ok_counter, c,
                  'the number of bytes consumed is the counter of requests processed in this dispatch',
                  'the number of notification bytes consumed is not the count of requests actually processed: unprocessed requests lose their wake-ups (or the server blocks waiting for bytes that do not exist)')
        ctx.check('R3', 'dispatch:consume-after-processing', c.blk not in body and not d.may_follow(c, procs[0]), c,
                  'bytes are consumed after the processing loop', 'notification bytes are consumed before the requests are processed')
        # at most one increment per processed request
        once = True
        for i1 in incs:
            for i2 in incs:
                if i1 is not i2:
                    hits, _e, _n = d.search(('after', i1), goal=lambda ev, i2=i2: ev is i2, stop=lambda ev: ev is procs[0])
                    once = once and not hits
        ctx.check('R3', 'dispatch:one-count-per-request', once and len(incs) >= 1, incs[0] if incs else c, 'the counter moves at most once per processed request',
                  'the counter can move twice for one request')
        ctx.check('R3', 'dispatch:consume-only-for-shm', d.uncut_path(c, lambda a, fb: a.op == '!=' and a.rc == 0 and field_is(a.l, 'needs_sock_for_poll')) is None and
                  d.uncut_path(c, lambda a, fb: lv.get('k') == 'var' and a.ls == lv['n'] and a.op == '>' and a.rc == 0) is None, c,
                  'bytes are consumed only for the shm transport and only if something was processed', 'byte consumption is not guarded by needs_sock_for_poll and count > 0')
        buf = unwrap(c.args[1])
        n_buf = prog.type_info(buf.get('ty', '')).get('n') if buf.get('k') == 'var' else None
        q = prog.fn('_request_q_len_get')
        caps = [cval(unwrap(n['f'])) for ev in q.events('STORE') for n in walk(ev.rhs or {}) if n.get('k') == 'cond' and cval(unwrap(n['f'])) is not None] + \
               [cval(unwrap(n['t'])) for ev in q.events('STORE') for n in walk(ev.rhs or {}) if n.get('k') == 'cond' and cval(unwrap(n['t'])) is not None] + \
               [cval(unwrap(ev.rhs)) for ev in q.events('STORE') if ev.rhs is not None and cval(unwrap(ev.rhs)) is not None]
        ctx.check('R3', 'dispatch:buffer-covers-cap', n_buf is not None and bool(caps) and max(caps) <= n_buf, c,
                  'the byte buffer (%s) is as large as the largest per-dispatch request cap (%s)' % (n_buf, max(caps) if caps else None),
                  'up to %s requests per dispatch but the byte buffer holds %s' % (max(caps) if caps else None, n_buf))


def r4(ctx):
    prog = ctx.prog
    POLLOUT = 4
    n = prog.fn('new_event_notification')
    eag = False
    for b in n.blocks.values():
        if b.cond is None:
            continue
        for (t, lab) in b.succs:
            if lab in (True, False) and any(a.op == '==' and a.rc == EAGAIN for a in atoms_of(b.cond, lab)):
                ok1, _p = n.must_pass(('edge', b.id, t), lambda ev: ev.kind == 'STORE' and field_is(ev.lhs, 'outstanding_notifiers') and ev.d['op'] in ('++', '+='))
                ok2, _p2 = n.must_pass(('edge', b.id, t), lambda ev: ev.kind == 'STORE' and field_is(ev.lhs, 'poll_events') and (cval(unwrap(ev.rhs)) or 0) & POLLOUT)
                ok3, _p3 = n.must_pass(('edge', b.id, t), lambda ev: ev.kind == 'CALL' and ev.callee == '_modify_dispatch_descriptor_')
                eag = ok1 and ok2 and ok3
    ctx.check('R4', 'deferred:EAGAIN-counted-and-POLLOUT', eag, n, 'a notification that cannot be written is counted and POLLOUT is armed',
              'a notification that hits -EAGAIN is not counted / POLLOUT is not armed: the client is never notified')
    already = [ev for ev in n.events('STORE') if field_is(ev.lhs, 'outstanding_notifiers') and ev.d['op'] in ('++', '+=')]
    ctx.check('R4', 'deferred:queue-behind-outstanding', len(already) >= 2 and any(True for _ in n.calls('resend_event_notifications')), n,
              'with notifications already outstanding the new one is counted and a resend is attempted', 'a new notification overtakes outstanding ones')
    r = prog.fn('resend_event_notifications')
    decs = [ev for ev in r.events('STORE') if field_is(ev.lhs, 'outstanding_notifiers') and ev.d['op'] in ('-=', '--')]
    resv = None
    for st in r.events('STORE'):
        if st.rhs is not None and callee_of(unwrap(st.rhs)) == 'qb_ipc_us_send':
            resv = estr(st.lhs)
    ok = bool(decs) and all(r.uncut_path(ev, lambda a, fb: a.ls == resv and a.op == '>' and a.rc == 0) is None and estr(ev.rhs) == resv for ev in decs)
    ctx.check('R4', 'resend:decrease-by-bytes-written', ok, decs[0] if decs else r, 'the outstanding count drops by the number of bytes actually written',
              'the outstanding count is decreased without a positive byte count')
    drops = [ev for ev in r.events('STORE') if field_is(ev.lhs, 'poll_events') and not ((cval(unwrap(ev.rhs)) or 0) & POLLOUT)]
    ok = bool(drops) and all(r.uncut_path(ev, lambda a, fb: a.op == '==' and a.rc == 0 and field_is(a.l, 'outstanding_notifiers')) is None for ev in drops)
    ctx.check('R4', 'resend:POLLOUT-dropped-at-zero', ok, drops[0] if drops else r, 'POLLOUT is dropped only when nothing is outstanding',
              'POLLOUT can be dropped while notifications are still outstanding')
    sends = [ev for ev in r.events('CALL') if _us_call(ev, 'qb_ipc_us_send')]
    def at_most_outstanding(e):
        e = unwrap(e)
        if field_is(e, 'outstanding_notifiers'):
            return True
        if e.get('k') == 'cond':
            # MIN(outstanding, something): one leaf is the counter, chosen when it is the smaller one
            c = unwrap(e['c'])
            t, f_ = unwrap(e['t']), unwrap(e['f'])
            if c.get('k') == 'bin' and c['op'] in ('<', '<=') and estr(c['l']) == estr(t) and estr(c['r']) == estr(f_):
                return field_is(t, 'outstanding_notifiers') or field_is(f_, 'outstanding_notifiers')
            if c.get('k') == 'bin' and c['op'] in ('>', '>=') and estr(c['l']) == estr(f_) and estr(c['r']) == estr(t):
                return field_is(t, 'outstanding_notifiers') or field_is(f_, 'outstanding_notifiers')
        return False
    ctx.check('R4', 'resend:sends-outstanding-count', len(sends) == 1 and at_most_outstanding(sends[0].args[2]), sends[0] if sends else r,
              'the resend writes the outstanding count (or a capped part of it; the rest follows on the next POLLOUT)', 'the resend writes %s bytes, not bounded by the outstanding count' % (estr(sends[0].args[2]) if sends else None))
    # the owed bytes are written when the descriptor can take them, whatever else the dispatcher decides not to do: the POLLOUT
    # branch of the connection dispatcher is not behind the flow-control test (flow control stops the taking of requests)
    d = prog.fn('qb_ipcs_dispatch_connection_request')
    rs = list(d.calls('resend_event_notifications'))
    if not rs:
        raise AnalysisBroken('qb_ipcs_dispatch_connection_request: no resend of owed notifications')
    gated = [estr(d.blocks[fb].cond) for ev in rs for fb in d.controlling_blocks(ev.blk)
             if any(n.get('k') == 'mem' and n.get('f') == 'fc_enabled' for n in walk(d.blocks[fb].cond))]
    ctx.check('R4', 'resend:not-behind-flow-control', not gated, rs[0], 'the dispatcher sends the owed notifications on POLLOUT whether or not flow control is on',
              'the dispatcher sends the owed notifications only while flow control is off (%s): with the rate limit at OFF, events whose notification byte was deferred stay in the ring and the descriptor the client polls is not readable'
              % (gated[0] if gated else ''))


def r5(ctx):
    prog = ctx.prog
    f = prog.fn('_process_request_')
    mp = list(f.calls('qb_ipcs_service_handlers::msg_process'))
    rc = list(f.calls('qb_ipcs_funcs::reclaim'))
    pk = list(f.calls('qb_ipcs_funcs::peek'))
    if len(mp) != 1 or not rc or len(pk) != 1:
        raise AnalysisBroken('_process_request_: msg_process=%d reclaim=%d peek=%d' % (len(mp), len(rc), len(pk)))
    early = [r for r in rc if not f.ev_dominates(mp[0], r)]
    ctx.check('R5', 'process-before-reclaim', not early, early[0] if early else rc[0], 'the request is reclaimed only after it was handed to msg_process',
              'the request can be reclaimed (overwritten by the client) before msg_process has seen it')
    ctx.check('R5', 'single-reclaim-site', len(rc) == 1, rc[-1], 'one reclaim site', '%d reclaim sites' % len(rc))

    def not_nullslot(fb, t, lab):
        if fb.cond is None or lab not in (True, False):
            return True
        return not any(a.op == '==' and a.rc == 0 and (field_is(a.l, 'peek') or field_is(a.l, 'reclaim')) for a in atoms_of(fb.cond, lab))
    _h, exits, _n = f.search(('after', mp[0]), stop=lambda ev: ev is rc[0], edge_filter=not_nullslot)
    ctx.check('R5', 'reclaim-after-every-processed-request', not exits, mp[0], 'every processed request is reclaimed (peek mode)',
              'a processed request can stay at the head of the ring: it is delivered again on the next dispatch')
    hits, _e, _n2 = f.search(('after', rc[0]), goal=lambda ev: ev is rc[0] or ev is mp[0])
    ctx.check('R5', 'reclaim-once', not hits and not any(rc[0].blk in b for b in f.natural_loops().values()), rc[0], 'exactly one reclaim per processed request', 'reclaim can run twice')
    # peek and reclaim guarded by the same slot test
    gp = {(a.ls, a.op) for (a, _e) in f.guards(pk[0]) if 'peek' in a.ls or 'reclaim' in a.ls}
    gr = {(a.ls, a.op) for (a, _e) in f.guards(rc[0]) if 'peek' in a.ls or 'reclaim' in a.ls}
    ctx.check('R5', 'peek-reclaim-same-mode-test', gp == gr and len(gp) == 2, rc[0], 'peek and reclaim are used under the same mode test', 'peek and reclaim are guarded differently: %s vs %s' % (sorted(gp), sorted(gr)))


def r6(ctx):
    prog = ctx.prog
    for (rec, inits, users) in (('qb_ipcs_funcs', ('qb_ipcs_shm_init', 'qb_ipcs_us_init'), {'lib/ipcs.c', 'lib/ipc_setup.c'}),
                                ('qb_ipcc_funcs', ('qb_ipcc_shm_connect', 'qb_ipcc_us_connect'), {'lib/ipcc.c'})):
        # slots called without a NULL test of that slot
        needed = set()
        for g in prog.all_fns(files=users):
            for ev in g.events('CALL'):
                c = ev.callee or ''
                if c.startswith(rec + '::'):
                    slot = c.split('::')[1]
                    guarded = any(a.op == '!=' and a.rc == 0 and field_is(a.l, slot) for (a, _e) in g.guards(ev))
                    if not guarded:
                        needed.add(slot)
        if len(needed) < 3:
            raise AnalysisBroken('%s: only %d unconditional slot calls found' % (rec, len(needed)))
        per = {}
        for nm in inits:
            f = prog.fn(nm)
            st = {}
            for ev in f.events('STORE'):
                lf = last_field(ev.lhs)
                if lf and lf[0] == rec:
                    r = unwrap(ev.rhs)
                    st[lf[1]] = r['n'] if r.get('k') == 'fn' else ('NULL' if cval(r) == 0 else estr(r))
            per[nm] = st
            missing = [s for s in needed if st.get(s) in (None, 'NULL')]
            ctx.check('R6', '%s:fills-needed-slots' % nm, not missing, f, '%s sets every unconditionally called slot %s' % (nm, sorted(needed)),
                      '%s leaves %s unset although they are called without a NULL test' % (nm, missing))
            if rec == 'qb_ipcs_funcs':
                pk, rcl = st.get('peek', 'NULL'), st.get('reclaim', 'NULL')
                ctx.check('R6', '%s:peek-reclaim-paired' % nm, (pk == 'NULL') == (rcl == 'NULL'), f, 'peek and reclaim are both set or both unset',
                          'peek=%s reclaim=%s: the mode test in _process_request_ falls back to recv but reclaim state is inconsistent' % (pk, rcl))
        a, b = per[inits[0]], per[inits[1]]
        only = {k for k in a if a[k] != 'NULL'} ^ {k for k in b if b[k] != 'NULL'}
        only -= {'peek', 'reclaim'}
        ctx.check('R6', '%s:transports-agree' % rec, not only, prog.fn(inits[0]), 'both transports provide the same set of operations',
                  'slots provided by only one transport: %s' % sorted(only))


def r7(ctx):
    prog = ctx.prog
    SOCKET = prog.econst('QB_IPC_SOCKET')
    f = prog.fn('qb_ipcc_fd_get')
    outs = [ev for ev in f.events('STORE') if unwrap(ev.lhs).get('k') == 'deref']
    ok = len(outs) == 2
    for ev in outs:
        g = [a for (a, _e) in f.guards(ev)]
        is_sock = any(a.op == '==' and a.rc == SOCKET and field_is(a.l, 'type') and 'event' in a.ls for a in g)
        not_sock = any(a.op == '!=' and a.rc == SOCKET and field_is(a.l, 'type') and 'event' in a.ls for a in g)
        src = estr(ev.rhs)
        if is_sock:
            ok = ok and 'event' in src and src.endswith('sock')
        elif not_sock:
            ok = ok and 'setup' in src and src.endswith('sock')
        else:
            ok = False
    ctx.check('R7', 'fd_get:right-descriptor', ok, f, 'qb_ipcc_fd_get: event socket for socket transport, setup socket otherwise',
              'qb_ipcc_fd_get hands out a descriptor on which event notifications do not arrive')
    for nm in ('new_event_notification', 'resend_event_notifications'):
        g = prog.fn(nm)
        ws = [ev for ev in g.events('CALL') if ev.callee == 'qb_ipc_us_send']
        ok = bool(ws) and all(field_is(ev.args[0], 'setup') for ev in ws)
        ctx.check('R7', '%s:writes-setup-socket' % nm, ok, ws[0] if ws else g, 'notification bytes go to the setup socket (the one the client polls)',
                  'notification bytes are written to another socket')
        okn = bool(ws) and all(g.uncut_path(ev, lambda a, fb: a.op == '!=' and a.rc == 0 and field_is(a.l, 'needs_sock_for_poll')) is None for ev in ws)
        ctx.check('R7', '%s:only-for-shm' % nm, okn, ws[0] if ws else g, 'only when needs_sock_for_poll', 'notification bytes are written for the socket transport too (they would be read as messages)')


def r4_order(ctx):
    """with a backlog of owed bytes the new event's byte joins the backlog before the backlog is flushed: counted afterwards it is not
    sent by that flush, and if the flush emptied the backlog POLLOUT is no longer asked for - the byte is never sent"""
    f = ctx.prog.fn('new_event_notification')
    incs = [st for st in f.events('STORE') if last_field(st.lhs) == ('qb_ipcs_connection', 'outstanding_notifiers') and
            (st.d['op'] == '++' or (st.d['op'] == '+=' and cval(unwrap(st.rhs)) == 1))]
    fl = list(f.calls('resend_event_notifications'))
    if not incs or not fl:
        raise AnalysisBroken('new_event_notification: increments=%d flush calls=%d' % (len(incs), len(fl)))
    late = [(i, c) for i in incs for c in fl if f.may_follow(c, i)]
    ctx.check('R4', 'owed-byte-counted-before-the-flush', not late, late[0][0] if late else incs[0],
              'the new event is added to the owed count before the owed bytes are sent',
              'the owed bytes are flushed before the new event is counted: the flush does not send its byte, and when the flush has brought the count to zero it '
              'stops asking for POLLOUT - one event stays in the ring with no byte on the way, the client\'s descriptor never becomes readable for it')


def r8_socket(ctx):
    """socket transport: a message that does not fit the receiver's buffer is refused (-EMSGSIZE, nothing taken), never cut to fit and
    returned as a success"""
    f = ctx.prog.fn('qb_ipc_us_recv_at_most')
    recvs = [ev for ev in f.calls('recv')]
    if not recvs:
        raise AnalysisBroken('qb_ipc_us_recv_at_most: no recv')
    lenp = f.params[2]['n']
    n = 0
    for rv in recvs:
        a = unwrap(rv.args[2])
        if a.get('k') != 'var':
            continue
        defs, _entry = f.reaching_defs(a['n'], rv)
        for d in defs:
            rhs = d.rhs if d.kind == 'STORE' else d.d.get('init')
            if rhs is None:
                continue
            from_hdr = any(n_.get('k') == 'mem' and n_.get('f') == 'size' for n_ in walk(rhs))
            if not from_hdr:
                continue
            n += 1
            cut = any(n_.get('k') == 'var' and n_['n'] == lenp for n_ in walk(rhs))

            def fits(at, fb):
                return at.op in ('<=', '<') and any(n_.get('k') == 'mem' and n_.get('f') == 'size' for n_ in walk(at.l)) and mentions_var(at.r, lenp)
            unguarded = f.uncut_path(d, fits) is not None
            ctx.check('R8', 'socket:too-long-for-the-buffer-is-refused', not cut and not unguarded, d,
                      'the length received is the header\'s own, taken only where it was seen to fit the buffer',
                      'the length received is %s%s: a message longer than the caller\'s buffer is cut to fit and returned as a success - the rest of the datagram is gone, '
                      'the caller has a torn message and cannot get the whole one any more' % (estr(rhs), '' if cut else ' without a test that it fits'))
    if n == 0:
        raise AnalysisBroken('qb_ipc_us_recv_at_most: no receive length taken from the message header')


def r5_copy_then_commit(ctx):
    """shm send: the message is in the chunk before the chunk is published - nothing is copied into a chunk after its commit (the
    receiver may already be reading it)"""
    n = 0
    for name in ('qb_ipc_shm_send', 'qb_ipc_shm_sendv'):
        f = ctx.prog.fn(name)
        commits = list(f.calls('qb_rb_chunk_commit'))
        copies = list(f.calls('memcpy'))
        if not commits or not copies:
            continue        # qb_ipc_shm_send hands the whole message to qb_rb_chunk_write
        n += 1
        late = [(c, m) for c in commits for m in copies if f.may_follow(c, m)]
        ctx.check('R5', '%s:copied-before-committed' % name, not late, late[0][1] if late else commits[0],
                  'every copy into the reserved chunk precedes its commit',
                  'the chunk is committed before the message has been copied into it: a receiver that is already waiting reads the published chunk while the sender is '
                  'still copying - the right length, stale or half-copied bytes')
    if n == 0:
        raise AnalysisBroken('ipc_shm.c: no send function copies into a reserved chunk')


def r3_byte_after_event(ctx):
    """client, shm: the wake-up byte of an event is taken off the socket only when the event itself was taken out of the ring - a receive
    that fails (buffer too small, timeout) leaves both, so the descriptor stays readable while an event is unread"""
    f = ctx.prog.fn('qb_ipcc_event_recv')
    rbs = [st for st in f.events('STORE') if st.rhs is not None and callee_of(unwrap(st.rhs)) in ('qb_ipcc_funcs::recv', 'qb_ipc_funcs::recv') and 'event' in estr(st.rhs)]
    if not rbs:
        rbs = [st for st in f.events('STORE') if st.rhs is not None and (callee_of(unwrap(st.rhs)) or '').endswith('::recv') and 'event' in estr(st.rhs)]
    byt = [ev for ev in f.events() if (ev.kind == 'CALL' and ev.callee == 'qb_ipc_us_recv') and 'setup' in estr(ev.args[0])]
    if len(rbs) != 1 or not byt:
        raise AnalysisBroken('qb_ipcc_event_recv: ring receives=%d byte receives=%d' % (len(rbs), len(byt)))
    sz = estr(rbs[0].lhs)
    for b in byt:
        def got(at, fb):
            return at.ls == sz and ((at.op == '>' and at.rc == 0) or (at.op == '>=' and at.rc == 1))
        ok = f.may_follow(rbs[0], b) and not f.may_follow(b, rbs[0]) and f.uncut_path(b, got, start=('after', rbs[0])) is None
        ctx.check('R3', 'event_recv:byte-taken-only-with-the-event', ok, b,
                  'the wake-up byte is received only after the ring receive returned a message',
                  'the wake-up byte is taken off the socket although the event may still be in the ring (before the ring receive, or whatever it returned): after a receive into '
                  'a buffer that is too small, or one that timed out, the event is unread and the descriptor no longer readable')
