"""C13 - log line formatting bounded by the line limit, follows the format spec."""
from engine.qb import (AnalysisBroken, estr, unwrap, cval, walk, last_field, fields_of, callee_of, mentions_var,
                       atoms_of, root_var)
from engine.bounds import Analysis, Lin, State
from rules.common import field_is, has_call, derives, value_sources, macro_named

UNITS = ['lib/log_format.c', 'lib/log.c', 'lib/log_file.c', 'lib/log_syslog.c']
TECHNIQUE = ('static analysis: abstract interpretation over linear inequalities (symbolic capacity bounds, loop invariants by '
             'fixpoint, helper summaries verified by the same analysis) plus CFG cut-set / constant-agreement rules')
DECIDES = ('Decides that every store the formatters make into the output buffer, the scratch arrays and the helper destination is '
           'within the capacity the function is given (symbolic bounds analysis with loop invariants), that indices of the form x-k '
           'cannot underflow, that every caller provides the capacity the callee assumes, that the configured limit is validated on '
           'both sides, and the directive alphabet; textual equality with the documented output is not decided.')
RULES = {
    'R1': 'every store into a tabled destination (output_buffer/max_line_length, _strcpy_cutoff dest/buf_len, cs_format str/maxlen, scratch arrays) has index + width <= capacity entailed',
    'R2': 'no index underflow and no unsigned size wrap: x - k indices have x >= k, a - b sizes have b <= a',
    'R3': 'capacity agreement: every caller of the two formatters passes a buffer at least as large as the bound the callee uses (max(QB_LOG_MAX_LEN, max_line_length), QB_LOG_ABSOLUTE_MAX_LEN)',
    'R4': 'max_line_length is written only by qb_log_init (constant) and qb_log_ctl2 (guarded by a lower and an upper bound); the resulting invariant is what R1/R2 assume',
    'R5': 'directive alphabet: dynamic formatter n f l p t T b g, static formatter P N H; "-" and digits consumed before the switch; unknown letters take the default branch',
    'R6': 'qb_log_real_va_: the buffer handed to cs_format has the capacity passed as maxlen on the stack and the heap branch, and that capacity is never 0 (entailed at every cs_format call: with no target selected the default applies)',
    'R7': 'the format scan never steps over the format\'s terminator: the step that follows a directive is taken only if the character it steps over is not NUL',
    'R8': 'the formatted line is terminated at its write index: the terminating NUL is stored at output[idx] (not at an earlier position that later stores can overwrite) on every path',
    'R9': 'a width is whatever number the format gives (widths 0..large): the value handed to _strcpy_cutoff as the field width comes from a conversion that saturates (strtoul / strtoull), not from atoi / atol / strtol, whose result for a width beyond INT_MAX wraps - "%4294967301b" would cut the message to 5 characters',
    'R10': 'no state is carried from one directive to the next (= C14.R4, on the two line formatters): every local a directive sets (alignment flag, width) is set again before it is read in the next pass of the directive loop',
}
FLOORS = {'R10': 2, 'R1': 14, 'R2': 6, 'R3': 3, 'R4': 3, 'R5': 4, 'R6': 4, 'R7': 2, 'R8': 1, 'R9': 2}

MLL = 'max_line_length'      # canonical term of qb_log_target.max_line_length (engine.bounds.CANON_FIELDS)


def line_limit_invariant(ctx):
    """[lo, hi] of qb_log_target.max_line_length over all its writers (R4)"""
    prog = ctx.prog
    ws = prog.writers('max_line_length', 'qb_log_target')
    if not ws:
        raise AnalysisBroken('no writer of max_line_length')
    lo, hi = None, None
    ok_all = True
    for (f, ev) in ws:
        c = cval(unwrap(ev.rhs))
        if c is not None:
            l, h = c, c
            ctx.check('R4', 'writer:%s:constant' % f.name, f.name == 'qb_log_init' and c >= 4, ev, '%s stores the constant %d' % (f.name, c),
                      'max_line_length is stored as constant %d in %s' % (c, f.name))
        else:
            rs = estr(ev.rhs)
            g = [a for (a, _e) in f.guards_live(ev)]
            ls = [a.rc if a.op == '>=' else a.rc + 1 for a in g if a.ls == rs and a.op in ('>=', '>') and a.rc is not None]
            hs = [a.rc if a.op == '<=' else a.rc - 1 for a in g if a.ls == rs and a.op in ('<=', '<') and a.rc is not None]
            l = max(ls) if ls else None
            h = min(hs) if hs else None
            ctx.check('R4', 'writer:%s:lower-bound' % f.name, l is not None and l >= 4, ev, 'the new limit is checked >= %s' % l,
                      'max_line_length can be set without a lower bound (0 or negative values break every formatter invariant)')
            ctx.check('R4', 'writer:%s:upper-bound' % f.name, h is not None, ev, 'the new limit is checked <= %s' % h, 'max_line_length can be set without an upper bound')
            if l is None or h is None:
                ok_all = False
                l = l if l is not None else 0
                h = h if h is not None else 1 << 31
        lo = l if lo is None else min(lo, l)
        hi = h if hi is None else max(hi, h)
    return lo, hi


def strcpy_cutoff_summary(min_buf):
    def summ(an, ev, st):
        a = ev.args
        n = an.lin(a[4], st)
        an.check_nowrap(ev, a[4], st, '_strcpy_cutoff size')
        if n is None:
            an.oblige(ev, '_strcpy_cutoff:size-known', None, st, '_strcpy_cutoff called with a size the analysis cannot express: %s' % estr(a[4]))
            return
        an.check_write(ev, a[0], n, st, '_strcpy_cutoff(%s, ..., %s)' % (estr(a[0]), estr(a[4])))
        # the helper was verified under buf_len >= min_buf: the call must establish it
        an.oblige(ev, '_strcpy_cutoff:precondition', Lin(min_buf) - n, st, '_strcpy_cutoff needs buf_len >= %d here, %r is not entailed to be' % (min_buf, n))
    return summ


def apply_call_result(an, st, name, ev):
    """effect of  name = _strcpy_cutoff(..., buf_len):  0 <= name <= buf_len - 1"""
    r = unwrap(ev.rhs if ev.kind == 'STORE' else ev.d.get('init'))
    n = an.lin(r['args'][4], st)
    st.forget(name)
    st.add_le(0, Lin.term(name))
    if n is not None and name not in n.t:
        st.add_le(Lin.term(name), n - 1)


class FmtAnalysis(Analysis):
    """adds the helper's result contract at `len = _strcpy_cutoff(...)`"""

    def transfer(self, ev, st):
        if ev.kind in ('STORE', 'DECL'):
            rhs = ev.rhs if ev.kind == 'STORE' else ev.d.get('init')
            if rhs is not None and callee_of(unwrap(rhs)) == '_strcpy_cutoff' and (ev.kind == 'DECL' or (ev.d['op'] == '=' and unwrap(ev.lhs).get('k') == 'var')):
                name = ev.d['var'] if ev.kind == 'DECL' else unwrap(ev.lhs)['n']
                apply_call_result(self, st, name, ev)
                return
        super().transfer(ev, st)


def report(ctx, an, fname, rule_of=None):
    n = 0
    for (ev, key, text, ok) in an.obligations:
        rule = 'R2' if ('offset>=0' in key or 'no-wrap' in key) else 'R1'
        n += 1
        ctx.check(rule, '%s:%s' % (fname, key), ok, ev, 'entailed', text)
    return n


def run(ctx):
    _run(ctx)
    r10(ctx)


def r10(ctx):
    from rules import c14
    prog = ctx.prog
    c14.r4(ctx, prog.fn('qb_log_target_format'), prog.fn('qb_log_target_format_static'), rule='R10',
           example='a "-" flag or a width also applies to the directive after it: "%-8N|%8P" right-aligns the second field too')


def _run(ctx):
    prog = ctx.prog
    lo, hi = line_limit_invariant(ctx)
    ctx.note('line limit invariant: %s <= max_line_length <= %s' % (lo, hi))
    inv = [Lin(lo) - Lin.term(MLL), Lin.term(MLL) - Lin(hi)]
    # helper: _strcpy_cutoff, verified under buf_len >= 2 (what both call sites establish)
    MINBUF = 2
    h = prog.fn('_strcpy_cutoff')
    dest, blen = h.params[0]['n'], h.params[4]['n']
    an = Analysis(prog, h, {dest: Lin.term(blen)}, init=[Lin(MINBUF) - Lin.term(blen)]).run()
    n = report(ctx, an, '_strcpy_cutoff')
    if n < 4:
        raise AnalysisBroken('_strcpy_cutoff: only %d store obligations found' % n)
    rets = [(ev, st, v) for (ev, st, v) in an.returns]
    okr = bool(rets) and all(v is not None and st.entails_le(v, Lin.term(blen) - 1) and st.entails_le(0, v) for (ev, st, v) in rets)
    ctx.check('R1', '_strcpy_cutoff:returns<=buf_len-1', okr, h, 'the helper returns a length in [0, buf_len - 1] (contract used at its call sites)',
              'the helper can return more than buf_len - 1: the callers\' cursor leaves the buffer')
    # the two formatters
    for fname in ('qb_log_target_format', 'qb_log_target_format_static'):
        f = prog.fn(fname)
        outp = f.params[-1]['n']
        bufs = {outp: Lin.term(MLL)}
        for ev in f.events('DECL'):
            ti = prog.type_info(ev.d.get('ty', ''))
            if ti.get('kind') == 'array' and ti.get('n'):
                bufs[ev.d['var']] = Lin(ti['n'] * (ti.get('elem_bytes') or 1))
        an = FmtAnalysis(prog, f, bufs, init=inv, summaries={'_strcpy_cutoff': strcpy_cutoff_summary(MINBUF)}).run()
        n = report(ctx, an, fname)
        if n < 5:
            raise AnalysisBroken('%s: only %d store obligations found' % (fname, n))
        # the line limit field is not written here (it is a symbol of the analysis)
        ctx.check('R1', '%s:limit-not-modified' % fname, not list(f.stores(field='max_line_length')), f, 'the limit is constant during formatting', 'the limit is modified while formatting')
    # cs_format
    c = prog.fn('cs_format')
    sp, mp = c.params[0]['n'], c.params[1]['n']
    an = Analysis(prog, c, {sp: Lin.term(mp)}).run()
    report(ctx, an, 'cs_format')
    r3(ctx, lo, hi)
    r5(ctx)
    r6(ctx)
    r7(ctx)
    r8(ctx)
    r9(ctx)


def r3(ctx, lo, hi):
    prog = ctx.prog
    MAXLEN = None
    # callers of qb_log_target_format: buffer is a local array of QB_LOG_MAX_LEN or malloc(max_line_length) when the limit is larger
    for (g, ev) in prog.callers_of('qb_log_target_format'):
        buf = unwrap(ev.args[-1])
        ok = False
        why = ''
        if buf.get('k') == 'var':
            srcs, entry = value_sources(g, buf, ev)
            sizes = []
            for s in srcs:
                if s.get('k') == 'var':
                    ti = prog.type_info(s.get('ty', ''))
                    if ti.get('kind') == 'array':
                        sizes.append(('array', ti['n']))
                        continue
                if callee_of(s) == 'malloc':
                    sizes.append(('malloc', s['args'][0]))
                    continue
                sizes.append(('?', estr(s)))
            arr = [n for (k, n) in sizes if k == 'array']
            mal = [n for (k, n) in sizes if k == 'malloc']
            unk = [n for (k, n) in sizes if k == '?']
            # the heap branch must be taken whenever the limit exceeds the array
            heap_guard = False
            for st in g.events('STORE'):
                if st.rhs is not None and callee_of(unwrap(st.rhs)) == 'malloc' and estr(st.lhs) == buf['n']:
                    for (a, _e) in g.guards(st):
                        if field_is(a.l, 'max_line_length') and a.op == '>' and arr and a.rc is not None and a.rc <= arr[0]:
                            heap_guard = True
            ok = not unk and bool(arr) and bool(mal) and all(field_is(m, 'max_line_length') for m in mal) and heap_guard
            why = 'array %s / heap %s / switch at > array size: %s' % (arr, [estr(m) for m in mal], heap_guard)
        ctx.check('R3', 'caller:%s' % g.name, ok, ev, 'the output buffer is max(array, max_line_length) bytes (%s)' % why,
                  '%s passes an output buffer that can be smaller than max_line_length (%s)' % (g.name, why))
    for (g, ev) in prog.callers_of('qb_log_target_format_static'):
        buf = unwrap(ev.args[-1])
        ti = prog.type_info(buf.get('ty', '')) if buf.get('k') == 'var' else {}
        ok = ti.get('kind') == 'array' and ti.get('n', 0) >= hi
        ctx.check('R3', 'caller:%s' % g.name, ok, ev, 'the static-format buffer has %s bytes >= the largest line limit %s' % (ti.get('n'), hi),
                  '%s passes a %s-byte buffer but the formatter writes up to max_line_length (<= %s) bytes' % (g.name, ti.get('n'), hi))


def r5(ctx):
    prog = ctx.prog
    for (fname, want) in (('qb_log_target_format', set('nflptTbg')), ('qb_log_target_format_static', set('PNH'))):
        f = prog.fn(fname)
        sws = [b for b in f.blocks.values() if b.term == 'SwitchStmt']
        if len(sws) != 1:
            raise AnalysisBroken('%s: switch statements = %d' % (fname, len(sws)))
        cases = set()
        has_default = False
        for (t, lab) in sws[0].succs:
            if isinstance(lab, tuple) and lab[0] == 'case':
                cases |= {chr(v) for v in range(lab[1], lab[2] + 1)}
            elif lab == 'default':
                # an explicit default label exists if the target block is labelled; the CFG marks implicit fallthrough the same way,
                # so check there is a store to p on that path
                has_default = True
        ctx.check('R5', '%s:alphabet' % fname, cases == want, '%s:%d (%s)' % (f.file, sws[0].term_ln, fname),
                  'directives handled: %s' % ''.join(sorted(cases)), 'directive alphabet is %s, documented %s' % (''.join(sorted(cases)), ''.join(sorted(want))))
        # '-' and digits are consumed before the switch: blocks testing '-' (45) and isdigit dominate the switch
        dom = f.dom().get(sws[0].id, set())
        dash = [b for b in f.blocks.values() if b.cond is not None and any(cval(n) == 45 for n in walk(b.cond)) and b.id in dom]
        digits = [b for b in f.blocks.values() if b.cond is not None and (has_call(b.cond, 'isdigit') or '__ctype_b_loc' in estr(b.cond))]
        ctx.check('R5', '%s:flags-before-switch' % fname, bool(dash) and len(digits) >= 2, f, '"-" and the width digits are consumed before the directive letter is switched on',
                  '"-"/width handling before the switch is missing')
        # every path through the switch assigns p (the text to copy) before the copy helper
        cp = list(f.calls('_strcpy_cutoff'))
        ok = len(cp) == 1
        if ok:
            pv = unwrap(cp[0].args[1])
            defs, entry = f.reaching_defs(pv['n'], cp[0]) if pv.get('k') == 'var' else ([], True)
            ok = not entry and bool(defs)
        ctx.check('R5', '%s:every-letter-yields-text' % fname, ok, cp[0] if cp else f, 'every directive (including unknown letters) defines the text that is copied',
                  'some directive path reaches the copy with an unset text pointer')


def r6(ctx):
    prog = ctx.prog
    f = prog.fn('qb_log_real_va_')
    calls = list(f.calls('cs_format'))
    if len(calls) < 2:
        raise AnalysisBroken('qb_log_real_va_: cs_format calls = %d' % len(calls))
    for ev in calls:
        buf, cap = unwrap(ev.args[0]), unwrap(ev.args[1])
        srcs, entry = value_sources(f, buf, ev)
        arr = [prog.type_info(s.get('ty', '')).get('n') for s in srcs if s.get('k') == 'var' and prog.type_info(s.get('ty', '')).get('kind') == 'array']
        mal = [s['args'][0] for s in srcs if callee_of(s) == 'malloc']
        okh = all(estr(m) == estr(cap) for m in mal) and bool(mal)
        # stack branch: used only when cap <= array size: the malloc store is guarded by cap > N with N <= array size
        oks = False
        for st in f.events('STORE'):
            if st.rhs is not None and callee_of(unwrap(st.rhs)) == 'malloc':
                for (a, _e) in f.guards(st):
                    if a.ls == estr(cap) and a.op == '>' and arr and a.rc is not None and a.rc <= arr[0]:
                        oks = True
        ctx.check('R6', 'cs_format-buffer-capacity', okh and oks and len(arr) == 1, ev,
                  'cs_format gets max_line_length and a buffer of max(%s, max_line_length) bytes' % arr,
                  'the buffer handed to cs_format can be smaller than the maxlen passed (array %s, heap %s)' % (arr, [estr(m) for m in mal]))
    # the capacity is never 0: with no target selected the loop over the targets leaves it at its initial 0, vsnprintf(buf, 0, ..)
    # writes nothing and whoever gets the buffer (the old-style log function) reads an uninitialised string
    from engine.bounds import Analysis, Lin
    an = Analysis(prog, f, {}, init=[]).run()
    for ev in calls:
        if any(field_is(n, 'targets') for (a, _e) in f.guards(ev) for n in walk(a.l)):
            # formatted for a target that is enabled and selects the call site: the capacity is at least that target's limit
            # (capacity-is-max-over-targets below, limits >= 4 by R4)
            continue
        sts = an.states.get((ev.blk, ev.idx), [])
        capl = [an.lin(ev.args[1], st) for st in sts]
        okz = bool(sts) and all(c is not None and st.entails_le(1, c) for (c, st) in zip(capl, sts))
        ctx.check('R6', 'cs_format-capacity-not-zero', okz, ev, 'cs_format is given a capacity of at least 1',
                  'cs_format can be given a capacity of 0 (no enabled target wants the call site): nothing is formatted and the uninitialised stack buffer is '
                  'handed on - to the old-style log function for every libqb-tagged message')
    # the capacity variable is the maximum over the selected targets' limits
    cap = estr(unwrap(calls[0].args[1]))
    ups = [st for st in f.events('STORE') if estr(st.lhs) == cap and field_is(st.rhs, 'max_line_length')]
    ok = bool(ups) and all(any(a.ls.endswith('max_line_length') and a.op == '>' and a.rs == cap for (a, _e) in f.guards(st)) for st in ups)
    ctx.check('R6', 'capacity-is-max-over-targets', ok, ups[0] if ups else f, 'the message capacity is the largest limit among the selected targets',
              'the message capacity is not the maximum of the selected targets\' limits')


def r7(ctx):
    prog = ctx.prog
    for fname in ('qb_log_target_format', 'qb_log_target_format_static'):
        f = prog.fn(fname)
        cp = list(f.calls('_strcpy_cutoff'))
        if len(cp) != 1:
            raise AnalysisBroken('%s: copy calls = %d' % (fname, len(cp)))
        # the format index: the variable that indexes the format in the switch condition
        sws = [b for b in f.blocks.values() if b.term == 'SwitchStmt']
        if len(sws) != 1 or unwrap(sws[0].cond).get('k') != 'idx':
            raise AnalysisBroken('%s: directive switch not found' % fname)
        iv = estr(unwrap(sws[0].cond)['i'])
        fb_ = estr(unwrap(sws[0].cond)['b'])
        steps = [st for st in f.events('STORE') if estr(st.lhs) == iv and st.d['op'] in ('++', '+=') and f.may_follow(cp[0], st) and
                 not any(f.may_follow(st, cp[0]) and False for _ in [0])]
        # only the steps between the copy and the loop's back edge: those in the block(s) the copy reaches without re-entering the switch
        loops = f.natural_loops()
        hdrs = [h for h, b in loops.items() if cp[0].blk in b]
        if not hdrs:
            raise AnalysisBroken('%s: the copy is not in the scan loop' % fname)
        hdr = max(hdrs, key=lambda h: len(loops[h]))
        steps = [st for st in steps if f.search(('after', cp[0]), goal=lambda ev, st=st: ev.d is st.d,
                                                edge_filter=lambda fb, t, lab: t != hdr)[0]]
        if not steps:
            raise AnalysisBroken('%s: no step after the directive' % fname)

        def not_nul(a, fb):
            l = unwrap(a.l)
            return a.op == '!=' and a.rc == 0 and l.get('k') == 'idx' and estr(l['b']) == fb_ and estr(l['i']) == iv
        bad = [st for st in steps if f.uncut_path(st, not_nul, start=('after', cp[0])) is not None]
        ctx.check('R7', '%s:no-step-over-terminator' % fname, not bad, bad[0] if bad else steps[0],
                  'after a directive the scan advances only over a character that is not NUL',
                  'after a directive the scan advances unconditionally: a format that ends inside a directive ("...%%", "%%-", "%%12", or a stored format cut at the line limit) '
                  'is read beyond its terminator')


def r8(ctx):
    prog = ctx.prog
    f = prog.fn('qb_log_target_format')
    outp = f.params[-1]['n']
    nul = [st for st in f.events('STORE') if unwrap(st.lhs).get('k') == 'idx' and estr(unwrap(st.lhs)['b']) == outp and cval(unwrap(st.rhs)) == 0]
    if not nul:
        raise AnalysisBroken('qb_log_target_format: no terminator store')
    at_idx = [st for st in nul if unwrap(unwrap(st.lhs)['i']).get('k') == 'var']
    early = [st for st in nul if st not in at_idx]
    okp, _p = f.must_pass(('entry',), lambda ev: any(ev.d is st.d for st in at_idx)) if at_idx else (False, None)
    # the early returns before anything was formatted (no format set) are not lines: allow paths that write nothing to the output
    if not okp and at_idx:
        wr = [ev for ev in f.events() if (ev.kind == 'STORE' and unwrap(ev.lhs).get('k') == 'idx' and estr(unwrap(ev.lhs)['b']) == outp) or
              (ev.kind == 'CALL' and ev.callee == '_strcpy_cutoff')]
        _h, exits, _n = f.search(('entry',), stop=lambda ev: any(ev.d is st.d for st in at_idx), edge_filter=None)
        # an exit path that avoids the terminator must also avoid every write
        okp = all(not any(f.blocks[b].events and any(e2.d is w.d for e2 in f.blocks[b].events for w in wr) for b in (p or [])) for p in (exits or []))
    ctx.check('R8', 'terminated-at-write-index', okp and not early, (early or nul)[0],
              'the line is terminated by a NUL stored at output[write index]',
              'the terminating NUL is stored at an earlier position (%s) and the byte at the write index is left unset: the truncation mark, which is written '
              'up to the write index, overwrites that terminator and the line is not terminated within its buffer' % (estr(early[0].lhs) if early else 'not on every path'))


def r9(ctx):
    prog = ctx.prog
    n = 0
    for f in prog.all_fns(files={'lib/log_format.c'}):
        cuts = list(f.calls('_strcpy_cutoff'))
        if not cuts:
            continue
        wv = {estr(unwrap(ev.args[2])) for ev in cuts if unwrap(ev.args[2]).get('k') == 'var'}
        for st in f.events('STORE'):
            if estr(st.lhs) in wv and st.rhs is not None and unwrap(st.rhs).get('k') == 'call':
                c = callee_of(unwrap(st.rhs))
                n += 1
                ctx.check('R9', '%s:width-conversion-saturates' % f.name, c in ('strtoul', 'strtoull', 'strtoumax'), st,
                          'the field width is read with %s' % c,
                          'the field width is read with %s: a width beyond INT_MAX (LONG_MAX) is undefined / wraps instead of being a large width' % c)
    if n < 2:
        raise AnalysisBroken('R9: %d width conversions found in the two formatters' % n)
