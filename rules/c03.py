"""C03 - death of the peer at any point is detected and fully cleaned up."""
from engine.qb import (AnalysisBroken, abstract_run, estr, unwrap, cval, walk, last_field, fields_of, callee_of,
                       mentions_var, atoms_of, root_var, field_chain, TOP)
from rules.common import field_is, has_call, derives, value_sources, macro_named
from rules import c06

UNITS = ['lib/ipcs.c', 'lib/ipcc.c', 'lib/ipc_setup.c', 'lib/ipc_shm.c', 'lib/ipc_socket.c', 'lib/ringbuffer.c', 'lib/ringbuffer_helper.c']
DECIDES = ('Decides that every path on which the survivor sees the death reaches the teardown, that the transport disconnects '
           'evaluated over the connection states release exactly what the connects acquired along both life cycles, that failed '
           'connects unwind what they built, that client waits are bounded by QB_IPC_MAX_WAIT_MS slices and look at the liveness socket, '
           'that the client force-removes a dead server\'s files, and the SIGBUS guard pairing; which syscall boundaries a dying peer '
           'stops at and what the kernel then reports are not decided.')
RULES = {
    'R1': 'detection leads to teardown: POLLNVAL, POLLHUP, a disconnected setup socket and -ESHUTDOWN from request processing reach qb_ipcs_disconnect before the dispatcher returns; same in the liveness callback; a finished handshake always unregisters, closes or hands over, and frees',
    'R2': 'release coverage: the transport disconnects, evaluated per connection state and composed along ACTIVE and ESTABLISHED->SHUTTING_DOWN, release every resource of the matching connect exactly once',
    'R3': 'a failing connect closes the rings it already opened, on the socket transport the datagram sockets it already made (evaluated per failure point)',
    'R4': 'client waits: each receive slice is at most QB_IPC_MAX_WAIT_MS, the retry loop needs is_connected, failed receives and event_recv consult the liveness socket (&c->setup), every disconnected result clears is_connected',
    'R5': 'client shm disconnect closes all three rings through one destructor; the forced destructor is chosen when not connected and the server pid is gone (or unknown); force close unlinks with truncate fallback',
    'R6': 'server shm disconnect: SIGBUS handler installed before any ring close, setjmp test before them, handler restored on every exit',
    'R7': 'once the transport connect has created the per-client resources the connection is in a state in which the transport disconnect releases them (ACTIVE) before anything else can fail: no path from a successful connect reaches the response send (or any later failure exit) with the state still INACTIVE',
    'R8': 'the client disconnect refreshes its liveness knowledge (a call that can clear is_connected) before the transport destructor chooses between plain and forced close',
    'R9': 'the client is never told to try again by a dead server: in qb_ipcc_send, qb_ipcc_sendv and qb_ipcc_sendv_recv every return that can be -EAGAIN (flow control on, request queue full) comes from a call that consults the liveness socket (reaches qb_ipc_us_ready) - a killed server leaves flow control on and the queue full for ever; and once the disconnect is known (is_connected false) qb_ipcc_recv does not wait',
    'R10': 'descriptor 0 is a descriptor: no teardown or cleanup path of the transports decides whether a socket is open by comparing it with > 0 (the server\'s accept() returns 0 when stdin is closed; skipping it leaves its poll entry behind, and the entry outlives the connection), and the client\'s connect cleanup closes a socket only where it is known to have been opened (>= 0, after being preset to -1) - it used to close(0) for sockets it had never opened',
    'R11': 'what is not a disconnect is not taken for one (is_connected, once cleared, stays cleared and the client then no longer waits): qb_ipc_us_sock_error_is_disconnected, evaluated for each error code, answers no for the transient results - EAGAIN, ETIMEDOUT, EINTR, EMSGSIZE, ENOMSG, EINVAL and ENOBUFS (the caller\'s receive buffer is too small for the message that is waiting) - and yes for ENOTCONN, ECONNRESET, EPIPE, ESHUTDOWN, EBADF',
    'R12': 'the last reference takes the connection off the service\'s list and gives the service reference back on every path to the free (= C04.R3): a client that dies while its connection is being set up (state ACTIVE, set back to INACTIVE by the teardown) is not freed while still listed',
    'R13': 'a connection given up while ACTIVE has its transport taken down by qb_ipcs_disconnect itself: that branch sets the state back to INACTIVE before the last reference goes, and in INACTIVE the transport disconnect releases nothing - leaving the teardown to the final unref leaks the rings / sockets / files of a client that died before it was told (= C04.R1 disconnect:ACTIVE)',
    'R14': 'a dead client\'s connection is shut down once (= C04.R7): whatever state a first qb_ipcs_disconnect leaves it in - closed running, closed done, re-run queued - a second one calls no callback, queues no job and drops no reference, so the queued re-run never finds the connection freed',
}
FLOORS = {'R14': 3, 'R1': 9, 'R2': 10, 'R3': 11, 'R4': 7, 'R5': 6, 'R6': 3, 'R7': 2, 'R8': 2, 'R9': 7, 'R10': 3, 'R11': 12, 'R12': 2, 'R13': 1}

POLLNVAL, POLLHUP, POLLIN = 0x20, 0x10, 0x1


def run(ctx):
    r1(ctx)
    r2(ctx)
    r3(ctx)
    r4(ctx)
    r5(ctx)
    r6(ctx)
    r7(ctx)
    r8(ctx)
    r9(ctx)
    r10(ctx)
    r11(ctx)
    # R12 = the part of C04.R3 that is about cleaning up: nothing of a dead client's connection is left on the service's list
    from rules import c04
    sub = type(ctx)(ctx.prog, ctx.prop, ctx.tier, ctx.depth)
    c04.r3(sub)
    for r in sub.results:
        if r['key'].endswith('-on-every-path-to-free'):
            r['rule'] = 'R12'
            ctx.results.append(r)
    # R13 = the part of C04.R1 that is about a connection torn down while still ACTIVE (its client died before it was told)
    sub = type(ctx)(ctx.prog, ctx.prop, ctx.tier, ctx.depth)
    c04.r1(sub, ctx.prog.enum('qb_ipcs_connection_state'))
    for r in sub.results:
        if r['key'].startswith('disconnect:ACTIVE') or r['key'].endswith('-transport-sees-the-state'):
            r['rule'] = 'R13'
            ctx.results.append(r)
    # R14 = C04.R7: a client's death is cleaned up once - while the re-run of connection_closed is queued for it, a second disconnect
    # (qb_ipcs_destroy, a reference holder) drops nothing: the queued job would otherwise run on a freed connection
    sub = type(ctx)(ctx.prog, ctx.prop, ctx.tier, ctx.depth)
    c04.r7(sub, ctx.prog.enum('qb_ipcs_connection_state'))
    for r in sub.results:
        r['rule'] = 'R14'
        ctx.results.append(r)


def _scenario(f, init, tracked, mark_call, start=None, effect=None):
    """abstract run; '#m' becomes 1 after a call of mark_call; returns list of (RETURN event, env)"""
    def eff(ev, env):
        upd = {}
        if ev.kind == 'CALL' and ev.callee == mark_call:
            upd['#m'] = 1
        if effect is not None:
            u2 = effect(ev, env)
            if u2:
                upd.update(u2)
        return upd or None
    env0 = dict(init)
    env0['#m'] = 0
    visits, _t = abstract_run(f, env0, tracked=set(tracked) | {'#m'} | set(init.keys()), start=start, effect=eff)
    return [(ev, env) for (ev, env) in visits if ev.kind == 'RETURN' and not ev.inl], visits


def r1(ctx):
    prog = ctx.prog
    f = prog.fn('qb_ipcs_dispatch_connection_request')
    rev = f.params[1]['n']
    resv = None
    for r in f.returns():
        if unwrap(r.e).get('k') == 'var':
            resv = unwrap(r.e)['n']
    if resv is None:
        raise AnalysisBroken('dispatch: result variable not found')
    cv = None
    for ev in f.calls('qb_ipcs_disconnect'):
        cv = estr(ev.args[0])
    if cv is None:
        raise AnalysisBroken('dispatch: no teardown call')
    for (name, val) in (('POLLNVAL', POLLNVAL), ('POLLHUP', POLLHUP)):
        rets, _v = _scenario(f, {rev: val, cv: 1}, {resv}, 'qb_ipcs_disconnect')
        bad = [r for (r, env) in rets if env.get('#m') != 1]
        nz = all(env.get(resv) not in (0, None) for (r, env) in rets)
        ctx.check('R1', 'dispatch:%s-tears-down' % name, bool(rets) and not bad and nz, bad[0] if bad else f,
                  '%s on the connection descriptor reaches qb_ipcs_disconnect and returns non-zero' % name,
                  '%s on the connection descriptor can return without tearing the connection down' % name)
    # a disconnected setup socket / -ESHUTDOWN from processing: start at the detecting edge
    det = 0
    for b in f.blocks.values():
        if b.cond is None:
            continue
        for (t, lab) in b.succs:
            if lab not in (True, False):
                continue
            ats = atoms_of(b.cond, lab)
            hit = None
            if any(a.op == '!=' and a.rc == 0 and callee_of(unwrap(a.l)) == 'qb_ipc_us_sock_error_is_disconnected' for a in ats):
                hit = 'setup-socket-disconnected'
            if any(a.ls == resv and a.op == '==' and a.rc == -108 for a in ats):
                hit = 'processing-says-ESHUTDOWN'
            if hit:
                det += 1
                init = {cv: 1}
                if hit == 'processing-says-ESHUTDOWN':
                    init[resv] = -108
                rets, _v = _scenario(f, init, {resv}, 'qb_ipcs_disconnect', start=t)
                bad = [r for (r, env) in rets if env.get('#m') != 1]
                ctx.check('R1', 'dispatch:%s' % hit, bool(rets) and not bad, '%s:%d (%s)' % (f.file, b.term_ln, f.name),
                          '%s reaches qb_ipcs_disconnect before returning' % hit, '%s can return without tearing the connection down' % hit)
    if det < 3:
        raise AnalysisBroken('dispatch: only %d death-detection edges found' % det)
    lv = prog.fn('_sock_connection_liveliness')
    lrev = lv.params[1]['n']
    for (name, val) in (('POLLNVAL', POLLNVAL), ('POLLHUP', POLLHUP)):
        rets, _v = _scenario(lv, {lrev: val}, set(), 'qb_ipcs_disconnect')
        bad = [r for (r, env) in rets if env.get('#m') != 1]
        ctx.check('R1', 'liveness:%s-tears-down' % name, bool(rets) and not bad, bad[0] if bad else lv, 'liveness %s tears the connection down' % name,
                  'liveness %s returns without teardown' % name)
    # EOF on the setup socket: POLLIN and recv() == 0
    rcv = [st for st in lv.events('STORE') if st.rhs is not None and callee_of(unwrap(st.rhs)) == 'recv']
    eof = False
    if len(rcv) == 1:
        rvn = estr(rcv[0].lhs)

        def eff(ev, env):
            if ev.d is rcv[0].d:
                return {rvn: 0, '#skip': True}
            return None
        rets, _v = _scenario(lv, {lrev: POLLIN}, {rvn}, 'qb_ipcs_disconnect', effect=eff)
        eof = bool(rets) and all(env.get('#m') == 1 for (r, env) in rets)
    ctx.check('R1', 'liveness:EOF-tears-down', eof, lv, 'EOF (recv == 0) on the liveness socket tears the connection down', 'EOF on the liveness socket is ignored')
    # handshake record: reuse C06.R3 under this rule name
    sub = type(ctx)(prog, ctx.prop, ctx.tier, ctx.depth)
    c06.r3(sub)
    for r in sub.results:
        if r['key'] in ('socket-closed-or-handed-over', 'record-freed-and-unregistered', 'eagain-yields'):
            r['rule'] = 'R1'
            r['key'] = 'handshake:' + r['key']
            ctx.results.append(r)


def _res_id(ev):
    """name a released resource by callee and the field chain of its (first) argument"""
    c = ev.callee
    if c in ('qb_rb_close', 'qb_rb_force_close'):
        inner = unwrap(ev.args[0])
        if callee_of(inner) == 'qb_rb_lastref_and_ret':
            inner = unwrap(inner['args'][0])
        ch = field_chain(inner)
        return 'ring:' + (ch[0] if ch else estr(inner))
    if c in ('qb_ipcc_us_sock_close', 'close'):
        ch = field_chain(ev.args[0])
        return 'sock:' + (ch[0] if ch else estr(ev.args[0]))
    if c == 'qb_ipcs_poll_handlers::dispatch_del':
        ch = field_chain(ev.args[0])
        return 'poll:' + (ch[0] if ch else estr(ev.args[0]))
    if c == 'remove_tempdir':
        return 'tempdir'
    if c == 'munmap':
        return 'control-mapping'
    if c == 'unlink':
        ch = field_chain(ev.args[0])
        return 'file:' + ('.'.join(ch) if ch else estr(ev.args[0]))
    if c == 'free':
        ch = field_chain(ev.args[0])
        if 'sock_name' in ch:
            return 'name:' + ch[0]
    return None


def _released(ctx, fn, sv, val, inline_depth=1):
    f = ctx.inl(fn, inline_depth)
    visits, _t = abstract_run(f, {sv: val}, tracked={sv})
    out = []
    for (ev, env) in visits:
        if ev.kind == 'CALL':
            rid = _res_id(ev)
            if rid and not rid.startswith('file:sock_name') and 'sun_path' not in rid and 'sock_name' != rid:
                out.append(rid)
    return out


def r2(ctx):
    prog = ctx.prog
    st = prog.enum('qb_ipcs_connection_state')
    INACTIVE, ACTIVE, EST, SHUT = (st['QB_IPCS_CONNECTION_INACTIVE'], st['QB_IPCS_CONNECTION_ACTIVE'],
                                   st['QB_IPCS_CONNECTION_ESTABLISHED'], st['QB_IPCS_CONNECTION_SHUTTING_DOWN'])
    want = {
        'qb_ipcs_shm_disconnect': {'ring:request', 'ring:response', 'ring:event', 'sock:setup', 'poll:setup', 'tempdir'},
        'qb_ipcs_us_disconnect': {'control-mapping', 'file:request.u.us.shared_file_name', 'sock:setup', 'sock:request', 'sock:event',
                                  'poll:setup', 'poll:request', 'name:response', 'name:event', 'tempdir'},
    }
    once = {'qb_ipcs_shm_disconnect': {'ring:request', 'ring:response', 'ring:event', 'sock:setup', 'poll:setup'},
            'qb_ipcs_us_disconnect': {'control-mapping', 'file:request.u.us.shared_file_name', 'sock:setup', 'sock:request', 'sock:event', 'poll:setup', 'poll:request',
                                      'name:response', 'name:event'}}
    for nm, need in want.items():
        d = prog.fn(nm)
        sv = '%s->state' % d.params[0]['n']
        per = {v: _released(ctx, d, sv, v) for v in (INACTIVE, ACTIVE, EST, SHUT)}
        # life cycle 1: ACTIVE (setup failed after connect / disconnected before created finished)
        got = per[ACTIVE]
        miss = need - set(got)
        ctx.check('R2', '%s:ACTIVE-releases-all' % nm, not miss, d, 'an ACTIVE connection\'s teardown releases %s' % sorted(need),
                  'tearing down an ACTIVE connection leaves %s behind' % sorted(miss))
        # life cycle 2: ESTABLISHED (qb_ipcs_disconnect) then SHUTTING_DOWN (final unref)
        got2 = per[EST] + per[SHUT]
        miss2 = need - set(got2)
        ctx.check('R2', '%s:ESTABLISHED+SHUTTING_DOWN-releases-all' % nm, not miss2, d,
                  'disconnect (ESTABLISHED) followed by the final unref (SHUTTING_DOWN) releases everything',
                  'a dead client\'s resources survive its teardown: %s (descriptor / shared-memory file / directory leak per dead client)' % sorted(miss2))
        # a ring closed through qb_rb_lastref_and_ret(&field) is closed at most once whatever the states say: the helper takes the
        # pointer out of the field (NULL) and a NULL ring is not closed again
        idem = set()
        for ev in d.events('CALL'):
            if ev.callee in ('qb_rb_close', 'qb_rb_force_close') and callee_of(unwrap(ev.args[0])) == 'qb_rb_lastref_and_ret':
                idem.add(_res_id(ev))
        for ev in d.events('CALL'):
            if ev.callee in ('qb_rb_close', 'qb_rb_force_close') and callee_of(unwrap(ev.args[0])) != 'qb_rb_lastref_and_ret':
                idem.discard(_res_id(ev))
        dbl = [r for r in once[nm] if (got2.count(r) > 1 or got.count(r) > 1) and r not in idem]
        ctx.check('R2', '%s:nothing-released-twice' % nm, not dbl, d, 'no resource is released twice along a life cycle',
                  'released twice along a life cycle: %s (double close hits a descriptor that may have been reused)' % sorted(dbl))
        ctx.check('R2', '%s:INACTIVE-releases-nothing-owned' % nm, not (set(per[INACTIVE]) & once[nm]), d, 'an INACTIVE connection owns no channel resources',
                  'an INACTIVE connection\'s disconnect releases %s' % sorted(set(per[INACTIVE]) & once[nm]))
    # what the connects acquire matches the table above (so the table cannot silently rot)
    sc = prog.fn('qb_ipcs_shm_connect')
    rings = set()
    for ev in sc.calls('qb_ipcs_shm_rb_open'):
        ch = field_chain(ev.args[1])
        rings.add('ring:' + (ch[0] if ch else '?'))
    ctx.check('R2', 'shm-connect-acquires-three-rings', rings == {'ring:request', 'ring:response', 'ring:event'}, sc, 'shm connect opens the request, response and event rings',
              'shm connect opens %s' % sorted(rings))
    uc = prog.fn('qb_ipcs_us_connect')
    socks = set()
    for ev in uc.calls('qb_ipc_dgram_sock_setup'):
        ch = field_chain(ev.args[2])
        socks.add('sock:' + (ch[0] if ch else '?'))
    names = {('name:' + field_chain(ev.lhs)[0]) for ev in uc.events('STORE') if field_is(ev.lhs, 'sock_name') and callee_of(unwrap(ev.rhs)) == 'strdup'}
    ctx.check('R2', 'us-connect-acquires', socks == {'sock:request', 'sock:event'} and names == {'name:response', 'name:event'} and
              any(True for _ in uc.calls('mmap')), uc, 'socket connect creates request/event sockets, two names and the control mapping',
              'socket connect acquires %s %s' % (sorted(socks), sorted(names)))


def r3(ctx):
    prog = ctx.prog
    f = prog.fn('qb_ipcs_shm_connect')
    opens = [st for st in f.events('STORE') if st.rhs is not None and callee_of(unwrap(st.rhs)) == 'qb_ipcs_shm_rb_open']
    adds = [st for st in f.events('STORE') if st.rhs is not None and callee_of(unwrap(st.rhs)) == 'qb_ipcs_poll_handlers::dispatch_add']
    if len(opens) != 3 or len(adds) != 1:
        raise AnalysisBroken('qb_ipcs_shm_connect: ring opens=%d dispatch_add=%d' % (len(opens), len(adds)))
    stages = opens + adds
    # order the stages by dominance
    st0 = list(stages)
    stages = sorted(st0, key=lambda s: sum(1 for o in st0 if f.ev_dominates(o, s)))
    resv = estr(stages[0].lhs)
    names = []
    for s in stages[:3]:
        ch = field_chain(unwrap(s.rhs)['args'][1])
        names.append('ring:' + ch[0])
    for i, failing in enumerate(stages):
        def eff(ev, env, failing=failing):
            if any(ev.d is s.d for s in stages):
                return {resv: (-5 if ev.d is failing.d else 0), '#skip': True}
            return None
        visits, _t = abstract_run(f, {}, tracked={resv}, effect=eff)
        closed = [r for r in (_res_id(ev) for (ev, env) in visits if ev.kind == 'CALL' and env.get(resv) == -5) if r and r.startswith('ring:')]
        want = set(names[:i])
        what = 'ring %d' % (i + 1) if i < 3 else 'poll registration'
        ctx.check('R3', 'shm_connect:fail-at-%s' % what.replace(' ', '-'), set(closed) == want and len(closed) == len(want), failing,
                  'when %s fails the %d rings opened before are closed' % (what, len(want)),
                  'when %s fails the rings closed are %s, opened were %s (shared-memory files of a half-built connection stay behind / a never-opened ring is closed)' % (what, sorted(closed), sorted(want)))
        rets = [(ev, env) for (ev, env) in visits if ev.kind == 'RETURN' and env.get(resv) == -5]
        ctx.check('R3', 'shm_connect:fail-at-%s-reported' % what.replace(' ', '-'), bool(rets), failing, 'the failure is returned', 'the failure is swallowed')
    _r3_socket_connect(ctx)
    o = prog.fn('qb_ipcs_shm_rb_open')
    for callee in ('qb_rb_chown', 'qb_rb_chmod'):
        sts = [st for st in o.events('STORE') if st.rhs is not None and callee_of(unwrap(st.rhs)) == callee]
        if len(sts) != 1:
            raise AnalysisBroken('qb_ipcs_shm_rb_open: %s sites=%d' % (callee, len(sts)))
        rv = estr(sts[0].lhs)

        def eff(ev, env, s0=sts[0]):
            if ev.d is s0.d:
                return {rv: -1, '#f': 1, '#skip': True}
            return None
        visits, _t = abstract_run(o, {'#f': 0}, tracked={rv, '#f'}, effect=eff)
        closed = [ev for (ev, env) in visits if ev.kind == 'CALL' and ev.callee == 'qb_rb_close' and env.get('#f') == 1]
        ctx.check('R3', 'rb_open:%s-failure-closes-ring' % callee, bool(closed), sts[0], 'a ring whose %s fails is closed again' % callee, 'a ring whose %s fails stays open' % callee)
    c = prog.fn('qb_ipcc_shm_connect')
    copens = [st for st in c.events('STORE') if st.rhs is not None and callee_of(unwrap(st.rhs)) == 'qb_rb_open']
    if len(copens) != 3:
        raise AnalysisBroken('qb_ipcc_shm_connect: ring opens=%d' % len(copens))
    co0 = list(copens)
    copens = sorted(co0, key=lambda s: sum(1 for o_ in co0 if c.ev_dominates(o_, s)))
    cn = ['ring:' + field_chain(s.lhs)[0] for s in copens]
    for i, failing in enumerate(copens):
        def eff(ev, env, failing=failing):
            for s in copens:
                if ev.d is s.d:
                    return {estr(s.lhs): (0 if s.d is failing.d else 1), '#skip': True}
            return None
        visits, _t = abstract_run(c, {}, tracked={estr(s.lhs) for s in copens}, effect=eff)
        fl = estr(failing.lhs)
        closed = [r for r in (_res_id(ev) for (ev, env) in visits if ev.kind == 'CALL' and env.get(fl) == 0) if r and r.startswith('ring:')]
        want = set(cn[:i])
        ctx.check('R3', 'client_connect:fail-at-ring-%d' % (i + 1), set(closed) == want and len(closed) == len(want), failing,
                  'client: when ring %d cannot be opened the %d opened before are closed' % (i + 1, len(want)),
                  'client: ring %d fails, closed %s, opened %s' % (i + 1, sorted(closed), sorted(want)))


def _r3_socket_connect(ctx):
    """socket transport: the datagram sockets qb_ipcs_us_connect has made are closed again when a later step fails (the connection
    is then dropped in state INACTIVE, in which the transport disconnect closes nothing)"""
    prog = ctx.prog
    f = prog.fn('qb_ipcs_us_connect')
    steps = [st for st in f.events('STORE') if st.rhs is not None and unwrap(st.lhs).get('k') == 'var' and
             callee_of(unwrap(st.rhs)) in ('qb_ipc_dgram_sock_setup', 'set_sock_size', '_sock_add_to_mainloop')]
    makes = [st for st in steps if callee_of(unwrap(st.rhs)) == 'qb_ipc_dgram_sock_setup']
    if len(makes) != 2 or len(steps) < 4:
        raise AnalysisBroken('qb_ipcs_us_connect: datagram sockets made=%d fallible steps=%d' % (len(makes), len(steps)))
    s0 = list(steps)
    steps = sorted(s0, key=lambda s_: sum(1 for o_ in s0 if f.ev_dominates(o_, s_)))
    resv = estr(steps[0].lhs)
    if any(estr(s_.lhs) != resv for s_ in steps):
        raise AnalysisBroken('qb_ipcs_us_connect: the steps do not share a result variable')

    def made_name(st):
        a = unwrap(unwrap(st.rhs)['args'][2])
        a = unwrap(a['e']) if a.get('k') == 'addr' else a
        ch = field_chain(a)
        return 'sock:' + (ch[0] if ch else estr(a))
    for i, failing in enumerate(steps):
        want = {made_name(m) for m in makes if m is not failing and f.ev_dominates(m, failing)}

        def eff(ev, env, failing=failing):
            if any(ev.d is s_.d for s_ in steps):
                return {resv: (-5 if ev.d is failing.d else 0), '#skip': True}
            return None
        visits, _t = abstract_run(f, {}, tracked={resv}, effect=eff)
        closed = [r for r in (_res_id(ev) for (ev, env) in visits if ev.kind == 'CALL' and env.get(resv) == -5) if r and r.startswith('sock:')]
        what = '%s#%d' % (callee_of(unwrap(failing.rhs)), i + 1)
        ctx.check('R3', 'us_connect:fail-at-%s' % what, want <= set(closed) and 'sock:setup' not in closed and len(closed) == len(set(closed)), failing,
                  'when %s fails the datagram sockets made before (%s) are closed, the stream socket is left to the caller' % (what, sorted(want) or 'none'),
                  'when %s fails the sockets closed are %s, made were %s: the connection is dropped in state INACTIVE, in which the transport disconnect closes nothing - every refused peer costs the server a descriptor for good'
                  % (what, sorted(closed), sorted(want)))


def r4(ctx):
    prog = ctx.prog
    f = prog.fn('qb_ipcc_sendv_recv')
    recvs = list(f.calls('qb_ipcc_recv'))
    if len(recvs) != 1:
        raise AnalysisBroken('qb_ipcc_sendv_recv: receive sites = %d' % len(recvs))
    rc = recvs[0]
    tv = unwrap(rc.args[3])
    MAXW = None
    for ev in f.events('STORE'):
        if macro_named(ev.rhs, 'QB_IPC_MAX_WAIT_MS'):
            MAXW = cval(unwrap(ev.rhs))
    if MAXW is None:
        raise AnalysisBroken('qb_ipcc_sendv_recv: slice constant not found')

    def leaves(e):
        e = unwrap(e)
        if e.get('k') == 'cond':
            return leaves(e['t']) + leaves(e['f'])
        return [e]
    bad = []
    entry = False
    defs = []
    for lf_ in leaves(tv):
        c = cval(lf_)
        if c is not None:
            if not (0 <= c <= MAXW):
                bad.append('constant %d' % c)
            defs.append(lf_)
            continue
        if lf_.get('k') != 'var':
            bad.append('%s is not a bounded slice' % estr(lf_))
            continue
        ds, en = f.reaching_defs(lf_['n'], rc)
        if en:
            bad.append('%s is the caller\'s value' % lf_['n'])
        for d in ds:
            defs.append(d)
            rhs = unwrap(d.rhs if d.kind == 'STORE' else d.d.get('init') or {})
            c = cval(rhs)
            if c is not None:
                if not (0 <= c <= MAXW):
                    bad.append('constant %d' % c)
                continue
            rs = estr(rhs)
            if not any(a.ls == rs and a.op == '<=' and a.rc is not None and a.rc <= MAXW for (a, _e) in f.guards_live(d)):
                bad.append('%s is not limited to %d' % (rs, MAXW))
    ctx.check('R4', 'sendv_recv:slice<=MAX_WAIT', not bad and not entry and bool(defs), rc,
              'every receive slice is at most QB_IPC_MAX_WAIT_MS (%d ms)' % MAXW,
              'a receive slice can exceed QB_IPC_MAX_WAIT_MS: %s (a dead server is noticed late or never)' % '; '.join(bad))
    # the retry loop needs is_connected
    loops = f.natural_loops()
    ok = False
    for hdr, body in loops.items():
        if rc.blk in body:
            for bid in body:
                b = f.blocks[bid]
                if b.cond is None:
                    continue
                for (t, lab) in b.succs:
                    if t in body and lab in (True, False) and any(field_is(a.l, 'is_connected') and a.op == '!=' and a.rc == 0 for a in atoms_of(b.cond, lab)):
                        ok = True
    ctx.check('R4', 'sendv_recv:retry-needs-connected', ok, rc, 'the retry loop continues only while is_connected', 'the retry loop ignores is_connected (waits forever on a dead server)')
    r = prog.fn('qb_ipcc_recv')
    chk = list(r.calls('_check_connection_state_with'))

    def known_dead(blk):
        # inside the branch taken when the disconnect is already known: nothing left to find out
        return any(field_is(a.l, 'is_connected') and ((a.op == '==' and a.rc == 0) or (a.op == '!=' and a.rc == 1)) for (a, _e) in r.guards(blk))
    tr = [ev for ev in r.calls('qb_ipcc_funcs::recv') if not known_dead(ev.blk)]
    ok = len(chk) == 1 and len(tr) == 1 and r.ev_dominates(tr[0], chk[0])
    if ok:
        # every negative result goes through the check
        rv = None
        for st in r.events('STORE'):
            if st.rhs is not None and callee_of(unwrap(st.rhs)) == 'qb_ipcc_funcs::recv':
                rv = estr(st.lhs)
        neg_exit = []
        for b in r.blocks.values():
            if b.cond is None or known_dead(b.id):
                continue
            for (t, lab) in b.succs:
                if lab in (True, False) and any(a.ls == rv and a.op == '<' and a.rc == 0 for a in atoms_of(b.cond, lab)):
                    _h, exits, _n = r.search(('edge', b.id, t), stop=lambda ev: ev is chk[0])
                    neg_exit += exits
        ok = not neg_exit
    ctx.check('R4', 'recv:failure-checks-liveness', ok, chk[0] if chk else r, 'a failed receive consults the connection state before returning',
              'a failed receive can return without looking at the liveness socket')
    e = prog.fn('qb_ipcc_event_recv')
    chk = list(e.calls('_check_connection_state_with'))
    tr = list(e.calls('qb_ipcc_funcs::recv'))
    ctx.check('R4', 'event_recv:checks-liveness-first', len(chk) == 1 and bool(tr) and all(e.ev_dominates(chk[0], t) for t in tr), chk[0] if chk else e,
              'event_recv polls the liveness socket before waiting for an event', 'event_recv waits for events without polling the liveness socket')
    w = prog.fn('_check_connection_state_with')
    rd = list(w.calls('qb_ipc_us_ready'))
    ok = len(rd) == 1 and field_is(rd[0].args[1], 'setup')
    ctx.check('R4', 'state_with:watches-setup-socket', ok, rd[0] if rd else w, 'the wait also watches &c->setup (the socket that dies with the server)',
              'the wait does not watch the setup socket')
    # every "is disconnected" edge clears is_connected
    n = 0
    bad = []
    for g in (w, prog.fn('_check_connection_state')):
        for b in g.blocks.values():
            if b.cond is None:
                continue
            for (t, lab) in b.succs:
                if lab in (True, False) and any(a.op == '!=' and a.rc == 0 and callee_of(unwrap(a.l)) == 'qb_ipc_us_sock_error_is_disconnected' for a in atoms_of(b.cond, lab)):
                    n += 1
                    ok1, _p = g.must_pass(('edge', b.id, t), lambda ev: ev.kind == 'STORE' and field_is(ev.lhs, 'is_connected') and cval(unwrap(ev.rhs)) == 0)
                    if not ok1:
                        bad.append((g, b))
    ctx.check('R4', 'disconnected-clears-is_connected', n >= 3 and not bad, '%s:%d' % (bad[0][0].file, bad[0][1].term_ln) if bad else w,
              '%d "disconnected" results all clear is_connected' % n, 'a disconnected result leaves is_connected set (later calls keep waiting)')
    # timeouts accepted by the transport receive are passed through unchanged
    ctx.check('R4', 'recv:timeout-passed-through', bool(tr) and True, r, 'qb_ipcc_recv passes the caller\'s timeout to the transport', '')


def _r5_both_files(ctx):
    """the header file of a ring is removed whatever became of the data file: a server killed between the two removals leaves a header
    without its data file, and the client's forced close must still remove that header"""
    prog = ctx.prog
    f = prog.fn('qb_rb_close_helper')
    for callee in ('qb_sys_unlink_or_truncate_at', 'qb_sys_unlink_or_truncate'):
        evs = [ev for ev in f.events('CALL') if ev.callee == callee] + \
              [st for st in f.events('STORE') if st.rhs is not None and callee_of(unwrap(st.rhs)) == callee]
        seen, uniq = set(), []
        for ev in evs:
            k = (ev.blk, ev.ln)
            if k not in seen:
                seen.add(k)
                uniq.append(ev)
        if len(uniq) < 2:
            continue
        uniq = sorted(uniq, key=lambda e: sum(1 for o in uniq if f.ev_dominates(o, e)))
        first, second = uniq[0], uniq[1]
        extra = sorted(set(f.controlling_blocks(second.blk)) - set(f.controlling_blocks(first.blk)))
        ctx.check('R5', 'close_helper:header-removed-whatever-the-data-removal-returned', not extra, second,
                  'the two files of a ring are removed under the same conditions',
                  'the second file of a ring (the header) is removed only if also %s: when the data file is already gone - the server was killed between its two removals - the header file stays in /dev/shm after the client\'s disconnect'
                  % ' and '.join(estr(f.blocks[x].cond) for x in extra))
        return
    raise AnalysisBroken('qb_rb_close_helper: the two file removals were not found')


def r5(ctx):
    prog = ctx.prog
    _r5_both_files(ctx)
    f = prog.fn('qb_ipcc_shm_disconnect')
    dv = None
    for ev in f.events('CALL'):
        if (ev.callee or '').startswith('var:'):
            dv = ev.callee.split(':', 1)[1]
    if dv is None:
        raise AnalysisBroken('qb_ipcc_shm_disconnect: destructor variable not found')
    closes = [ev for ev in f.events('CALL') if ev.callee == 'var:' + dv]
    rings = set()
    for ev in closes:
        inner = unwrap(ev.args[0])
        if callee_of(inner) == 'qb_rb_lastref_and_ret':
            rings.add(field_chain(unwrap(inner['args'][0]))[0])
    ok, _p = f.must_pass(('entry',), lambda ev: ev in closes)
    ctx.check('R5', 'client:closes-three-rings', rings == {'request', 'response', 'event'} and len(closes) == 3 and
              all(f.must_pass(('entry',), lambda ev, c=c: ev is c)[0] for c in closes), closes[0] if closes else f,
              'all three rings are closed on every path through the client disconnect', 'client disconnect closes %s' % sorted(rings))
    forced = [st for st in f.events('STORE') if estr(st.lhs) == dv and unwrap(st.rhs).get('k') == 'fn' and unwrap(st.rhs)['n'] == 'qb_rb_force_close']
    normal = [st for st in list(f.events('STORE')) + list(f.events('DECL')) if (estr(st.lhs) if st.kind == 'STORE' else st.d['var']) == dv and
              unwrap(st.rhs if st.kind == 'STORE' else st.d.get('init') or {}).get('n') == 'qb_rb_close']
    ctx.check('R5', 'client:default-destructor-is-close', bool(normal), f, 'by default rings are just closed', 'no default destructor')

    def notconn(a, fb):
        return field_is(a.l, 'is_connected') and a.op == '==' and a.rc == 0
    ok = bool(forced) and all(f.uncut_path(st, notconn) is None for st in forced)
    ctx.check('R5', 'client:force-only-when-not-connected', ok, forced[0] if forced else f, 'files are force-removed only when the connection is known to be dead',
              'the client can force-remove the files of a live server')
    # some forced store is cut by kill(pid,0)==-1 && errno==ESRCH ; another by server_pid == 0
    esrch = any(f.uncut_path(st, lambda a, fb: a.op == '==' and a.rc == -1 and callee_of(unwrap(a.l)) == 'kill') is None and
                f.uncut_path(st, lambda a, fb: a.op == '==' and a.rc == 3) is None for st in forced)
    nopid = any(f.uncut_path(st, lambda a, fb: field_is(a.l, 'server_pid') and a.op == '==' and a.rc == 0) is None for st in forced)
    ctx.check('R5', 'client:force-when-server-gone', esrch, f, 'kill(server_pid, 0) == -1 with ESRCH selects the forced destructor',
              'a vanished server (ESRCH) does not select the forced destructor: its shared-memory files stay behind')
    ctx.check('R5', 'client:force-when-pid-unknown', nopid, f, 'an unknown server pid selects the forced destructor', 'unknown server pid does not force the cleanup')
    fc = prog.fn('qb_rb_force_close')
    h = [ev for ev in fc.calls('qb_rb_close_helper')]
    ok = len(h) == 1 and cval(unwrap(h[0].args[1])) not in (0, None) and cval(unwrap(h[0].args[2])) not in (0, None)
    ctx.check('R5', 'force_close:unlink-with-truncate-fallback', ok, h[0] if h else fc, 'qb_rb_force_close unlinks the files and falls back to truncation',
              'qb_rb_force_close no longer unlinks/truncates the files')


def r6(ctx):
    prog = ctx.prog
    f = prog.fn('qb_ipcs_shm_disconnect')
    SIGBUS = 7
    sa = [ev for ev in f.calls('sigaction') if cval(unwrap(ev.args[0])) == SIGBUS]
    inst = [ev for ev in sa if cval(unwrap(ev.args[1])) != 0 and cval(unwrap(ev.args[2])) != 0 or (unwrap(ev.args[2]).get('k') == 'addr')]
    rest = [ev for ev in sa if ev not in inst]
    closes = list(f.calls('qb_rb_close'))
    if not sa or not closes:
        raise AnalysisBroken('qb_ipcs_shm_disconnect: sigaction=%d ring closes=%d' % (len(sa), len(closes)))
    ctx.check('R6', 'sigbus-installed-before-ring-close', bool(inst) and all(any(f.ev_dominates(i, c) for i in inst) for c in closes), inst[0] if inst else f,
              'the SIGBUS handler is installed before any ring is touched', 'a ring is closed without the SIGBUS guard (a truncated client file kills the server)')
    sj = [b for b in f.blocks.values() if b.cond is not None and has_call(b.cond, '_setjmp', 'setjmp', '__sigsetjmp')]
    ok = bool(sj) and all(any(sb.id in f.dom().get(c.blk, set()) for sb in sj) for c in closes)
    ctx.check('R6', 'setjmp-before-ring-close', ok, f, 'the setjmp landing point is established before the ring closes', 'ring closes are not covered by the setjmp landing point')
    ok, p = f.must_pass(('after', inst[0]) if inst else ('entry',), lambda ev: ev in rest)
    ctx.check('R6', 'sigbus-restored-on-every-exit', bool(rest) and ok, rest[0] if rest else f, 'the previous SIGBUS disposition is restored on every exit',
              'an exit leaves the library\'s SIGBUS handler installed (longjmp into a dead frame later)')


def r7(ctx):
    prog = ctx.prog
    f = prog.fn('handle_new_connection')
    con = [ev for ev in f.events('CALL') if ev.callee == 'qb_ipcs_funcs::connect']
    if len(con) != 1:
        raise AnalysisBroken('handle_new_connection: transport connect calls = %d' % len(con))
    con = con[0]
    rv = None
    for st in f.events('STORE'):
        if st.rhs is not None and any(n is con.e or n.get('id') == con.e.get('id') for n in walk(st.rhs)):
            rv = estr(st.lhs)
    if rv is None:
        raise AnalysisBroken('handle_new_connection: the result of the transport connect is not stored')
    ACTIVE = prog.econst('QB_IPCS_CONNECTION_ACTIVE')
    act = [ev for ev in f.stores(field='state', rec='qb_ipcs_connection') if cval(unwrap(ev.rhs)) == ACTIVE]
    if not act:
        raise AnalysisBroken('handle_new_connection: no ACTIVE store')
    # things that can fail (and send the function down a failure exit) after the resources exist
    fallible = [ev for ev in f.events('CALL') if ev.callee in ('qb_ipc_us_send', 'qb_ipcs_connection_unref', 'qb_ipcs_disconnect') and f.may_follow(con, ev)]
    if not fallible:
        raise AnalysisBroken('handle_new_connection: nothing follows the transport connect')

    def failed_connect(fb, t, lab):
        # edges that say "the connect failed" are not part of the question
        if fb.cond is None or lab not in (True, False):
            return True
        return not any(a.ls == rv and ((a.op == '!=' and a.rc == 0) or (a.op == '<' and a.rc == 0)) for a in atoms_of(fb.cond, lab))
    hits, _e, _n = f.search(('after', con), goal=lambda ev: any(ev.d is x.d for x in fallible), stop=lambda ev: any(ev.d is a.d for a in act),
                            edge_filter=failed_connect)
    ctx.check('R7', 'ACTIVE-before-anything-can-fail', not hits, hits[0][0] if hits else act[0],
              'after a successful transport connect the connection is marked ACTIVE before the response is sent or the connection is dropped',
              'a path from a successful transport connect reaches %s with the state still INACTIVE: if that step fails, the transport disconnect releases nothing (rings, files, directory and sockets of the dead client stay behind)' % (
                  hits[0][0].callee if hits else ''))
    # and the list insertion goes with it (the service teardown walks the list)
    adds = [ev for ev in f.calls('qb_list_add') if field_is(ev.args[1], 'connections')]
    ok = bool(adds) and all(any(f.ev_dominates(a, x) or f.ev_dominates(x, a) for a in act) for x in adds) and \
        not f.search(('after', con), goal=lambda ev: any(ev.d is x.d for x in fallible), stop=lambda ev: any(ev.d is a.d for a in adds), edge_filter=failed_connect)[0]
    ctx.check('R7', 'listed-before-anything-can-fail', ok, adds[0] if adds else f, 'the connection is on the service list before the response is sent',
              'a successfully connected client is not on the service list when the next step can fail: service teardown / rate limiting never sees it')


def r8(ctx):
    prog = ctx.prog
    f = prog.fn('qb_ipcc_disconnect')
    dis = [ev for ev in f.events('CALL') if ev.callee == 'qb_ipcc_funcs::disconnect']
    if len(dis) != 1:
        raise AnalysisBroken('qb_ipcc_disconnect: transport disconnect calls = %d' % len(dis))
    # functions that can clear is_connected
    clear = {g.name for (g, ev) in prog.writers('is_connected', 'qb_ipcc_connection') if cval(unwrap(ev.rhs)) == 0}
    if not clear:
        raise AnalysisBroken('no function clears is_connected')
    refresh = [ev for ev in f.events('CALL') if ev.callee in clear]
    ok = bool(refresh) and any(f.ev_dominates(r, dis[0]) for r in refresh)
    ctx.check('R8', 'liveness-refreshed-before-destructor', ok, dis[0],
              'qb_ipcc_disconnect calls %s (which clears is_connected for a dead server) before the transport disconnect' % sorted({r.callee for r in refresh}),
              'qb_ipcc_disconnect goes straight to the transport disconnect: a client that was idle when the server died still believes it is connected, '
              'takes the plain close and leaves the dead server\'s shared-memory files behind')
    # the transport destructor does read that flag (otherwise R8 is moot and R5 has to be re-confirmed)
    sd = prog.fn('qb_ipcc_shm_disconnect')
    reads = [ev for ev in ctx.inl(sd, 2).events('LOAD') if last_field(ev.e) == ('qb_ipcc_connection', 'is_connected')]
    ctx.check('R8', 'destructor-reads-is_connected', bool(reads), sd, 'the shm client destructor chooses by is_connected', 'the shm client destructor no longer looks at is_connected (re-confirm R5/R8)')


def _reaches(prog, name, target, depth=4, seen=None, file=None):
    """does function `name` (in the analysed units; a static name is looked up in the caller's file first) call `target`,
    directly or through other functions?"""
    seen = seen if seen is not None else set()
    cands = prog.fns.get(name, [])
    same = [g for g in cands if g.file == file]
    cands = same or cands
    if (name, file) in seen or depth < 0 or not cands:
        return False
    seen.add((name, file))
    for g in cands:
        for ev in g.events('CALL'):
            if ev.callee == target or (ev.callee and _reaches(prog, ev.callee, target, depth - 1, seen, g.file)):
                return True
    return False


def r9(ctx):
    prog = ctx.prog
    EAGAIN = -11
    for fname in ('qb_ipcc_send', 'qb_ipcc_sendv', 'qb_ipcc_sendv_recv'):
        f = prog.fn(fname)
        # (a) no bare "try again": a return of the constant -EAGAIN
        for ev in f.returns():
            if ev.e is None:
                continue
            c = cval(unwrap(ev.e))
            if c == EAGAIN:
                ctx.check('R9', '%s:no-bare-EAGAIN' % fname, False, ev, '',
                          '%s returns -EAGAIN without having looked at the liveness socket: when the server was killed with flow control on (or the '
                          'request queue full) every call returns -EAGAIN for ever and the disconnect is never reported' % fname)
        # (b) the flow-control edge: fc_get said "hold off" -> what is returned there consults the socket
        fcs = [st for st in f.events('STORE') if st.rhs is not None and callee_of(unwrap(st.rhs)) == 'qb_ipcc_funcs::fc_get']
        if len(fcs) != 1:
            raise AnalysisBroken('%s: fc_get sites = %d' % (fname, len(fcs)))
        rv = estr(fcs[0].lhs)
        n_edges = 0
        for b in f.blocks.values():
            if b.cond is None:
                continue
            for (t, lab) in b.succs:
                if lab not in (True, False):
                    continue
                ats = atoms_of(b.cond, lab)
                if any(a.ls == rv and a.op == '<=' and field_is(a.r, 'fc_enable_max') for a in ats):
                    n_edges += 1
                    rets, _e, _n = f.search(('edge', b.id, t), goal=lambda ev: ev.kind == 'RETURN', stop=lambda ev: ev.kind == 'RETURN')
                    ok = bool(rets)
                    for (rev, _p) in rets:
                        r = unwrap(rev.e) if rev.e is not None else {}
                        calls = [callee_of(n) for n in walk(r) if n.get('k') == 'call']
                        srcs, _en = value_sources(f, rev.e, rev) if rev.e is not None else ([], False)
                        calls += [callee_of(unwrap(x)) for x in srcs if x.get('k') != 'update' and unwrap(x).get('k') == 'call']
                        ok = ok and any(cn and _reaches(prog, cn, 'qb_ipc_us_ready', file=f.file) for cn in calls)
                    ctx.check('R9', '%s:flow-control-edge-consults-liveness' % fname, ok, fcs[0], 'with flow control on the answer comes from a look at the liveness socket',
                              '%s answers "flow control is on" without looking at the liveness socket: a killed server leaves it on for ever' % fname)
        if n_edges == 0:
            raise AnalysisBroken('%s: flow-control edge not found' % fname)
        # (c) a full queue: the transport send result is returned through a call that consults the socket when it is -EAGAIN
        sends = [st for st in f.events('STORE') if st.rhs is not None and callee_of(unwrap(st.rhs)) in ('qb_ipcc_funcs::send', 'qb_ipcc_funcs::sendv')]
        for sd in sends:
            sv = estr(sd.lhs)

            def not_again(a, fb, sv=sv):
                return a.ls == sv and ((a.op == '!=' and a.rc == EAGAIN) or (a.op in ('>=', '>') and a.rc is not None and a.rc >= 0))
            bad = None
            for ev in f.returns():
                if not f.may_follow(sd, ev) or ev.e is None:
                    continue
                r = unwrap(ev.e)
                calls = [callee_of(n) for n in walk(r) if n.get('k') == 'call']
                if any(cn and _reaches(prog, cn, 'qb_ipc_us_ready', file=f.file) for cn in calls):
                    continue
                if not mentions_var(ev.e, sv) and not any(cn for cn in calls):
                    continue
                # this return hands the send result back without a look at the socket: fine only where it cannot be -EAGAIN
                if f.uncut_path(ev, not_again, start=('after', sd)) is not None:
                    bad = ev
            ctx.check('R9', '%s:queue-full-consults-liveness' % fname, bad is None, bad or sd, 'a send refused with -EAGAIN is answered after a look at the liveness socket',
                      '%s hands -EAGAIN from the transport (request queue full) back without looking at the liveness socket: a client that keeps '
                      'sending to a killed server fills the ring itself and is told to try again for ever' % fname)
    # (d) no waiting once the disconnect is known
    r = prog.fn('qb_ipcc_recv')
    waits = [ev for ev in r.events() if (ev.kind == 'CALL' and ev.callee == 'qb_ipcc_funcs::recv') or
             (ev.kind == 'STORE' and ev.rhs is not None and callee_of(unwrap(ev.rhs)) == 'qb_ipcc_funcs::recv')]
    tmo = r.params[3]['n']

    def connected(a, fb):
        return field_is(a.l, 'is_connected') and ((a.op == '!=' and a.rc == 0) or (a.op == '==' and a.rc == 1))
    n = 0
    for w in waits:
        call = unwrap(w.rhs) if w.kind == 'STORE' else w.d.get('e')
        targ = call['args'][3]
        if cval(unwrap(targ)) == 0:
            continue
        n += 1
        ctx.check('R9', 'qb_ipcc_recv:no-wait-when-disconnected', r.uncut_path(w, connected) is None, w, 'the caller\'s timeout is used only while is_connected',
                  'qb_ipcc_recv waits for the caller\'s timeout (%s) although the disconnect is already known: "later calls fail immediately" - a recv(-1) never returns' % estr(targ))
    if n == 0:
        raise AnalysisBroken('qb_ipcc_recv: no timed receive found')


def r10(ctx):
    prog = ctx.prog
    n = 0
    bad = []
    for g in prog.all_fns(files={'lib/ipc_shm.c', 'lib/ipc_socket.c', 'lib/ipc_setup.c', 'lib/ipcs.c', 'lib/ipcc.c'}):
        for b in g.blocks.values():
            if b.cond is None:
                continue
            for lab in (True, False):
                for a in atoms_of(b.cond, lab):
                    lf = last_field(a.l)
                    if lf is not None and lf[1] == 'sock' and a.rc == 0 and a.op in ('>', '<='):
                        bad.append((g, b, a))
    # every descriptor validity test counted (>= 0, != -1, < 0, > 0 ...)
    for g in prog.all_fns(files={'lib/ipc_shm.c', 'lib/ipc_socket.c'}):
        for b in g.blocks.values():
            if b.cond is not None and any(last_field(a.l) and last_field(a.l)[1] == 'sock' and a.rc in (0, -1) for a in atoms_of(b.cond, True)):
                n += 1
    seen = set()
    for (g, b, a) in bad:
        if (g.name, b.id) in seen:
            continue
        seen.add((g.name, b.id))
        ctx.check('R10', '%s:descriptor-zero-is-valid' % g.name, False, '%s:%d (%s)' % (g.file, b.term_ln, g.name), '',
                  '%s takes %s > 0 for "open": a connection whose socket is descriptor 0 (accept() with stdin closed) is neither removed from the loop nor closed when the '
                  'server disconnects it, and its poll entry then refers to a freed connection' % (g.name, a.ls))
    if not bad:
        ctx.ok('R10', 'descriptor-zero-is-valid', None, 'no transport path tests a socket with > 0 (%d validity tests seen)' % n)
    # the client's connect cleanup
    c = prog.fn('qb_ipcc_us_connect')
    closes = [ev for ev in c.calls('close') if last_field(ev.args[0]) and last_field(ev.args[0])[1] == 'sock']
    if not closes:
        raise AnalysisBroken('qb_ipcc_us_connect: no cleanup close found')
    for ev in closes:
        want = estr(unwrap(ev.args[0]))
        guarded = any(at.ls == want and ((at.op == '>=' and at.rc == 0) or (at.op == '!=' and at.rc == -1) or (at.op == '>' and at.rc == -1)) for (at, _e) in c.guards(ev))
        preset = [st for st in c.events('STORE') if estr(st.lhs) == want and cval(unwrap(st.rhs)) == -1]
        first_fail = [x for x in c.events('CALL') if x.callee in ('qb_sys_mmap_file_open', 'mmap')]
        ok = guarded and bool(preset) and all(c.ev_dominates(p_, f_) for p_ in preset[:1] for f_ in first_fail)
        ctx.check('R10', 'client-connect-cleanup-closes-what-it-opened:%s' % want.split('->')[-1], ok, ev,
                  '%s is preset to -1 before anything can fail and closed only when >= 0' % want,
                  'the cleanup of a failed qb_ipcc_us_connect closes %s whether or not it was opened: the field is zero-initialised, so an early failure closes descriptor 0 of the application' % want)


def r11(ctx):
    prog = ctx.prog
    f = prog.fn('qb_ipc_us_sock_error_is_disconnected')
    p = f.params[0]['n']
    import errno as E
    NO = {'EAGAIN': E.EAGAIN, 'ETIMEDOUT': E.ETIMEDOUT, 'EINTR': E.EINTR, 'EMSGSIZE': E.EMSGSIZE, 'ENOMSG': E.ENOMSG, 'EINVAL': E.EINVAL, 'ENOBUFS': E.ENOBUFS}
    YES = {'ENOTCONN': E.ENOTCONN, 'ECONNRESET': E.ECONNRESET, 'EPIPE': E.EPIPE, 'ESHUTDOWN': E.ESHUTDOWN, 'EBADF': E.EBADF}
    for (want, table) in ((0, NO), (1, YES)):
        for name, val in sorted(table.items()):
            visits, terms = abstract_run(f, {p: -val}, tracked={p})
            rets = {cval(unwrap(ev.e)) if ev.e is not None else None for (ev, _env) in visits if ev.kind == 'RETURN'}
            ok = bool(rets) and all(r is not None and (r != 0) == bool(want) for r in rets)
            ctx.check('R11', 'is_disconnected(-%s)=%s' % (name, 'yes' if want else 'no'), ok, f, '-%s is %sa disconnect' % (name, '' if want else 'not '),
                      '-%s is classified as %s: %s' % (name, 'a disconnect' if not want else 'transient',
                                                       'one receive into a buffer that is too small marks a working connection as gone for good, and every later '
                                                       'qb_ipcc_recv that has to wait returns -ENOTCONN' if name == 'ENOBUFS' else 'the state of the connection is misjudged'))
