"""C17 - maps behave like a dictionary; notifiers fire once."""
from engine.qb import (cmp_forms, AnalysisBroken, estr, unwrap, cval, walk, last_field, fields_of, callee_of, mentions_var,
                       atoms_of, root_var)
from rules.common import field_is, has_call, derives, value_sources, macro_named

UNITS = ['lib/map.c', 'lib/hashtable.c', 'lib/skiplist.c', 'lib/trie.c']
DECIDES = ('Decides that every map fills every interface slot, that remove/count are tied to the map\'s own presence predicate, '
           'that no valued node is freed without the DELETED notification, the notifier fan-out guards, that iter_free drops the '
           'parked reference, that the skiplist header is never announced, the trie\'s child visiting order (exhaustively over the 256 '
           'byte values) and that notifier add/delete resolve keys alike; dictionary equivalence over histories is not decided.')
RULES = {
    'R1': 'each constructor stores a function into all slots of struct qb_map',
    'R2': 'rm: the count decrement and the TRUE return need the looked-up node to be present by that map\'s liveness predicate (hashtable/skiplist: key match; trie: live node)',
    'R3': 'the counter is incremented only on the insertion edge of put, decremented only in rm / destroy',
    'R4': 'every free of a node structure is preceded by the DELETED notification for it (hashtable, skiplist) or needs the node to carry no key (trie); put notifies INSERTED/REPLACED',
    'R6': 'trie: a node\'s key is extended in place only if it carries no value, no notifier and no child; a notifier stays on the node of the key it was registered for',
    'R7': 'key comparison is strcmp on the whole keys: skiplist op_search decides only on strcmp(node key, search key); hashtable lookup/put match on strcmp == 0',
    'R5': 'notify: callback under tn->events & event; FREE callback under (DELETED|REPLACED) and tn->events & FREE',
    'R8': 'abandoning an iteration loses no notification: every implementation\'s iter_free drops the reference on the node the iterator is positioned on (the delete/free notifications of a removed entry are issued when its last reference goes)',
    'R9': 'no notification for something that is not an entry: the skiplist node destructor does not announce a deletion for the list header',
    'R10': 'trie iteration is in ascending unsigned-byte order (as strcmp): the order in which trie_node_next visits child indexes, mapped back through the character-to-index function used by new_child_node, is 0..255 ascending (evaluated exhaustively over all 256 byte values); the sibling scan continues that same order',
    'R11': 'trie notifier add and delete resolve the key the same way (exact lookup)',
    'R12': 'looking a key up does not change the map: the lookup/get functions of all three implementations store to no map or node field and call no list mutator, allocator or release function (an iteration in progress follows those links)',
    'R13': 'a notifier is not looked at after its callback was called: in every loop that walks a notifier list and calls the callbacks, no field of the notifier and no link of its list element is read on the way from the call to the next iteration (the callback may have unregistered - freed - its own notifier); the trie, whose notifiers are reference counted, holds a reference instead',
    'R14': 'the removal marker goes with the entry: a trie node can outlive its entry (as an inner node, or because notifiers are registered on it), so the function that takes the entry out of a node (stores no value into it) leaves the node unmarked on every path - a node left marked as removed is taken by the next put of that key for an entry that parked iterators still hold: DELETED and FREE are announced for a key and a value that do not exist',
    'R15': 'a removed entry is gone for the dictionary operations even while an iterator still pins its node (= C18.R8): every lookup by key (get, put, rm) accepts a node only if it is not marked removed, and a removal marks or unlinks',
    'R16': 'arguments mean what the interface says: (a) the three notify_del implementations compare the user data only when asked to (qb_map_notify_del removes whatever the user data, qb_map_notify_del_2 only the matching one): a removal is reachable under cmp_userdata == 0; (b) key lookups of the trie are exact, the prefix iterator\'s lookup of its root is by prefix; (c) skiplist_put hands the header only to the levels above the list\'s present level - the levels the search filled in are kept; (d) the REPLACED notification of the three put functions does not read the node\'s value field after the new value was stored there',
}
FLOORS = {'R16': 8, 'R15': 2, 'R1': 3, 'R2': 6, 'R3': 6, 'R4': 6, 'R5': 9, 'R6': 3, 'R7': 4, 'R8': 3, 'R9': 1, 'R10': 3, 'R11': 1, 'R12': 6, 'R13': 4, 'R14': 1}

MAPS = {
    'hashtable': dict(file='lib/hashtable.c', create='qb_hashtable_create', rm='hashtable_rm_with_hash', put='hashtable_put',
                      count=('hash_table', 'count'), node='hash_node', notify='hashtable_notify',
                      counters_ok={'hashtable_put', 'hashtable_rm_with_hash', 'hashtable_node_deref_under_bucket', 'qb_hashtable_create'}),
    'skiplist': dict(file='lib/skiplist.c', create='qb_skiplist_create', rm='skiplist_rm', put='skiplist_put',
                     count=('skiplist', 'length'), node='skiplist_node', notify='skiplist_notify',
                     counters_ok={'skiplist_put', 'skiplist_rm', 'qb_skiplist_create'}),
    'trie': dict(file='lib/trie.c', create='qb_trie_create', rm='trie_rm', put='trie_put',
                 count=('trie', 'length'), node='trie_node', notify='trie_notify',
                 counters_ok={'trie_put', 'trie_rm', 'qb_trie_create'}),
}
DELETED, REPLACED, INSERTED = 1, 2, 4


def run(ctx):
    prog = ctx.prog
    rec = prog.record('qb_map')
    slots = [f['n'] for f in rec['fields'] if prog.type_info(f['ty']).get('fnptr')]
    if len(slots) < 10:
        raise AnalysisBroken('struct qb_map has %d function slots, expected >= 10' % len(slots))
    FREE = None
    for name, m in MAPS.items():
        c = prog.fn(m['create'])
        stored = {}
        for ev in c.events('STORE'):
            lf = last_field(ev.lhs)
            if lf and lf[0] == 'qb_map' and unwrap(ev.rhs).get('k') == 'fn':
                stored[lf[1]] = unwrap(ev.rhs)['n']
        missing = [s for s in slots if s not in stored]
        ctx.check('R1', '%s:all-slots' % name, not missing, c, '%s fills %d slots' % (m['create'], len(stored)),
                  '%s leaves interface slots unset: %s (calls through them crash / are skipped)' % (m['create'], missing))
        r2(ctx, name, m)
        r3(ctx, name, m)
        r4(ctx, name, m)
        r5(ctx, name, m)
    r6(ctx)
    r7(ctx)
    r13(ctx)
    r8(ctx)
    r9(ctx)
    r10(ctx)
    r11(ctx)
    r12(ctx)
    r14(ctx)
    r16(ctx)
    # R15 = C18.R8: an entry that was removed while an iterator pins its node is gone as far as get / put / rm / count are concerned:
    # a lookup by key accepts only nodes that are not marked removed
    from rules import c18
    sub = type(ctx)(ctx.prog, ctx.prop, ctx.tier, ctx.depth)
    c18.r8(sub)
    for r in sub.results:
        r['rule'] = 'R15'
        ctx.results.append(r)


def _present_atom(name, f, node_vars):
    def hashtable(a, fb):
        return a.op == '==' and a.rc == 0 and callee_of(unwrap(a.l)) == 'strcmp'

    def trie(a, fb):
        # a live node: carries a value / key, or trie_node_alive() said so
        if a.op == '!=' and a.rc == 0:
            l = unwrap(a.l)
            if callee_of(l) == 'trie_node_alive':
                return True
            lf = last_field(l)
            if lf and lf[0] == 'trie_node' and lf[1] in ('value', 'key'):
                return True
        if a.op == '>' and a.rc == 0 and field_is(a.l, 'refcount', 'trie_node'):
            return False
        return False
    return {'hashtable': hashtable, 'skiplist': hashtable, 'trie': trie}[name]


def r2(ctx, name, m):
    prog = ctx.prog
    f = ctx.inl(prog.fn(m['rm']), 1)
    pres = _present_atom(name, f, None)
    decs = [ev for ev in f.stores(field=m['count'][1], rec=m['count'][0]) if ev.d['op'] in ('--', '-=') and not ev.inl]
    trues = [ev for ev in f.returns() if not ev.inl and ev.e is not None and cval(unwrap(ev.e)) not in (0, None)]
    if not decs or not trues:
        raise AnalysisBroken('%s: count decrement (%d) or TRUE return (%d) not found' % (m['rm'], len(decs), len(trues)))
    for ev in decs:
        path = f.uncut_path(ev, pres)
        ctx.check('R2', '%s:count-decrement-needs-present' % name, path is None, ev,
                  'the count is decremented only for a key that is present',
                  'the count is decremented for a looked-up node that need not hold the key (e.g. a pure branching node): count and contents diverge',
                  {'path': f.path_lines(path) if path else None})
    for ev in trues:
        path = f.uncut_path(ev, pres)
        ctx.check('R2', '%s:true-needs-present' % name, path is None, ev,
                  'remove reports success only for a key that is present',
                  'remove reports success although the key need not be present', {'path': f.path_lines(path) if path else None})


def r3(ctx, name, m):
    prog = ctx.prog
    ws = prog.writers(m['count'][1], m['count'][0])
    if not ws:
        raise AnalysisBroken('%s: no writer of the counter' % name)
    bad = [(g, ev) for (g, ev) in ws if g.name not in m['counters_ok']]
    ctx.check('R3', '%s:counter-writers' % name, not bad, bad[0][1] if bad else ws[0][1],
              'the counter is written only by %s' % sorted(m['counters_ok']),
              'the counter is also written in %s' % sorted({g.name for (g, _e) in bad}))
    p = prog.fn(m['put'])
    incs = [ev for ev in p.stores(field=m['count'][1], rec=m['count'][0]) if ev.d['op'] in ('++', '+=')]
    if not incs:
        raise AnalysisBroken('%s: no count increment in put' % name)
    ctx.check('R3', '%s:single-increment-site' % name, len(incs) == 1, incs[-1], 'put increments the count at one site', 'put increments the count at %d sites' % len(incs))
    inc = incs[0]
    # the increment and the REPLACED notification are on disjoint paths
    reps = [ev for ev in p.calls(m['notify']) if any(cval(unwrap(a)) == REPLACED for a in ev.args)]
    ins = [ev for ev in p.calls(m['notify']) if any(cval(unwrap(a)) == INSERTED for a in ev.args)]
    ctx.check('R3', '%s:put-notifies-both-kinds' % name, len(reps) == 1 and len(ins) == 1, p, 'put notifies INSERTED and REPLACED at one site each',
              'put has %d INSERTED and %d REPLACED notifications' % (len(ins), len(reps)))
    if reps and ins:
        ok = not any(p.may_follow(reps[0], i2) or p.may_follow(i2, reps[0]) for i2 in incs)
        ctx.check('R3', '%s:no-increment-on-replace' % name, ok, inc, 'replacing a value does not change the count',
                  'the count can be incremented on a path that replaces an existing value')
        ok2 = p.may_follow(ins[0], inc) or p.may_follow(inc, ins[0])
        ok2 = ok2 and (p.ev_dominates(inc, ins[0]) or p.ev_dominates(ins[0], inc) or inc.blk == ins[0].blk or
                       p.ev_postdominates(inc, ins[0]))
        ctx.check('R3', '%s:increment-with-insert' % name, ok2, inc, 'the count is incremented exactly on the insertion path',
                  'the insertion notification and the count increment are not on the same paths')


def r4(ctx, name, m):
    prog = ctx.prog
    node_ty = 'struct %s *' % m['node']
    n = 0
    for f in prog.all_fns(files={m['file']}):
        for ev in f.calls('free'):
            a = unwrap(ev.args[0])
            if a.get('ty') != node_ty:
                continue
            # fresh allocation being rolled back?
            if a.get('k') == 'var':
                defs, entry = f.reaching_defs(a['n'], ev)
                if defs and not entry and all(callee_of(unwrap(d.rhs if d.kind == 'STORE' else d.d.get('init') or {})) in ('malloc', 'calloc') for d in defs):
                    continue
            n += 1
            if name == 'trie':
                def nokey(at, fb):
                    return at.op == '==' and at.rc == 0 and field_is(at.l, 'key', 'trie_node')
                # free happens in trie_destroy_node; its callers must establish key == NULL
                ok = f.name == 'trie_destroy_node'
                if ok:
                    for (g, cev) in prog.callers_of('trie_destroy_node'):
                        av = unwrap(cev.args[0])
                        if av.get('k') == 'var':
                            defs, entry = g.reaching_defs(av['n'], cev)
                            if defs and not entry and all(callee_of(unwrap(d.rhs if d.kind == 'STORE' else d.d.get('init') or {})) in
                                                          ('malloc', 'calloc', 'trie_new_node', 'new_child_node') for d in defs):
                                continue     # rolling back a node allocated in this very call (allocation-failure path)
                        okc = g.uncut_path(cev, nokey) is None
                        ctx.check('R4', 'trie:destroy-needs-no-key:%s' % g.name, okc, cev, 'a node structure is freed only when it carries no key',
                                  'a node that may still carry a key/value is freed without notification')
                        # ... and no notifier: the test must be about the node that is freed (a test made before the variable moved
                        # on to the parent says nothing about the parent)
                        if g.name != 'trie_destroy' and av.get('k') == 'var':
                            live = [a_ for (a_, _e) in g.guards_live(cev) if a_.op == '!=' and a_.rc == 0 and callee_of(unwrap(a_.l)) == 'qb_list_empty' and
                                    any(field_is(x, 'notifier_head') and mentions_var(x, av['n']) for x in unwrap(a_.l).get('args', []))]
                            ctx.check('R4', 'trie:destroy-needs-no-notifier:%s' % g.name, bool(live), cev,
                                      'a node structure is freed only when no notifier is registered on it',
                                      '%s frees a node without a (still valid) test that no notifier is registered on that very node: a placeholder node that carries the notifiers of a key or prefix without an entry is freed with them when the last entry below it goes - later insertions are not announced, notify_del says ENOENT' % g.name)
                else:
                    ctx.viol('R4', 'trie:node-free-site', ev, 'trie node freed outside trie_destroy_node')
            else:
                note = [c for c in f.calls(m['notify']) if any(cval(unwrap(x)) == DELETED for x in c.args) and f.ev_dominates(c, ev)]
                if not note:
                    # the notification may be skipped for the structural header node only (it is not an entry): every path
                    # to the free passes the notification unless it crosses an edge that says "this node is the header"
                    notes = [c for c in f.calls(m['notify']) if any(cval(unwrap(x)) == DELETED for x in c.args)]

                    def not_header_edge(fb, t, lab):
                        if fb.cond is None or lab not in (True, False):
                            return True
                        return not any(a_.op == '==' and (last_field(a_.l) == (name, 'header') or last_field(a_.r) == (name, 'header')) for a_ in atoms_of(fb.cond, lab))
                    if notes:
                        hits, _e, _n = f.search(('entry',), goal=lambda x, ev=ev: x.d is ev.d, stop=lambda x: any(x.d is c.d for c in notes), edge_filter=not_header_edge)
                        note = notes if not hits else []
                ctx.check('R4', '%s:free-after-DELETED:%s' % (name, f.name), bool(note), ev, 'the node is freed only after its DELETED notification',
                          'a node is freed without the DELETED notification (value-release notifier never runs for it)')
    if n == 0:
        raise AnalysisBroken('%s: no node free found' % name)
    if name == 'trie':
        d = prog.fn('trie_node_destroy')
        note = [c for c in d.calls('trie_notify') if any(cval(unwrap(x)) == DELETED for x in c.args)]
        clr = [s for s in d.stores(field='value', rec='trie_node') if cval(unwrap(s.rhs)) == 0] + \
              [s for s in d.stores(field='key', rec='trie_node') if cval(unwrap(s.rhs)) == 0]
        ctx.check('R4', 'trie:notify-before-clear', len(note) == 1 and len(clr) == 2 and all(d.ev_dominates(note[0], c) for c in clr), d,
                  'DELETED is notified before key/value are cleared', 'trie_node_destroy clears key/value without (or before) notifying DELETED')
        rel = list(d.calls('trie_node_release'))
        ctx.check('R4', 'trie:release-after-clear', bool(rel) and all(all(d.ev_dominates(c, r) for c in clr) for r in rel), d,
                  'the node is released after being cleared', 'the node is released before key/value are cleared')
    # destroy reaches the node destructor for every node: the loop calls it / deref
    dest = prog.fn({'hashtable': 'hashtable_node_deref_under_bucket', 'skiplist': 'skiplist_destroy', 'trie': 'trie_destroy'}[name])
    kill = {'hashtable': 'hashtable_node_deref', 'skiplist': 'skiplist_node_destroy', 'trie': 'trie_node_destroy'}[name]
    loops = dest.natural_loops()
    inloop = [ev for ev in dest.calls(kill) if any(ev.blk in body for body in loops.values())]
    ctx.check('R4', '%s:destroy-visits-nodes' % name, bool(inloop), dest, 'destroy runs %s for every node of its loop' % kill,
              'destroy does not run %s in its node loop: values leave the map without notification' % kill)


def r5(ctx, name, m):
    prog = ctx.prog
    f = prog.fn(m['notify'])
    evp = [p['n'] for p in f.params if p['ty'] in ('unsigned int', 'int')]
    evp = evp[0] if evp else None
    if evp is None:
        raise AnalysisBroken('%s: event parameter not found' % m['notify'])
    # a call of the notifier's callback: through the slot, or through a local that holds a copy of it
    def copy_of(varname, field):
        ds = [st for st in f.events() if (st.kind == 'STORE' and estr(st.lhs) == varname) or (st.kind == 'DECL' and st.d['var'] == varname and 'init' in st.d)]
        return bool(ds) and all(last_field(st.rhs if st.kind == 'STORE' else st.d['init']) == ('qb_map_notifier', field) for st in ds)
    cbs = [ev for ev in f.events('CALL') if ev.callee == 'qb_map_notifier::callback' or
           ((ev.callee or '').startswith('var:') and copy_of(ev.callee[4:], 'callback'))]

    def is_events(e):
        u = unwrap(e)
        return field_is(e, 'events') or (u.get('k') == 'var' and u.get('sc') == 'l' and copy_of(u['n'], 'events'))
    if len(cbs) < 2:
        raise AnalysisBroken('%s: %d callback sites' % (m['notify'], len(cbs)))
    free_const = None
    for cb in cbs:
        a0 = unwrap(cb.args[0])
        if estr(a0) == evp:
            def sub(at, fb):
                l = unwrap(at.l)
                return at.op == '!=' and at.rc == 0 and l.get('k') == 'bin' and l['op'] == '&' and is_events(l['l']) and estr(l['r']) == evp
            ok = f.uncut_path(cb, sub) is None
            ctx.check('R5', '%s:event-callback-subscribed' % name, ok, cb, 'callback(event) only for notifiers subscribed to that event',
                      'a notifier is called for an event it did not subscribe to')
        elif cval(a0) is not None:
            free_const = cval(a0)

            def subfree(at, fb):
                l = unwrap(at.l)
                return at.op == '!=' and at.rc == 0 and l.get('k') == 'bin' and l['op'] == '&' and is_events(l['l']) and cval(unwrap(l['r'])) == free_const
            ok = f.uncut_path(cb, subfree) is None
            ctx.check('R5', '%s:free-callback-subscribed' % name, ok, cb, 'the FREE callback only for notifiers subscribed to FREE',
                      'the value-release callback is invoked for a notifier that did not ask for it')

            def leaving(at, fb):
                l = unwrap(at.l)
                return at.op == '!=' and at.rc == 0 and l.get('k') == 'bin' and l['op'] == '&' and estr(l['l']) == evp and cval(unwrap(l['r'])) in (DELETED, REPLACED)
            ok = f.uncut_path(cb, leaving) is None
            ctx.check('R5', '%s:free-callback-only-when-value-leaves' % name, ok, cb, 'the FREE callback only for DELETED/REPLACED events',
                      'the value-release callback is invoked although no value leaves the map (e.g. on INSERTED)')
            # both kinds covered: DELETED alone must reach it, REPLACED alone must reach it
            for kind in (DELETED, REPLACED):
                def other_only(at, fb, kind=kind):
                    l = unwrap(at.l)
                    return l.get('k') == 'bin' and l['op'] == '&' and estr(l['l']) == evp and cval(unwrap(l['r'])) == kind and at.op == '!=' and at.rc == 0
                # reachable when only `kind` bit edges may be taken as true and the other kind's true-edge is forbidden
                other = REPLACED if kind == DELETED else DELETED

                def forbid(at, fb, other=other):
                    l = unwrap(at.l)
                    return l.get('k') == 'bin' and l['op'] == '&' and estr(l['l']) == evp and cval(unwrap(l['r'])) == other and at.op == '!=' and at.rc == 0
                reach = f.uncut_path(cb, forbid) is not None
                ctx.check('R5', '%s:free-callback-on-%s' % (name, 'DELETED' if kind == DELETED else 'REPLACED'), reach, cb,
                          'the FREE callback is reachable for %s' % ('DELETED' if kind == DELETED else 'REPLACED'),
                          'the value-release callback is not invoked for %s events: replaced/deleted values leak' % ('DELETED' if kind == DELETED else 'REPLACED'))
        else:
            ctx.inconclusive('R5', '%s:callback-event-arg' % name, cb, 'callback event argument %s not understood' % estr(a0))
    ctx.check('R5', '%s:has-free-callback' % name, free_const is not None, f, 'a value-release (FREE) callback site exists', 'no FREE callback site')


def r6(ctx):
    prog = ctx.prog
    f = prog.fn('trie_insert')
    ext = [ev for ev in f.events('STORE') if (unwrap(ev.lhs).get('k') == 'idx' and field_is(unwrap(ev.lhs)['b'], 'segment', 'trie_node')) or
           (field_is(ev.lhs, 'num_segments', 'trie_node') and ev.d['op'] in ('++', '+='))]
    if not ext:
        raise AnalysisBroken('trie_insert: in-place segment extension not found')

    def novalue(a, fb):
        if a.op == '==' and a.rc == 0 and (field_is(a.l, 'value', 'trie_node') or callee_of(unwrap(a.l)) == 'trie_node_alive'):
            return True
        return False

    def nonotifier(a, fb):
        return a.op == '!=' and a.rc == 0 and callee_of(unwrap(a.l)) == 'qb_list_empty' and any(field_is(x, 'notifier_head') for x in unwrap(a.l).get('args', []))

    def nochild(a, fb):
        return a.op == '==' and a.rc == 0 and field_is(a.l, 'num_children', 'trie_node')
    for (what, pred, why) in (('no-value', novalue, 'a stored key would silently change'),
                              ('no-notifier', nonotifier, 'a notifier registered for the shorter key ends up watching the longer one'),
                              ('no-child', nochild, 'the children would move under a longer prefix')):
        bad = [ev for ev in ext if f.uncut_path(ev, pred) is not None]
        ctx.check('R6', 'trie:extend-in-place-needs-%s' % what, not bad, bad[0] if bad else ext[0],
                  'a node is extended in place only when it has %s' % what.replace('-', ' '),
                  'a node can be extended in place although it may have a %s: %s' % (what.split('-')[1], why))


def r7(ctx):
    prog = ctx.prog
    f = prog.fn('op_search')
    nodep, keyp = f.params[1]['n'], f.params[2]['n']
    decided = 0
    bad = []
    for b in f.blocks.values():
        if b.cond is None:
            continue
        forms = [(l, o, r) for (l, o, r) in cmp_forms(b.cond) if cval(unwrap(r)) == 0]
        cu = unwrap(b.cond)
        if not forms and cu.get('k') == 'un' and cu['op'] == '!':
            forms = [(cu['e'], '==', None)]         # !x  is  x == 0
        if forms:
            l = unwrap(forms[0][0])
            if l.get('k') == 'var' and l['n'] not in (nodep, keyp):
                decided += 1
                srcs, entry = value_sources(f, l, f.end_of(b.id))
                ok = bool(srcs) and not entry and all(callee_of(x) == 'strcmp' and field_is(x['args'][0], 'key') and estr(x['args'][1]) == keyp for x in srcs)
                if not ok:
                    bad.append(b)
            elif callee_of(l) == 'strcmp':
                decided += 1
    ctx.check('R7', 'skiplist:order-is-strcmp', decided >= 2 and not bad, '%s:%d (op_search)' % (f.file, bad[0].term_ln if bad else f.line),
              'every ordering decision in op_search is made on strcmp(node->key, search)',
              'an ordering decision in op_search uses a value that is not (only) strcmp of the whole keys: iteration is no longer in ascending key order / lookups miss')
    for nm in ('hashtable_lookup', 'hashtable_put'):
        g = prog.fn(nm)
        conds = [b for b in g.blocks.values() if b.cond is not None and has_call(b.cond, 'strcmp')]
        def eq0(c):
            u = unwrap(c)
            if u.get('k') == 'un' and u['op'] == '!' and callee_of(unwrap(u['e'])) == 'strcmp':
                return True
            return any(o == '==' and cval(unwrap(r)) == 0 and callee_of(unwrap(l)) == 'strcmp' for (l, o, r) in cmp_forms(c))
        ok = bool(conds) and all(eq0(b.cond) for b in conds)
        ctx.check('R7', '%s:match-is-strcmp-equal' % nm, ok, g, '%s matches on strcmp(...) == 0' % nm, '%s does not match on full-key equality' % nm)
    t = prog.fn('trie_lookup')
    # the exact-match test: a node is only returned for exact_match when the whole segment was consumed
    rets = [r for r in t.returns() if r.e is not None and cval(unwrap(r.e)) != 0]
    ex = t.params[2]['n']

    def exact_ok(a, fb):
        return (a.ls == ex and a.op == '==' and a.rc == 0) or (a.op in ('>=',) and 'seg_cnt' in a.ls) or (a.op == '<=' and field_is(a.l, 'num_segments')) or \
            (a.op == '==' and a.rc == 0 and field_is(a.l, 'num_segments')) or (field_is(a.l, 'num_segments') and a.op == '<=' and a.rc == 0)
    ok = bool(rets) and all(t.uncut_path(r, exact_ok) is None for r in rets)
    ctx.check('R7', 'trie:exact-match-consumes-segment', ok, t, 'an exact lookup only succeeds when the node\'s whole segment was matched',
              'an exact lookup can return a node whose segment extends beyond the key (a longer key answers for a shorter one)')


ITF = {'hashtable': ('hashtable_iter_free', 'hashtable_node_deref', ('hashtable_iter', 'node')),
       'skiplist': ('skiplist_iter_free', 'skiplist_node_deref', ('skiplist_iter', 'n')),
       'trie': ('trie_iter_free', 'trie_node_deref', ('trie_iter', 'n'))}


def r8(ctx):
    prog = ctx.prog
    for name, (ff, deref, cur) in ITF.items():
        f = prog.fn(ff)

        def notparked(fb, t, lab, cur=cur):
            if fb.cond is None or lab not in (True, False):
                return True
            return not any(a.op == '==' and a.rc == 0 and last_field(a.l) == cur for a in atoms_of(fb.cond, lab))
        _h, exits, _n = f.search(('entry',), stop=lambda ev, deref=deref: ev.kind == 'CALL' and ev.callee == deref, edge_filter=notparked)
        ctx.check('R8', '%s:iter_free-drops-reference' % name, not exits, f,
                  'freeing an iterator that is positioned on a node drops its reference',
                  '%s keeps the reference of the node the iterator is positioned on: after an abandoned iteration a later remove of that entry never destroys '
                  'the node, so its delete and value-release notifications are never delivered (not even at destroy)' % ff)


def r9(ctx):
    prog = ctx.prog
    d = prog.fn('skiplist_node_destroy')
    ann = [ev for ev in d.calls('skiplist_notify') if any(macro_named(a, 'QB_MAP_NOTIFY_DELETED') or cval(unwrap(a)) == DELETED for a in ev.args[2:3])]
    if not ann:
        raise AnalysisBroken('skiplist_node_destroy: no DELETED notification')
    # is the destructor applied to the header at all?
    on_header = [ev for (g, ev) in prog.callers_of('skiplist_node_destroy') if ev.args and last_field(unwrap(ev.args[0])) == ('skiplist', 'header')]
    if not on_header:
        ctx.ok('R9', 'skiplist:header-not-announced', d, 'the node destructor is never applied to the header')
        return

    def not_header(a, fb):
        return a.op == '!=' and (last_field(a.l) == ('skiplist', 'header') or last_field(a.r) == ('skiplist', 'header'))
    ok = all(d.uncut_path(ev, not_header) is None for ev in ann)
    ctx.check('R9', 'skiplist:header-not-announced', ok, ann[0], 'the deletion notification is skipped for the list header',
              'destroying the map announces a deletion (twice, plus a value release) for the list header: notifiers are called with a NULL key for an entry that never existed')


def _eval(e, env):
    """value of an integer expression tree under env (var name -> int); None when not evaluable"""
    e0 = e
    c = cval(e) if isinstance(e, dict) else None
    if c is not None and not any(n.get('k') == 'var' for n in walk(e)):
        return c
    k = e.get('k')
    if k == 'cast':
        v = _eval(e['e'], env)
        if v is None:
            return None
        ty = e.get('ty', '')
        if ty in ('signed char', 'char'):
            v &= 0xFF
            return v - 256 if v >= 128 else v
        if ty == 'unsigned char':
            return v & 0xFF
        return v
    if k == 'var':
        return env.get(e['n'])
    if k == 'mem':
        return env.get(estr(e))
    if k == 'int':
        return cval(e)
    if k == 'cond':
        cv_ = _eval(e['c'], env)
        if cv_ is None:
            return None
        return _eval(e['t'] if cv_ else e['f'], env)
    if k == 'un' and e['op'] == '-':
        v = _eval(e['e'], env)
        return -v if v is not None else None
    if k == 'bin':
        a, b = _eval(e['l'], env), _eval(e['r'], env)
        if a is None or b is None:
            return None
        op = e['op']
        return {'+': a + b, '-': a - b, '*': a * b, '==': int(a == b), '!=': int(a != b), '<': int(a < b), '>': int(a > b),
                '<=': int(a <= b), '>=': int(a >= b), '&&': int(bool(a) and bool(b)), '||': int(bool(a) or bool(b))}.get(op)
    return None


def r10(ctx):
    prog = ctx.prog
    # character -> child index, as new_child_node computes it
    nc = prog.fn('new_child_node')
    chp = nc.params[2]['n']
    idxd = [ev for ev in nc.events('DECL') if ev.d.get('init') is not None and any(n.get('k') == 'var' and n['n'] == chp for n in walk(ev.d['init']))]
    if len(idxd) != 1:
        raise AnalysisBroken('new_child_node: the index computation was not found')
    c2i = {}
    for ch in range(-128, 128):
        v = _eval(idxd[0].d['init'], {chp: ch})
        if v is None:
            raise AnalysisBroken('new_child_node: index expression %s is not evaluable' % estr(idxd[0].d['init']))
        c2i[ch & 0xFF] = v
    ok = len(set(c2i.values())) == 256 and min(c2i.values()) >= 0
    ctx.check('R10', 'trie:char-to-index-injective', ok, idxd[0], 'the 256 byte values get 256 distinct non-negative child indexes',
              'two byte values share a child index (keys differing in that byte collide)')
    i2c = {v: k for k, v in c2i.items()}
    nx = prog.fn('trie_node_next')
    loops = nx.natural_loops()
    # the scan variable: the local used to index children[]
    ivs = {estr(n['i']) for ev in nx.events() for root in (ev.e, ev.rhs, ev.lhs) if root is not None for n in walk(root)
           if n.get('k') == 'idx' and last_field(n['b']) == ('trie_node', 'children') and unwrap(n['i']).get('k') == 'var'}
    if len(ivs) != 1:
        raise AnalysisBroken('trie_node_next: children are indexed by %s' % sorted(ivs))
    iv = ivs.pop()
    sts = [ev for ev in nx.events('STORE') if estr(ev.lhs) == iv]
    # the child scan starts at a constant, or at num_children - 1 (indexes beyond the array have no child: same as starting at 255)
    def init_val(ev):
        env = {estr(n): 256 for n in walk(ev.rhs) if n.get('k') == 'mem' and n.get('f') == 'num_children'}
        return _eval(unwrap(ev.rhs), env)
    inits = [ev for ev in sts if ev.d['op'] == '=' and ev.rhs is not None and not any(n.get('k') == 'var' and n['n'] == iv for n in walk(ev.rhs)) and
             not any(n.get('k') == 'mem' and n.get('f') == 'idx' for n in walk(ev.rhs)) and init_val(ev) is not None]
    upd = [ev for ev in sts if ev.d['op'] in ('--', '++') or (ev.rhs is not None and any(n.get('k') == 'var' and n['n'] == iv for n in walk(ev.rhs)))]
    sib = [ev for ev in sts if ev.rhs is not None and any(n.get('k') == 'mem' and n.get('f') == 'idx' for n in walk(ev.rhs))]
    if len(inits) != 1 or not upd:
        raise AnalysisBroken('trie_node_next: scan variable %s: %d constant initialisations, %d updates' % (iv, len(inits), len(upd)))

    def step(ev, val):
        if ev.d['op'] == '--':
            return val - 1
        if ev.d['op'] == '++':
            return val + 1
        return _eval(ev.rhs, {iv: val})
    # the child scan: start at the constant, apply the update until the index leaves [0, 255]
    order = []
    v = init_val(inits[0])
    seen = set()
    while v is not None and 0 <= v <= 255 and v not in seen:
        seen.add(v)
        order.append(v)
        v = step(upd[0], v)
    chars = [i2c.get(i) for i in order]
    asc = chars == sorted(chars) and None not in chars and len(chars) == 256
    ctx.check('R10', 'trie:children-visited-in-byte-order', asc, inits[0],
              'the child scan visits all 256 indexes in ascending order of the byte they stand for',
              'the child scan visits the bytes in the order %s...: iteration is not in ascending (strcmp) key order - bytes %s come before %s' % (
                  [hex(c) if c is not None else None for c in chars[:3]], hex(chars[0]) if chars and chars[0] is not None else None,
                  hex(min(c for c in chars if c is not None)) if any(c is not None for c in chars) else None))
    # all updates are the same function, and the sibling scan starts one step after the node's own index
    same = all(all(step(u, k) == step(upd[0], k) for k in range(0, 256)) for u in upd)
    sib_ok = bool(sib) and all(all(_eval(sv.rhs, {x: k for x in {estr(n) for n in walk(sv.rhs) if n.get('k') == 'mem' and n.get('f') == 'idx'}}) == step(upd[0], k)
                                   for k in range(0, 256)) for sv in sib)
    ctx.check('R10', 'trie:sibling-scan-continues-the-order', same and sib_ok, sib[0] if sib else nx,
              'the sibling scan starts one step behind the node\'s own index and both scans use the same step',
              'the sibling scan does not continue the child order (siblings are skipped or revisited)')


def r11(ctx):
    prog = ctx.prog
    modes = {}
    for fn in ('trie_notify_add', 'trie_notify_del'):
        f = prog.fn(fn)
        ls = list(f.calls('trie_lookup'))
        if not ls:
            raise AnalysisBroken('%s: no trie_lookup' % fn)
        modes[fn] = {cval(unwrap(ev.args[2])) for ev in ls}
    ok = modes['trie_notify_add'] == modes['trie_notify_del'] and all(v is not None and v != 0 for m_ in modes.values() for v in m_)
    ctx.check('R11', 'trie:notifier-add-del-same-lookup', ok, prog.fn('trie_notify_del'),
              'notifier add and delete both resolve the key with the exact lookup',
              'trie_notify_del resolves the key with exact_match=%s but trie_notify_add with %s: deleting a notifier for a key that ends inside another key\'s segment '
              'removes that other key\'s notifier' % (sorted(modes['trie_notify_del'], key=str), sorted(modes['trie_notify_add'], key=str)))


def r12(ctx):
    prog = ctx.prog
    MUT = {'qb_list_del', 'qb_list_add', 'qb_list_add_tail', 'qb_list_splice', 'qb_list_splice_tail', 'qb_list_replace', 'qb_list_init', 'free', 'malloc', 'calloc', 'realloc'}
    RECS = {'hash_node', 'hash_table', 'hash_bucket', 'skiplist', 'skiplist_node', 'trie', 'trie_node', 'qb_list_head'}
    for fn in ('hashtable_lookup', 'hashtable_get', 'skiplist_lookup', 'skiplist_get', 'trie_lookup', 'trie_get'):
        f = ctx.inl(prog.fn(fn), 2)
        bad = [ev for ev in f.events('CALL') if ev.callee in MUT]
        bad += [ev for ev in f.events('STORE') if last_field(ev.lhs) is not None and last_field(ev.lhs)[0] in RECS]
        ctx.check('R12', '%s:read-only' % fn, not bad, bad[0] if bad else prog.fn(fn),
                  '%s changes nothing in the map' % fn,
                  '%s modifies the map while looking a key up (%s): a get issued during an iteration reorders / relinks what the iterator is walking - keys are returned twice or skipped' % (
                      fn, repr(bad[0])[:90] if bad else ''))


def r13(ctx):
    prog = ctx.prog
    n = 0
    for fname in ('hashtable_notify', 'skiplist_notify'):
        f = prog.fn(fname)
        loops = f.natural_loops()
        calls = [ev for ev in f.events('CALL') if ev.callee == 'qb_map_notifier::callback' or (ev.callee or '').startswith('var:')]
        if not calls:
            raise AnalysisBroken('%s: no notifier callback call' % fname)
        # the notifier variable(s): locals of type struct qb_map_notifier *; the list cursors: struct qb_list_head * locals assigned in the loops
        tnv = {ev.d['var'] for ev in f.events('DECL') if 'qb_map_notifier' in str(ev.d.get('ty', ''))}
        for ev in calls:
            body = None
            for hdr, b in loops.items():
                if ev.blk in b and (body is None or len(b) < len(body[1])):
                    body = (hdr, b)
            if body is None:
                continue
            hdr, blocks = body
            n += 1

            def touches(x):
                if x.kind not in ('LOAD', 'STORE', 'CALL', 'DECL'):
                    return False
                roots = [x.d.get('e'), x.d.get('rhs'), x.d.get('init')] + (list(x.args) if x.kind == 'CALL' else [])
                for r_ in roots:
                    for nn in walk(r_ or {}):
                        if nn.get('k') == 'mem' and nn.get('arrow'):
                            b_ = unwrap(nn['b'])
                            if b_.get('k') == 'var' and (b_['n'] in tnv or (nn.get('f') == 'next' and 'qb_list_head' in str(b_.get('ty', '')) and b_['n'] in cursors)):
                                return True
                return False
            # list cursor whose element is the notifier: the variable in qb_list_entry(<cursor>, ...) that defines tn in this loop
            cursors = set()
            for st in f.events('STORE'):
                if st.blk in blocks and unwrap(st.lhs).get('k') == 'var' and unwrap(st.lhs)['n'] in tnv:
                    for nn in walk(st.rhs):
                        if nn.get('k') == 'var' and 'qb_list_head' in str(nn.get('ty', '')):
                            cursors.add(nn['n'])
            def uses(x, var, only_next):
                roots = [x.d.get('e'), x.d.get('rhs'), x.d.get('init')] + (list(x.args) if x.kind == 'CALL' else [])
                for r_ in roots:
                    for nn in walk(r_ or {}):
                        if nn.get('k') == 'mem' and nn.get('arrow'):
                            b_ = unwrap(nn['b'])
                            if b_.get('k') == 'var' and b_['n'] == var and (not only_next or nn.get('f') == 'next'):
                                return True
                return False
            hits = []
            for (var, only_next) in [(v, False) for v in sorted(tnv)] + [(v, True) for v in sorted(cursors)]:
                # until the variable is given a new value (the next element), what it points to is the notifier just called
                def redefined(x, var=var):
                    return x.kind == 'STORE' and unwrap(x.lhs).get('k') == 'var' and unwrap(x.lhs)['n'] == var and not uses(x, var, only_next)
                h_, _e, _n = f.search(('after', ev), goal=lambda x, var=var, only_next=only_next: x.kind in ('LOAD', 'STORE', 'CALL', 'DECL') and uses(x, var, only_next),
                                      stop=redefined, edge_filter=lambda fb, t, lab: t in blocks)
                hits += h_
            ctx.check('R13', '%s:notifier-not-used-after-its-callback' % fname, not hits, ev,
                      'nothing of the notifier (or of its list link) is read after the callback returned',
                      '%s reads the notifier again after calling it (%s): a callback that unregisters its own notifier has freed it' % (
                          fname, '; '.join(sorted({'%s@%d' % (h[0].kind, h[0].ln) for h in hits}))[:120]))
    if n < 4:
        raise AnalysisBroken('R13: only %d callback sites in notifier loops' % n)


def r14(ctx):
    prog = ctx.prog
    n = 0
    for f in prog.all_fns(files={'lib/trie.c'}):
        clears = [st for st in f.events('STORE') if last_field(st.lhs) == ('trie_node', 'value') and st.d['op'] == '=' and cval(unwrap(st.rhs)) == 0]
        for st in clears:
            node = estr(unwrap(st.lhs)['b']) if unwrap(st.lhs).get('k') == 'mem' else None

            def unmark(ev, node=node):
                return ev.kind == 'STORE' and last_field(ev.lhs) == ('trie_node', 'removed') and cval(unwrap(ev.rhs)) == 0 and \
                    (node is None or estr(unwrap(ev.lhs)['b']) == node)
            # the marker is cleared before or after the value, on every path through the store
            before = any(unmark(ev) and f.ev_dominates(ev, st) for ev in f.events('STORE'))
            after, _p = f.must_pass(('after', st), unmark)
            n += 1
            ctx.check('R14', '%s:entry-taken-out-leaves-node-unmarked' % f.name, before or after, st,
                      '%s clears the removal marker of the node it takes the entry out of' % f.name,
                      '%s takes the entry out of a node (value = NULL) and can return with the node still marked as removed: if the node stays (inner node, notifiers) the next put of its key announces DELETED / FREE for an entry that does not exist'
                      % f.name)
    if n == 0:
        raise AnalysisBroken('R14: no function of trie.c takes an entry out of a node')


def r16(ctx):
    prog = ctx.prog
    # (a) notify_del
    for name in ('hashtable_notify_del', 'skiplist_notify_del', 'trie_notify_del'):
        f = prog.fn(name)
        cm = [p_['n'] for p_ in f.params if 'cmp' in p_['n']]
        if not cm:
            raise AnalysisBroken('%s: no cmp_userdata parameter' % name)
        cmn = cm[0]
        dels = [ev for ev in f.calls('qb_list_del')] + [ev for ev in f.calls('free')] + [ev for ev in f.calls('trie_notify_deref')]
        if not dels:
            raise AnalysisBroken('%s: no removal' % name)
        uncond = [ev for ev in dels if any(at.ls == cmn and at.op == '==' and at.rc == 0 for (at, _e) in f.guards(ev))]
        ctx.check('R16', '%s:removes-without-comparing-when-not-asked' % name, bool(uncond), dels[0],
                  'a notifier is removed whatever its user data when cmp_userdata is 0',
                  'no removal is reachable under cmp_userdata == 0: qb_map_notify_del() of a notifier that was registered with user data finds nothing (-ENOENT) and the notifier keeps firing')
    # (d) a replacement is announced with the value that was replaced: an argument of the REPLACED notification that reads the node's
    # value field is evaluated before the new value is stored there (otherwise old == new: the old value is never released, the new one twice)
    REPL = 2        # QB_MAP_NOTIFY_REPLACED (a #define in qbmap.h; macro_named() recognises the spelling where the extractor kept it)
    nrep = 0
    for name in ('skiplist_put', 'hashtable_put', 'trie_put'):
        f = prog.fn(name)
        for ev in f.events('CALL'):
            if not (ev.callee or '').endswith('notify') or not any(macro_named(a, 'QB_MAP_NOTIFY_REPLACED') or cval(unwrap(a)) == REPL for a in ev.args[1:4]):
                continue
            nrep += 1
            stale = []
            for a in ev.args[-2:-1]:        # (..., key, old value, new value)
                au = unwrap(a)
                if au.get('k') == 'mem' and au.get('f') == 'value':
                    sts = [st for st in f.events('STORE') if last_field(st.lhs) == (au.get('rec'), 'value') and f.may_follow(st, ev)]
                    if sts:
                        stale.append(estr(a))
            ctx.check('R16', '%s:replaced-announced-with-the-old-value' % name, not stale, ev,
                      'the REPLACED notification does not read the value field after the new value was stored',
                      'the REPLACED notification is handed %s, read after the new value was stored in that field: old and new are the same, the value that was replaced is never '
                      'released and the new one is released twice' % ', '.join(stale))
    if nrep < 3:
        raise AnalysisBroken('put functions: %d REPLACED notifications found' % nrep)
    # (b) trie lookups
    n = 0
    seen = set()
    for f in prog.all_fns(files={'lib/trie.c'}):
        for ev in f.events():
            for t in (ev.rhs if ev.kind == 'STORE' else None, ev.d.get('init') if ev.kind == 'DECL' else None, ev.e if ev.kind == 'CALL' else None):
                if not isinstance(t, dict):
                    continue
                for c in walk(t):
                    if c.get('k') == 'call' and callee_of(c) == 'trie_lookup' and len(c.get('args', [])) == 3:
                        sig = (f.name, ev.d.get('ln'), estr(c))
                        if sig in seen:
                            continue
                        seen.add(sig)
                        n += 1
                        by_prefix = any(m.get('k') == 'mem' and m.get('f') == 'prefix' for m in walk(c['args'][1]))
                        exact = cval(unwrap(c['args'][2]))
                        ctx.check('R16', 'trie:%s:lookup-%s' % (f.name, 'by-prefix' if by_prefix else 'exact'), (exact == 0) if by_prefix else (exact not in (0, None)), ev,
                                  'the iterator\'s root is looked up by prefix' if by_prefix else 'a key is looked up exactly',
                                  'the prefix iterator looks its prefix up as an exact key: a prefix that ends inside a compressed segment ("ab" with only "abc" stored) finds no root and the iteration yields nothing'
                                  if by_prefix else 'a key is looked up by prefix: get / rm / notify act on another entry that merely starts with the key')
    if n < 4:
        raise AnalysisBroken('trie.c: %d trie_lookup calls found' % n)
    # (c) skiplist_put
    f = prog.fn('skiplist_put')
    hdr = [st for st in f.events('STORE') if unwrap(st.lhs).get('k') == 'idx' and unwrap(unwrap(st.lhs)['b']).get('k') == 'var' and unwrap(unwrap(st.lhs)['b']).get('sc') == 'l' and last_field(unwrap(st.rhs)) and last_field(unwrap(st.rhs))[1] == 'header']
    if not hdr:
        raise AnalysisBroken('skiplist_put: no update[level] = header store')
    iv = estr(unwrap(unwrap(hdr[0].lhs)['i']))
    inits = [st for st in f.events('STORE') if estr(st.lhs) == iv and st.d['op'] == '=' and f.may_follow(st, hdr[0]) and st.rhs is not None and
             any(m.get('k') == 'mem' and m.get('f') == 'level' for m in walk(st.rhs))]
    if not inits:
        raise AnalysisBroken('skiplist_put: start of the header loop not found')
    for st in inits:
        r = unwrap(st.rhs)
        above = r.get('k') == 'bin' and r['op'] == '+' and (cval(unwrap(r['r'])) or 0) >= 1 and last_field(unwrap(r['l'])) and last_field(unwrap(r['l']))[1] == 'level'
        ctx.check('R16', 'skiplist_put:header-only-above-the-present-level', bool(above), st,
                  'the header is handed to levels list->level + 1 and up',
                  'the loop that hands the header to the new levels starts at %s: update[list->level], which the search had filled in, is overwritten with the header and the new '
                  'node is linked in front of every node of that level - keys before it can no longer be found, removed or iterated in order' % estr(st.rhs))
