"""C06 - bytes from a peer never corrupt the other side."""
from engine.qb import (AnalysisBroken, estr, unwrap, cval, walk, last_field, fields_of, callee_of, mentions_var,
                       atoms_of, root_var)
from rules.common import field_is, has_call, derives, value_sources, macro_named

UNITS = ['lib/ipc_setup.c', 'lib/ipc_socket.c', 'lib/ipcs.c', 'lib/ringbuffer.c']
DECIDES = ('Decides that every peer-controlled length is compared with the trusted capacity on every path before it is used as a '
           'receive/copy length or reported to the message callback, that the handshake record is only acted upon when complete, '
           'genuine and of the expected kind (every other edge closes the socket and frees the record), and that the capacity handed to '
           'the receive path is the allocation size and covers the unconditional header peek; "the server stays up" for every byte '
           'stream (liveness) is not decided.')
RULES = {
    'R1': 'receive paths: every recv/recvmsg/memcpy into a caller-supplied buffer uses a length that is the capacity, a remainder of it, or a peer value cut by a comparison with the capacity',
    'R2': 'the size reported to msg_process is cut by size >= sizeof(header), hdr->size >= sizeof(header) and hdr->size <= size (bytes received), and size itself by <= max_msg_size (explicitly, since a peek into the shared ring returns the length word the peer wrote); the reported size is a local loaded from the header once, because on shared memory the header can change between two loads',
    'R3': 'handle_new_connection is reached only after the whole fixed-size record was received, credentials were obtained and hdr.id is AUTHENTICATE; every other edge closes the socket; the record is freed on every path',
    'R5': 'every send that reads from receive_buf uses a length bounded by its capacity (request.max_msg_size)',
    'R4': 'the capacity given to the receive slot is the allocation size of receive_buf; that size is at least what the receive path writes unconditionally (the header peek), and the peek itself is made only into a buffer whose capacity was tested to hold it (the client hands its own buffer in)',
    'R6': 'the wake-up bytes of one pass fit the dispatcher\'s buffer: the count of bytes drained into the fixed array is incremented at most once per turn of the request loop, the loop goes on only while the budget taken before it (the clamped queue length, at most the array size) is positive, and inside the loop that budget is only ever decremented',
    'R7': 'a handshake that does not come is not waited for: in qb_ipc_us_recv_msghdr no edge on which the receive has failed (result == -1) leads back to the receive - the server reads the handshake in its main loop, a peer that sends part of it and stalls would stop every other client',
    'R8': 'descriptors and memory set up for a peer are released when it goes away before it was told: once the transport connect has created the per-client resources the connection is ACTIVE and listed before the response send (or anything else) can fail - the failure branch and the transport disconnects decide from that state what to undo (= C03.R7)',
}
FLOORS = {'R1': 6, 'R2': 5, 'R3': 5, 'R4': 4, 'R6': 3, 'R7': 1, 'R8': 2, 'R5': 1}


def run(ctx):
    r1(ctx)
    r2(ctx)
    r3(ctx)
    r4(ctx)
    r5(ctx)
    r6(ctx)
    r7(ctx)
    # R8 = C03.R7: what was set up for a peer can be released when the peer turns out to be gone
    from rules import c03
    sub = type(ctx)(ctx.prog, ctx.prop, ctx.tier, ctx.depth)
    c03.r7(sub)
    for r in sub.results:
        r['rule'] = 'R8'
        ctx.results.append(r)


def _derived_from_param(f, e, at, pname):
    return derives(f, e, at, lambda x: estr(x) == pname or (x.get('k') == 'bin' and mentions_var(x, pname)))


def r1(ctx):
    prog = ctx.prog
    # (a) qb_ipc_us_recv_at_most(one_way, msg, len, timeout)
    f = prog.fn('qb_ipc_us_recv_at_most')
    bufp, capp = f.params[1]['n'], f.params[2]['n']
    recvs = list(f.calls('recv'))
    if len(recvs) < 2:
        raise AnalysisBroken('qb_ipc_us_recv_at_most: recv sites = %d' % len(recvs))
    peeks = 0
    for ev in recvs:
        dst_ok = derives(f, ev.args[1], ev, lambda x: estr(x) == bufp)
        ctx.check('R1', 'recv_at_most:destination', dst_ok, ev, 'recv writes into the caller\'s buffer', 'recv writes into %s' % estr(ev.args[1]))
        ln = unwrap(ev.args[2])
        if cval(ln) is not None:
            peeks += 1
            ctx.ok('R1', 'recv_at_most:fixed-length-peek', ev, 'fixed %d-byte header peek (capacity obligation checked at R4)' % cval(ln))
            continue
        # variable length: every definition is 0, the capacity, or a peer value that is compared with the capacity
        # on every path through that definition (before or after it)
        if ln.get('k') != 'var':
            ctx.inconclusive('R1', 'recv_at_most:length-bounded', ev, 'receive length %s is not a local variable' % estr(ln))
            continue
        defs, entry = f.reaching_defs(ln['n'], ev)
        bad = []
        for d in defs:
            rhs = d.rhs if d.kind == 'STORE' else d.d.get('init')
            if d.kind == 'STORE' and d.d['op'] != '=':
                bad.append('updated by %s' % d.d['op'])
                continue
            if rhs is None:
                bad.append('uninitialised')
                continue
            r = unwrap(rhs)
            if cval(r) == 0 or estr(r) == capp:
                continue
            vs = estr(r)

            def le_cap(a, fb, vs=vs):
                return (a.ls == vs and a.op == '<=' and a.rs == capp) or (a.rs == vs and a.op == '>=' and a.ls == capp)

            def nonneg(a, fb, vs=vs):
                return a.ls == vs and ((a.op == '>=' and a.rc == 0) or (a.op == '>' and a.rc == -1))
            for (pred, msg) in ((le_cap, '%s is not compared with the capacity %s' % (vs, capp)),
                                (nonneg, '%s may be negative (converted to a huge length)' % vs)):
                if pred is nonneg and not prog.type_info(r.get('ty', '')).get('signed'):
                    continue
                before = f.uncut_path(d, pred) is not None
                after = f.uncut_path(ev, pred, start=('after', d)) is not None
                if before and after:
                    bad.append(msg)
        ctx.check('R1', 'recv_at_most:length-bounded', not bad and not entry, ev,
                  'the receive length %s is 0, the capacity, or a header size compared with the capacity' % estr(ln),
                  'the receive length %s is peer controlled and not bounded by the buffer capacity: %s' % (estr(ln), '; '.join(bad) or 'uninitialised'))
    ctx.check('R1', 'recv_at_most:single-peek', peeks == 1, f, 'one fixed-size peek', '%d fixed-size receives' % peeks)
    # (b) qb_ipc_us_recv(one_way, msg, len, timeout)
    g = prog.fn('qb_ipc_us_recv')
    bufp, capp = g.params[1]['n'], g.params[2]['n']
    rc = list(g.calls('recv'))
    if len(rc) != 1:
        raise AnalysisBroken('qb_ipc_us_recv: recv sites = %d' % len(rc))
    dst = unwrap(rc[0].args[1])
    ix = None
    if dst.get('k') == 'addr' and unwrap(dst['e']).get('k') == 'idx':
        ix = estr(unwrap(dst['e'])['i'])
    ln = estr(rc[0].args[2])
    sts_ix = [ev for ev in g.events() if (ev.kind == 'STORE' and estr(ev.lhs) == ix) or (ev.kind == 'DECL' and ev.d['var'] == ix)]
    sts_ln = [ev for ev in g.events() if (ev.kind == 'STORE' and estr(ev.lhs) == ln) or (ev.kind == 'DECL' and ev.d['var'] == ln)]

    def shape(evs, init_pred, upd_op):
        inits = [e for e in evs if (e.kind == 'DECL') or (e.kind == 'STORE' and e.d['op'] == '=')]
        upds = [e for e in evs if e.kind == 'STORE' and e.d['op'] != '=']
        return bool(inits) and all(init_pred(e.d.get('init') if e.kind == 'DECL' else e.rhs) for e in inits) and all(e.d['op'] == upd_op for e in upds), upds
    ok_ix, up_ix = shape(sts_ix, lambda r: cval(unwrap(r)) == 0, '+=')
    ok_ln, up_ln = shape(sts_ln, lambda r: estr(r) == capp, '-=')
    paired = len(up_ix) == len(up_ln) == 1 and up_ix[0].blk == up_ln[0].blk and estr(up_ix[0].rhs) == estr(up_ln[0].rhs)
    ctx.check('R1', 'us_recv:offset+remaining=capacity', ix is not None and ok_ix and ok_ln and paired, rc[0],
              'receive offset starts at 0, remaining length at len, and both move by the same amount (offset + remaining == len)',
              'qb_ipc_us_recv: offset/remaining bookkeeping no longer conserves offset + remaining == len')
    # (c) handshake record
    h = prog.fn('qb_ipc_us_recv_msghdr')
    base = [ev for ev in h.events('STORE') if field_is(ev.lhs, 'iov_base')]
    leng = [ev for ev in h.events('STORE') if field_is(ev.lhs, 'iov_len')]
    ok = len(base) == 1 and len(leng) == 1
    if ok:
        b = unwrap(base[0].rhs)
        ixs = estr(unwrap(b['e'])['i']) if b.get('k') == 'addr' and unwrap(b['e']).get('k') == 'idx' else None
        l = unwrap(leng[0].rhs)
        ok = ixs is not None and l.get('k') == 'bin' and l['op'] == '-' and estr(l['r']) == ixs and field_is(l['l'], 'len', 'ipc_auth_data')
    why = 'the handshake receive is not "len - processed bytes at &bytes[processed]"'
    if ok:
        # the offset counts bytes: the indexed object is a byte pointer (an offset added to a pointer to the record is scaled by its size)
        barr = unwrap(b['e'])['b']
        ty = None
        if unwrap(barr).get('k') == 'var':
            ty = ([ev.d.get('ty') for ev in h.events('DECL') if ev.d['var'] == unwrap(barr)['n']] + [pp.get('ty') for pp in h.params if pp['n'] == unwrap(barr)['n']] + [None])[0]
        elif barr.get('k') == 'cast':
            ty = barr.get('ty')
        ok = ty is not None and ty.replace('const ', '').strip() in ('char *', 'unsigned char *', 'signed char *', 'uint8_t *', 'int8_t *')
        why = 'the receive position is indexed through %s, not through a byte pointer: the offset "processed" is scaled by the element size' % ty
    ctx.check('R1', 'recv_msghdr:remaining=len-processed', ok, leng[0] if leng else h, 'the handshake receive asks for len - processed bytes at byte offset processed',
              why + ' - the second piece of a handshake that arrives in pieces is written outside the record')
    # len is only written by init_ipc_auth_data from its parameter; callers pass sizeof(record) <= sizeof(data->msg)
    ws = prog.writers('len', 'ipc_auth_data')
    okw = bool(ws) and all(fn.name == 'init_ipc_auth_data' for (fn, _e) in ws)
    ini = prog.fn('init_ipc_auth_data')
    calls = prog.callers_of('init_ipc_auth_data')
    rec = prog.record('ipc_auth_data')
    msgsz = [fl['bytes'] for fl in rec['fields'] if fl['n'] == 'msg'][0]
    okc = bool(calls) and all(cval(unwrap(ev.args[1])) is not None and cval(unwrap(ev.args[1])) <= msgsz for (_g, ev) in calls)
    ctx.check('R1', 'recv_msghdr:len<=sizeof(msg)', okw and okc, ws[0][1] if ws else ini,
              'the record length is a constant <= sizeof(data->msg) (%d)' % msgsz, 'the handshake record length can exceed the %d-byte record buffer' % msgsz)
    procs = [ev for ev in h.events('STORE') if field_is(ev.lhs, 'processed', 'ipc_auth_data')]
    okp = bool(procs) and all(ev.d['op'] == '+=' for ev in procs)
    ctx.check('R1', 'recv_msghdr:processed-advances-by-result', okp, procs[0] if procs else h, 'processed advances by the number of bytes received',
              'processed is updated otherwise')


def r2(ctx):
    prog = ctx.prog
    f = prog.fn('_process_request_')
    mp = list(f.calls('qb_ipcs_service_handlers::msg_process'))
    if len(mp) != 1:
        raise AnalysisBroken('_process_request_: msg_process sites = %d' % len(mp))
    ev = mp[0]
    szarg = estr(ev.args[2])
    hdrsz = prog.record('qb_ipc_request_header')['size']
    # the local holding the number of bytes received: assigned from recv/peek
    sizev = None
    for st in f.events('STORE'):
        if st.rhs is not None and callee_of(unwrap(st.rhs)) in ('qb_ipcs_funcs::recv', 'qb_ipcs_funcs::peek'):
            sizev = estr(st.lhs)
    if sizev is None:
        raise AnalysisBroken('_process_request_: received-size variable not found')

    def got_header(a, fb):
        return a.ls == sizev and a.op == '>=' and a.rc is not None and a.rc >= hdrsz

    def claim_fits(a, fb):
        return a.ls == szarg and a.op == '<=' and a.rs == sizev

    def claim_min(a, fb):
        return a.ls == szarg and a.op == '>=' and a.rc is not None and a.rc >= hdrsz
    if szarg == sizev:
        ctx.ok('R2', 'reported-size<=received', ev, 'msg_process is told the number of bytes received')
    else:
        ctx.check('R2', 'reported-size<=received', f.uncut_path(ev, claim_fits) is None, ev,
                  'the size reported to msg_process (%s) is cut by <= %s (bytes received)' % (szarg, sizev),
                  'msg_process is told %s, a peer-controlled value not compared with the %s bytes actually received' % (szarg, sizev))
        ctx.check('R2', 'reported-size>=header', f.uncut_path(ev, claim_min) is None, ev, 'the reported size covers at least the header',
                  'msg_process can be told a size smaller than the header it is handed')
    # "bytes received" is itself bounded by the negotiated maximum: a receive into a buffer is bounded by the capacity it was given;
    # a peek into the shared ring returns the chunk length word, which the peer wrote
    def within_max(a, fb):
        return a.ls == sizev and a.op == '<=' and last_field(a.r) is not None and last_field(a.r)[1] == 'max_msg_size'
    cut = f.uncut_path(ev, within_max) is None
    unb = []
    for st in f.events('STORE'):
        c = unwrap(st.rhs) if st.rhs is not None else {}
        if estr(st.lhs) != sizev:
            continue
        if callee_of(c) == 'qb_ipcs_funcs::recv':
            cap = c['args'][2]
            if not (last_field(cap) is not None and last_field(cap)[1] == 'max_msg_size'):
                unb.append(st)
        elif callee_of(c) == 'qb_ipcs_funcs::peek':
            unb.append(st)
    ctx.check('R2', 'received<=negotiated-maximum', cut or not unb, unb[0] if unb and not cut else ev,
              'the received length is compared with max_msg_size before msg_process runs' if cut else 'every receive is bounded by max_msg_size',
              'the length taken from %s is never compared with the negotiated maximum: on shared memory it is the chunk length word the peer '
              'wrote into the ring, so msg_process can be told any size (2 GiB for 16 bytes written)' % (estr(unwrap(unb[0].rhs))[:60] if unb else '?'))
    # with the shared-memory transport the header lies in the ring, which the client can write to while the server is looking at it:
    # the size that is checked must be the size that is reported - a local that is loaded from the header once, not the header field
    # itself (two loads of the field are two values)
    sz_u = unwrap(ev.args[2])
    shared_path = bool(list(f.calls('qb_ipcs_funcs::peek')) or any(st.rhs is not None and callee_of(unwrap(st.rhs)) == 'qb_ipcs_funcs::peek' for st in f.events('STORE')))
    once = True
    if shared_path:
        if sz_u.get('k') != 'var' or sz_u.get('sc') != 'l':
            once = False
        else:
            ds = [st for st in f.events() if (st.kind == 'STORE' and estr(st.lhs) == sz_u['n'] and cval(unwrap(st.rhs)) is None) or
                  (st.kind == 'DECL' and st.d['var'] == sz_u['n'] and 'init' in st.d and cval(unwrap(st.d['init'])) is None)]
            once = len(ds) == 1 and not any(f.may_follow(ds[0], ds[0]) for _ in (0,))
    ctx.check('R2', 'reported-size-is-the-checked-value', once, ev,
              'the reported size is a local loaded from the header once',
              'msg_process is told %s, read from the request header again after the checks: on shared memory the header lies in the ring the client writes, a client '
              'thread flipping the word between 64 and 0x40000000 gets the server to check the one and report the other' % estr(ev.args[2]))
    ctx.check('R2', 'header-received-before-use', f.uncut_path(ev, got_header) is None, ev, 'msg_process runs only when a whole header was received',
              'msg_process can run on fewer bytes than a request header (stale buffer contents are interpreted)')


def r3(ctx):
    prog = ctx.prog
    f = prog.fn('process_auth')
    hn = list(f.calls('handle_new_connection'))
    if len(hn) != 1:
        raise AnalysisBroken('process_auth: handle_new_connection sites = %d' % len(hn))
    ev = hn[0]
    rcv = [st for st in f.events('STORE') if st.rhs is not None and callee_of(unwrap(st.rhs)) == 'qb_ipc_us_recv_msghdr']
    crd = [st for st in f.events('STORE') if st.rhs is not None and callee_of(unwrap(st.rhs)) == 'qb_ipc_auth_creds']
    if len(rcv) != 1 or len(crd) != 1:
        raise AnalysisBroken('process_auth: receive=%d creds=%d' % (len(rcv), len(crd)))
    resv = estr(rcv[0].lhs)

    lenx = None
    for b_ in f.blocks.values():
        if b_.cond is not None:
            for n in walk(b_.cond):
                if n.get('k') == 'mem' and n['f'] == 'len' and n.get('rec') == 'ipc_auth_data':
                    lenx = estr(n)
    from engine.qb import abstract_run
    if lenx is None:
        ctx.viol('R3', 'complete-record', ev, 'the number of bytes received is never compared with the record length: a connection can be created from a truncated handshake record')
        lenx = '#nolen'

    def scenario(rcv_val, cred_val):
        def eff(x, env):
            if x.d is rcv[0].d:
                return {resv: rcv_val, '#rcv': 1, '#skip': True}
            if x.d is crd[0].d:
                return {estr(crd[0].lhs): cred_val, '#skip': True}
            return None
        visits, _t = abstract_run(f, {lenx: 100, '#rcv': 0}, tracked={lenx, resv, estr(crd[0].lhs), '#rcv'}, effect=eff)
        return {x.callee for (x, env) in visits if x.kind == 'CALL' and env.get('#rcv') == 1}
    short = scenario(40, 0)
    ctx.check('R3', 'complete-record', 'handle_new_connection' not in short and 'close' in short, ev,
              'a truncated handshake record (40 of 100 bytes) closes the socket and creates no connection',
              'a connection can be created from a truncated handshake record')
    nocred = scenario(100, -22)
    ctx.check('R3', 'credentials-obtained', 'handle_new_connection' not in nocred and 'close' in nocred, ev,
              'without kernel credentials the socket is closed and no connection is created', 'a connection can be created without credentials')
    good = scenario(100, 0)
    ctx.check('R3', 'complete-record-accepted', 'handle_new_connection' in good, ev, 'a complete, credentialed record reaches handle_new_connection (positive control)',
              'even a complete record no longer reaches handle_new_connection (rule evaluation broken)')
    early = scenario(-11, 0)
    ctx.check('R3', 'eagain-yields', 'handle_new_connection' not in early and 'close' not in early and 'destroy_ipc_auth_data' not in early, ev,
              '-EAGAIN yields to the main loop with everything intact', '-EAGAIN does not simply yield')
    is_auth = lambda a, fb: a.op == '==' and macro_named(a.r, 'QB_IPC_MSG_AUTHENTICATE') and field_is(a.l, 'id')
    h = prog.fn('handle_new_connection')
    allocs = list(h.calls('qb_ipcs_connection_alloc'))
    if not allocs:
        raise AnalysisBroken('handle_new_connection: no connection allocation')
    # the record kind is checked before the call, or inside handle_new_connection before a connection object exists
    kind_ok = f.uncut_path(ev, is_auth) is None or all(h.uncut_path(a, is_auth) is None for a in allocs)
    ctx.check('R3', 'record-kind', kind_ok, ev,
              'a connection is only created for an AUTHENTICATE record', 'a record of another kind can create a connection')
    # the accepted socket is never orphaned: every path through handle_new_connection closes it or stores it in the connection
    sockp = h.params[2]['n']

    def owns_or_closes(x):
        if x.kind == 'CALL' and x.callee in ('qb_ipcc_us_sock_close', 'close', 'shutdown') and x.args and estr(unwrap(x.args[0])) == sockp:
            return True
        return x.kind == 'STORE' and x.rhs is not None and estr(unwrap(x.rhs)) == sockp and last_field(x.lhs) is not None
    okp, pth = h.must_pass(('entry',), owns_or_closes)
    ctx.check('R3', 'socket-closed-or-owned', okp, h, 'every path through handle_new_connection closes the accepted socket or stores it in the connection',
              'a path through handle_new_connection returns with the accepted socket neither closed nor owned by a connection: every such handshake leaks a descriptor '
              '(the caller has already taken it out of the main loop) until accept() fails for everybody', {'path': h.path_lines(pth) if pth else None})
    # every path that does not hand the socket over closes it (unless it yields to the main loop: return 0)
    bad = []
    for r in f.returns():
        if cval(unwrap(r.e)) == 0:
            continue
        hits, _e, _n = f.search(('entry',), goal=lambda x, r=r: x is r,
                                stop=lambda x: x.kind == 'CALL' and (x.callee == 'handle_new_connection' or (x.callee == 'close' and field_is(x.args[0], 'sock'))))
        if hits:
            bad.append(r)
    ctx.check('R3', 'socket-closed-or-handed-over', not bad, bad[0] if bad else f, 'every finishing path closes the socket or hands it to the new connection',
              'a finishing path leaves the peer\'s descriptor open (leak per bad handshake)')
    bad2 = []
    for r in f.returns():
        if cval(unwrap(r.e)) == 0:
            continue
        for pred in (lambda x: x.kind == 'CALL' and x.callee == 'destroy_ipc_auth_data',
                     lambda x: x.kind == 'CALL' and x.callee == 'qb_ipcs_poll_handlers::dispatch_del'):
            hits, _e, _n = f.search(('entry',), goal=lambda x, r=r: x is r, stop=pred)
            if hits:
                bad2.append(r)
    ctx.check('R3', 'record-freed-and-unregistered', not bad2, bad2[0] if bad2 else f, 'every finishing path unregisters the socket and frees the handshake record',
              'a finishing path keeps the handshake record / poll registration (memory and descriptor held by a dead peer)')
    # the yield path keeps everything for the next call
    zero = [r for r in f.returns() if cval(unwrap(r.e)) == 0]
    okz = True
    for r in zero:
        hits, _e, _n = f.search(('entry',), goal=lambda x, r=r: x is r,
                                stop=lambda x: False)
        # on yield nothing may have been destroyed
        dest = [x for x in f.events('CALL') if x.callee in ('destroy_ipc_auth_data', 'close') and f.may_follow(x, r)]
        okz = okz and not dest
    ctx.check('R3', 'yield-keeps-record', okz and bool(zero), zero[0] if zero else f, 'yielding to the main loop keeps the record intact',
              'the record is destroyed on a path that yields to the main loop (use after free on the next call)')


def r4(ctx):
    prog = ctx.prog
    h = prog.fn('handle_new_connection')
    allocs = [st for st in h.events('STORE') if field_is(st.lhs, 'receive_buf') and callee_of(unwrap(st.rhs)) in ('calloc', 'malloc')]
    caps = [st for st in h.events('STORE') if field_is(st.lhs, 'max_msg_size') and 'request' in estr(st.lhs)]
    if len(allocs) != 1 or len(caps) != 1:
        raise AnalysisBroken('handle_new_connection: receive_buf allocs=%d request capacity stores=%d' % (len(allocs), len(caps)))
    a = unwrap(allocs[0].rhs)
    szarg = a['args'][-1] if callee_of(a) == 'calloc' else a['args'][0]
    ctx.check('R4', 'capacity==allocation', estr(szarg) == estr(caps[0].rhs) and (callee_of(a) != 'calloc' or cval(unwrap(a['args'][0])) == 1), caps[0],
              'request.max_msg_size is the allocation size of receive_buf (%s)' % estr(szarg),
              'request.max_msg_size (%s) differs from the receive_buf allocation (%s)' % (estr(caps[0].rhs), estr(szarg)))
    p = prog.fn('_process_request_')
    rc = list(p.calls('qb_ipcs_funcs::recv'))
    ok = len(rc) == 1 and field_is(rc[0].args[2], 'max_msg_size') and 'request' in estr(rc[0].args[2])
    if ok:
        ok = derives(p, rc[0].args[1], rc[0], lambda x: field_is(x, 'receive_buf'))
    ctx.check('R4', 'recv-gets-buffer-and-capacity', ok, rc[0] if rc else p, 'the receive slot gets receive_buf and request.max_msg_size',
              'the receive slot is called with %s / %s' % (estr(rc[0].args[1]) if rc else None, estr(rc[0].args[2]) if rc else None))
    # lower bound of the allocation: the receive path peeks a whole header unconditionally
    hdrsz = prog.record('qb_ipc_request_header')['size']
    f = prog.fn('qb_ipc_us_recv_at_most')
    peek = max([cval(unwrap(ev.args[2])) for ev in f.calls('recv') if cval(unwrap(ev.args[2])) is not None] or [0])
    szv = unwrap(szarg)
    lb = None
    if szv.get('k') == 'var':
        srcs, entry = value_sources(h, szv, allocs[0])
        lbs = []
        for s in srcs:
            lbs.append(_lower_bound(prog, s))
        lb = min(lbs) if lbs and all(x is not None for x in lbs) else None
    ctx.check('R4', 'allocation-covers-header-peek', lb is not None and lb >= peek, allocs[0],
              'receive_buf is at least %s bytes, the unconditional header peek writes %d' % (lb, peek),
              'receive_buf can be smaller than the %d bytes the receive path peeks unconditionally: the size comes from the peer\'s handshake '
              '(lower bound %s)' % (peek, lb))
    # the same peek on the client side lands in the buffer the application handed to qb_ipcc_recv / qb_ipcc_event_recv: decided
    # where it is made, by a test of the capacity parameter
    bufp, capp = f.params[1]['n'], f.params[2]['n']
    fixed = [ev for ev in f.calls('recv') if cval(unwrap(ev.args[2])) is not None and mentions_var(ev.args[1], bufp) or
             (cval(unwrap(ev.args[2])) is not None and derives(f, ev.args[1], ev, lambda x: mentions_var(x, bufp)))]
    if not fixed:
        raise AnalysisBroken('qb_ipc_us_recv_at_most: no fixed-size receive into the caller\'s buffer')
    for ev in fixed:
        k = cval(unwrap(ev.args[2]))

        def fits(a, fb, k=k):
            return a.ls == capp and a.rc is not None and ((a.op == '>=' and a.rc >= k) or (a.op == '>' and a.rc >= k - 1))
        path = f.uncut_path(ev, fits)
        ctx.check('R4', 'fixed-size-receive-fits-the-caller-buffer', path is None, ev,
                  'the %d-byte header peek into the caller\'s buffer is made only when the capacity is at least %d' % (k, k),
                  'the %d-byte header peek is written into the caller\'s buffer whatever its capacity: qb_ipcc_recv / qb_ipcc_event_recv into a buffer shorter than a header overflow it (and then report -EMSGSIZE)' % k,
                  {'path': f.path_lines(path) if path else None})


def _lower_bound(prog, e):
    """a constant lower bound of an unsigned size expression built from MAX / ?: / constants / sizeof, else None (peer-controlled => 0)"""
    e = unwrap(e)
    c = cval(e)
    if c is not None:
        return c
    if e.get('k') == 'cond':
        # QB_MAX(a,b) expands to ((a) > (b) ? (a) : (b))
        cnd = unwrap(e['c'])
        t, f_ = _lower_bound(prog, e['t']), _lower_bound(prog, e['f'])
        if cnd.get('k') == 'bin' and cnd['op'] in ('>', '>=') and estr(cnd['l']) == estr(e['t']) and estr(cnd['r']) == estr(e['f']):
            return max(t or 0, f_ or 0)     # max(a,b) >= both lower bounds
        if t is None or f_ is None:
            return 0
        return min(t, f_)
    if e.get('k') == 'stmtexpr':
        return _lower_bound(prog, e.get('last'))
    return 0


def r5(ctx):
    """reads out of receive_buf: the byte count of a send whose source is receive_buf must be bounded by the buffer size"""
    prog = ctx.prog
    n = 0
    for f in prog.all_fns(files={'lib/ipcs.c', 'lib/ipc_setup.c', 'lib/ipc_shm.c', 'lib/ipc_socket.c'}):
        for ev in f.events('CALL'):
            if ev.callee in ('qb_ipc_us_send', 'send', 'write', 'memcpy') and len(ev.args) >= 3:
                srcarg = ev.args[1]
                if not field_is(srcarg, 'receive_buf'):
                    continue
                n += 1
                ln = unwrap(ev.args[2])
                ok = False
                why = estr(ln)
                c = cval(ln)
                if c is not None:
                    hdr = prog.record('qb_ipc_connection_response')['size']
                    ok = c <= hdr      # the negotiated size is at least a connection response (R4)
                else:
                    # MIN(x, capacity) / (x < cap ? x : cap)
                    if ln.get('k') == 'cond':
                        leaves = [unwrap(ln['t']), unwrap(ln['f'])]
                        cnd = unwrap(ln['c'])
                        capleaf = [x for x in leaves if field_is(x, 'max_msg_size')]
                        if capleaf and cnd.get('k') == 'bin' and cnd['op'] in ('<', '<=', '>', '>='):
                            other = [x for x in leaves if x is not capleaf[0]][0]
                            # the condition compares the two leaves, and the capacity is chosen when the other is larger
                            l_, r_ = estr(cnd['l']), estr(cnd['r'])
                            t_, f_ = estr(ln['t']), estr(ln['f'])
                            is_min = ((l_, r_) == (t_, f_) and cnd['op'] in ('<', '<=')) or ((l_, r_) == (f_, t_) and cnd['op'] in ('>', '>='))
                            ok = is_min
                    if not ok:
                        def bounded(a, fb, ls=estr(ln)):
                            return a.ls == ls and a.op in ('<=', '<') and field_is(a.r, 'max_msg_size')
                        ok = f.uncut_path(ev, bounded) is None
                ctx.check('R5', '%s:read-from-receive_buf' % f.name, ok, ev, 'the %s bytes read from receive_buf are bounded by its size' % why,
                          '%s sends %s bytes starting at receive_buf, a count the peer can drive past the buffer size (heap over-read sent to the peer)' % (f.name, why))
    if n == 0:
        raise AnalysisBroken('no read from receive_buf found (rule instance vanished)')


def r6(ctx):
    prog = ctx.prog
    f = prog.fn('qb_ipcs_dispatch_connection_request')
    arrs = {ev.d['var']: prog.type_info(ev.d.get('ty', '')) for ev in f.events('DECL') if prog.type_info(ev.d.get('ty', '')).get('kind') == 'array'}
    drains = [ev for ev in f.events('CALL') if ev.callee in ('qb_ipc_us_recv',) and len(ev.args) >= 3 and estr(unwrap(ev.args[1])) in arrs and cval(unwrap(ev.args[2])) is None]
    drains += [st for st in f.events('STORE') if st.rhs is not None and callee_of(unwrap(st.rhs)) == 'qb_ipc_us_recv' and
               estr(unwrap(unwrap(st.rhs)['args'][1])) in arrs and cval(unwrap(unwrap(st.rhs)['args'][2])) is None]
    if not drains:
        raise AnalysisBroken('qb_ipcs_dispatch_connection_request: no drain of a counted number of wake-up bytes into a local array')
    call = unwrap(drains[0].rhs) if drains[0].kind == 'STORE' else drains[0].e
    arr, cnt = estr(unwrap(call['args'][1])), estr(unwrap(call['args'][2]))
    size = arrs[arr].get('n')
    loops = f.natural_loops()
    incs = [st for st in f.events('STORE') if estr(st.lhs) == cnt and st.d['op'] != '=']
    inl = [(h, b) for (h, b) in loops.items() if incs and all(st.blk in b for st in incs)]
    if not incs or not inl:
        raise AnalysisBroken('qb_ipcs_dispatch_connection_request: the counter %s is not incremented in a loop' % cnt)
    hdr, body = min(inl, key=lambda x: len(x[1]))
    ctx.check('R6', 'count-steps-by-one', all(st.d['op'] == '++' or (st.d['op'] == '+=' and cval(unwrap(st.rhs)) == 1) for st in incs) and len(incs) == 1, incs[0],
              'the count of wake-up bytes grows by one per turn', 'the count of wake-up bytes grows by more than one per turn of the request loop')
    def starts_within(var):
        """the value `var` has when the loop starts comes from a function of this unit whose returns are constants / clamps of at most the array size"""
        defs = [st for st in f.events('STORE') if estr(st.lhs) == var and st.blk not in body and st.d['op'] == '=']
        ok = False
        for st in defs:
            cal = callee_of(unwrap(st.rhs)) if st.rhs is not None else None
            if not (cal and prog.has_fn(cal)):
                continue
            g = prog.fn(cal)
            tops = []
            for rv in g.returns():
                # an early return of the raw count is fine where it was just seen to be <= 0
                if rv.e is not None and any(a.ls == estr(unwrap(rv.e)) and a.op in ('<=', '<') and a.rc is not None and a.rc <= 1 for (a, _e) in g.guards(rv)):
                    continue
                srcs, _en = value_sources(g, rv.e, rv) if rv.e is not None else ([], False)
                for x in srcs:
                    c = cval(unwrap(x))
                    if c is not None:
                        tops.append(c)
                    elif unwrap(x).get('k') == 'cond':
                        leaves = [cval(unwrap(unwrap(x)['t'])), cval(unwrap(unwrap(x)['f']))]
                        tops.append(max(v for v in leaves if v is not None) if any(v is not None for v in leaves) else None)
                    elif unwrap(x).get('k') in ('call', 'var'):
                        tops.append(None)        # the raw queue length, not cut by anything
                    else:
                        tops.append(None)
            ok = ok or (any(t_ is not None and t_ > 1 for t_ in tops) and None not in tops and max(tops) <= (size or 0))
        return ok, defs
    # the budget: a variable the continuing edges test for > 0 and that starts within the array size
    cands = []
    for b_ in sorted(body):
        blk = f.blocks[b_]
        if blk.cond is None:
            continue
        for (t, lab) in blk.succs:
            if lab in (True, False) and t in body:
                for a in atoms_of(blk.cond, lab):
                    if a.op == '>' and a.rc == 0 and unwrap(a.l).get('k') == 'var' and a.ls not in cands:
                        cands.append(a.ls)
    budget = next((v for v in cands if starts_within(v)[0]), None)
    ctx.check('R6', 'loop-needs-budget', budget is not None, incs[0],
              'the request loop goes on only while its budget (%s, at most the %s bytes of %s when the loop starts) is positive' % (budget, size, arr),
              'the request loop is not bounded by a budget that starts at no more than the %s bytes of %s (tested for > 0: %s)' % (size, arr, cands))
    if budget is not None:
        inside = [st for st in f.events('STORE') if estr(st.lhs) == budget and st.blk in body]
        bad = [st for st in inside if not (st.d['op'] == '--' or (st.d['op'] == '-=' and (cval(unwrap(st.rhs)) or 0) >= 1))]
        ctx.check('R6', 'budget-only-decremented-in-loop', bool(inside) and not bad, bad[0] if bad else inside[0] if inside else incs[0],
                  'inside the loop the budget is only decremented',
                  'inside the request loop the budget %s is given a new value (%s): the bound of %s requests per pass holds for one look at the queue, not for the pass, and the %s wake-up bytes drained afterwards overrun %s[%s] on the stack with bytes the client chose'
                  % (budget, estr(bad[0].rhs) if bad and bad[0].rhs is not None else '', size, cnt, arr, size))


def r7(ctx):
    prog = ctx.prog
    f = prog.fn('qb_ipc_us_recv_msghdr')
    rc = [st for st in f.events('STORE') if st.rhs is not None and callee_of(unwrap(st.rhs)) == 'recvmsg']
    if len(rc) != 1:
        raise AnalysisBroken('qb_ipc_us_recv_msghdr: recvmsg result stores = %d' % len(rc))
    rv = estr(rc[0].lhs)
    back = []
    for b in f.blocks.values():
        if b.cond is None:
            continue
        for (t, lab) in b.succs:
            if lab in (True, False) and any(a.ls == rv and a.op == '==' and a.rc == -1 for a in atoms_of(b.cond, lab)):
                def still_failed(fb, t2, lab2):
                    # do not follow edges on which the result is known not to be -1 any more
                    if fb.cond is None or lab2 not in (True, False):
                        return True
                    return not any(a.ls == rv and ((a.op == '!=' and a.rc == -1) or (a.op == '==' and a.rc is not None and a.rc != -1) or
                                                   (a.op in ('>', '>=') and a.rc is not None and a.rc >= 0)) for a in atoms_of(fb.cond, lab2))
                hits, _e, _n = f.search(('edge', b.id, t), goal=lambda ev: ev.d is rc[0].d, edge_filter=still_failed)
                if hits:
                    back.append(b)
    ctx.check('R7', 'failed-handshake-receive-returns', not back, '%s:%d (qb_ipc_us_recv_msghdr)' % (f.file, back[0].term_ln) if back else rc[0],
              'a failed receive of the handshake returns to the main loop',
              'after a failed receive (%s == -1) the function goes back to recvmsg: with EAGAIN on the server\'s non-blocking socket that is a busy wait inside the main loop - one peer that sends a few bytes of a handshake and stalls stops the service for everybody' % rv)
