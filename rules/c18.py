"""C18 - map iterators stay valid while entries are removed or added."""
from engine.qb import (cmp_forms, cond_cut, Sym, AnalysisBroken, abstract_run, estr, unwrap, cval, walk, last_field, fields_of, callee_of,
                       mentions_var, atoms_of, root_var, TOP)
from rules.common import field_is, has_call, derives, macro_named

UNITS = ['lib/map.c', 'lib/hashtable.c', 'lib/skiplist.c', 'lib/trie.c']
DECIDES = ('Decides that every iterator advance references the next node before dropping the current one, that iteration skips '
           'dead and removed nodes, that a removed entry which parked iterators keep allocated is invisible to rm/get/put (marker '
           'stored by rm and tested by every lookup), that hash nodes stay linked while referenced, that skiplist forward arrays are '
           'never shared and a removed position is re-found by key, that trie entries never move between nodes, and that iterator '
           'creation stores no unreferenced node; which keys an iteration returns over histories is not decided.')
RULES = {
    'R1': 'iter_next: the reference on the next node is taken before the current node is dereferenced on every path that returns a key; the exhaustion path dereferences the current node',
    'R2': 'iteration skips dead nodes (refcount == 0 / not alive)',
    'R3': 'where rm defers unlinking to the last dereference and lookups do not test liveness, every iterator exit (iter_free on a parked iterator) drops the node reference',
    'R4': 'skiplist: forward arrays are never shared between nodes and always freed with their node; an entry removed while referenced is marked before its list reference is dropped; the iterator follows forward pointers only from unmarked nodes and re-finds its place from a marked one by key, strictly after it',
    'R8': 'a removed entry that is still allocated for parked iterators is invisible: where rm leaves the node in the search structure (hashtable, trie) it stores a removal marker first, and its own match, get, put and the iterator\'s choice of the next node all test that marker',
    'R9': 'an entry never moves to another node: no trie node\'s reference count, key or value is copied from another node (iterators hold node pointers)',
    'R10': 'exhaustion is a state of its own: the path of iter_next that ends the iteration (NULL after dropping the parked node) leaves at least one iterator field with a value iter_create does not give it, so that the next call does not start over',
    'R11': 'a get between two steps of an iterator moves nothing: the lookup / get functions of the three implementations change no link, no node and no bookkeeping of the map (= C17.R12) - a chain reordered by a lookup makes the open iterator skip or repeat entries although nothing was added or removed',
    'R5': 'qb_map_foreach frees its iterator on every path; iter_create starts unparked or referenced',
    'R6': 'iter_create stores no unreferenced node pointer in the iterator: every node-pointer field is NULL, the map header (never freed), or referenced before the function returns',
    'R7': 'a node that iterators may be parked on stays linked while referenced: where the advance follows the parked node\'s own links (hashtable), the node is unlinked only at its last dereference (in the destroy function reached with refcount 0) or at map teardown',
    'R12': 'the map holds its own reference on every entry it contains, whoever else references the node: in trie_put the reference taken for a key that had no value is taken under no condition on the node\'s reference count (an iterator that pins a removed node does not stand in for the map - when it lets go the live entry would be destroyed)',
}
FLOORS = {'R12': 1, 'R1': 9, 'R2': 3, 'R3': 2, 'R4': 6, 'R5': 2, 'R6': 4, 'R7': 2, 'R8': 9, 'R9': 1, 'R10': 3, 'R11': 6}

IT = {
    'hashtable': dict(next='hashtable_iter_next', free='hashtable_iter_free', deref='hashtable_node_deref', node='hash_node',
                      rm='hashtable_rm_with_hash', destroy='hashtable_node_destroy', lookup='hashtable_lookup', cur=('hashtable_iter', 'node')),
    'skiplist': dict(next='skiplist_iter_next', free='skiplist_iter_free', deref='skiplist_node_deref', node='skiplist_node',
                     rm='skiplist_rm', destroy='skiplist_node_destroy', lookup='skiplist_lookup', cur=('skiplist_iter', 'n')),
    'trie': dict(next='trie_iter_next', free='trie_iter_free', deref='trie_node_deref', node='trie_node',
                 rm='trie_rm', destroy='trie_node_destroy', lookup='trie_lookup', cur=('trie_iter', 'n')),
}


def _is_inc(ev, m):
    if ev.kind == 'STORE' and ev.d['op'] == '++' and field_is(ev.lhs, 'refcount', m['node']):
        return True
    if ev.kind == 'CALL' and ev.callee in ('trie_node_ref',):
        return True
    return False


def run(ctx):
    prog = ctx.prog
    for name, m in IT.items():
        r1(ctx, name, m)
        r3(ctx, name, m)
    for name, m in IT.items():
        rec = prog.record(m['node'])
        fl = [x for x in rec['fields'] if x['n'] == 'refcount']
        if not fl:
            raise AnalysisBroken('%s: struct %s has no refcount' % (name, m['node']))
        bits = prog.type_info(fl[0]['ty']).get('bits') or (fl[0].get('bytes', 0) * 8)
        ctx.check('R1', '%s:count-holds-any-number-of-iterators' % name, bits >= 32, '%s (struct %s)' % (IT[name]['next'], m['node']),
                  'the per-node count has %s bits' % bits,
                  'the per-node count of struct %s has %s bits: it is 1 for the map plus 1 per iterator positioned on the node (every fresh skiplist iterator sits on the header), so %d open iterators wrap it and the next one that moves on destroys a node the others - and the map - still use'
                  % (m['node'], bits, 2 ** (bits or 1)))
    r2(ctx)
    r4(ctx)
    r5(ctx)
    r6(ctx)
    r7(ctx)
    r8(ctx)
    r9(ctx)
    r10(ctx)
    # R11 = C17.R12: a lookup made while an iterator is open changes nothing the iterator walks
    from rules import c17
    sub = type(ctx)(ctx.prog, ctx.prop, ctx.tier, ctx.depth)
    c17.r12(sub)
    for r in sub.results:
        r['rule'] = 'R11'
        ctx.results.append(r)
    r12(ctx)


def r1(ctx, name, m):
    prog = ctx.prog
    f = prog.fn(m['next'])
    derefs = list(f.calls(m['deref']))
    incs = [ev for ev in f.events() if _is_inc(ev, m)]
    if not derefs:
        raise AnalysisBroken('%s: derefs=%d incs=%d' % (m['next'], len(derefs), len(incs)))
    flags = {estr(ev.lhs) for ev in f.events('STORE') if unwrap(ev.lhs).get('k') == 'var' and cval(unwrap(ev.rhs)) in (0, 1) and ev.d['op'] == '='}
    flags |= {ev.d['var'] for ev in f.events('DECL') if 'init' in ev.d and cval(unwrap(ev.d['init'])) in (0, 1)}

    def effect(ev, env):
        if _is_inc(ev, m):
            return {'#inc': 1}
        if ev.kind == 'CALL' and ev.callee == m['deref']:
            if env.get('#inc') != 1:
                return {'#early': 1, '#deref': 1}
            return {'#deref': 1}
        return None
    visits, terms = abstract_run(f, {'#inc': 0, '#early': 0, '#deref': 0}, tracked=set(flags) | {'#inc', '#early', '#deref'}, effect=effect)
    keyrets = [(ev, env) for (ev, env) in visits if ev.kind == 'RETURN' and ev.e is not None and cval(unwrap(ev.e)) != 0]
    if not keyrets:
        raise AnalysisBroken('%s: no key-returning path' % m['next'])
    bad_noinc = [(ev, env) for (ev, env) in keyrets if env.get('#inc') != 1]
    bad_early = [(ev, env) for (ev, env) in keyrets if env.get('#early') == 1]
    ctx.check('R1', '%s:key-return-holds-reference' % name, not bad_noinc, bad_noinc[0][0] if bad_noinc else keyrets[0][0],
              'every path returning a key has referenced the node it parks on',
              'a key is returned without a reference having been taken on its node: a remove frees the node under the parked iterator')
    ctx.check('R1', '%s:ref-next-before-deref-current' % name, not bad_early, bad_early[0][0] if bad_early else keyrets[0][0],
              'the next node is referenced before the current one is dropped',
              'the current node is dereferenced (and possibly destroyed, unlinking it) before the next node is referenced: the successor is computed from / can be freed memory')
    # the successor is computed before the current node is dropped
    succ_calls = [ev for ev in f.events('CALL') if ev.callee in ('skiplist_node_next', 'trie_node_next')]
    for sc in succ_calls:
        early = [d for d in derefs if f.may_follow(d, sc) and not f.may_follow(sc, d)]
        ctx.check('R1', '%s:successor-before-deref' % name, not early, sc, 'the successor is looked up while the current node is still referenced',
                  'the successor is looked up after the current node was dereferenced')
    # exhaustion path: NULL return after the iterator was parked dereferences the current node
    nullrets = [(ev, env) for (ev, env) in visits if ev.kind == 'RETURN' and ev.e is not None and cval(unwrap(ev.e)) == 0 and env.get('#deref') != 1]
    # allowed only if the path crossed the "current == NULL" edge; decide with a cut query
    curf = m['cur'][1]

    def notparked(fb, t, lab):
        if fb.cond is None or lab not in (True, False):
            return True
        for a in atoms_of(fb.cond, lab):
            if a.op == '==' and a.rc == 0:
                l = unwrap(a.l)
                if l.get('k') == 'var' and derives(f, l, f.end_of(fb.id), lambda x: field_is(x, curf)):
                    # a local snapshot of the parked node: it must have been taken before the field is re-assigned
                    defs, _en = f.reaching_defs(l['n'], f.end_of(fb.id))
                    if not any(f.may_follow(st, d) for d in defs for st in f.stores(field=curf)):
                        return False
                elif field_is(l, curf):
                    # the field itself: only while it still holds the entry value
                    if not any(st.blk == fb.id or fb.id in f._block_reach()[st.blk] for st in f.stores(field=curf)):
                        return False
        return True
    exits_wo = []
    for nr in {id(ev.d): ev for (ev, env) in nullrets}.values():
        hits, _e, _n = f.search(('entry',), goal=lambda ev, nr=nr: ev is nr or ev.d is nr.d,
                                stop=lambda ev: ev.kind == 'CALL' and ev.callee == m['deref'], edge_filter=notparked)
        if hits:
            exits_wo.append(nr)
    # flag-correlated paths (found/!found) are filtered by the abstract run above: only report when both agree
    ctx.check('R1', '%s:exhaustion-drops-current' % name, not exits_wo, exits_wo[0] if exits_wo else f,
              'when the iteration is exhausted the parked node is dereferenced',
              'the iteration can end (NULL) without dropping the reference on the parked node')


def r2(ctx):
    prog = ctx.prog
    f = prog.fn('hashtable_iter_next')
    incs = [ev for ev in f.events() if _is_inc(ev, IT['hashtable'])]

    def alive(a, fb):
        return a.op == '>' and a.rc == 0 and field_is(a.l, 'refcount', 'hash_node')
    for ev in incs:
        ctx.check('R2', 'hashtable:iter-skips-dead', f.uncut_path(ev, alive) is None, ev, 'the hashtable iterator only parks on nodes with refcount > 0',
                  'the hashtable iterator can park on a removed node (refcount 0)')
    g = prog.fn('skiplist_node_next')
    rets = g.returns()

    def live_or_end(a, fb):
        return (a.op == '==' and a.rc == 0 and unwrap(a.l).get('k') == 'var') or (a.op == '!=' and a.rc == 0 and field_is(a.l, 'refcount', 'skiplist_node'))
    ok = bool(rets) and all(g.uncut_path(r, live_or_end) is None for r in rets)
    ctx.check('R2', 'skiplist:next-skips-dead', ok, g, 'skiplist_node_next skips nodes with refcount == 0', 'skiplist_node_next can return a removed node')
    t = prog.fn('trie_node_next')
    nonnull = [r for r in t.returns() if r.e is not None and cval(unwrap(r.e)) != 0]

    def alive_or_all(a, fb):
        return a.op == '!=' and a.rc == 0 and (callee_of(unwrap(a.l)) == 'trie_node_alive' or estr(a.l) == t.params[2]['n'])
    # returns of a variable that may be NULL are fine; require the cut only for returns inside an `if (n)` region
    bad = []
    for r in nonnull:
        gl = [a for (a, _e) in t.guards(r)]
        if any(a.op == '!=' and a.rc == 0 and a.ls == estr(r.e) for a in gl):
            if t.uncut_path(r, alive_or_all) is not None:
                bad.append(r)
    ctx.check('R2', 'trie:next-skips-dead', not bad and bool(nonnull), bad[0] if bad else t, 'trie_node_next returns only live nodes unless asked for all',
              'trie_node_next can return a dead (valueless) node to an iterator')


def _rm_unlinks_directly(prog, name, m):
    """does rm itself unlink the node from the search structure?"""
    f = prog.fn(m['rm'])
    if name == 'skiplist':
        return any(ev.kind == 'STORE' and unwrap(ev.lhs).get('k') == 'idx' and field_is(unwrap(ev.lhs)['b'], 'forward') for ev in f.events())
    if name == 'hashtable':
        return any(ev.callee == 'qb_list_del' for ev in f.events('CALL'))
    if name == 'trie':
        return any(ev.kind == 'STORE' and unwrap(ev.lhs).get('k') == 'idx' and field_is(unwrap(ev.lhs)['b'], 'children') for ev in f.events())
    return False


def _lookup_tests_liveness(prog, name, m):
    f = prog.fn(m['lookup'])
    for b in f.blocks.values():
        if b.cond is not None and any(n.get('k') == 'mem' and n['f'] == 'refcount' for n in walk(b.cond)):
            return True
        if b.cond is not None and has_call(b.cond, 'trie_node_alive'):
            return True
    return False


def r3(ctx, name, m):
    prog = ctx.prog
    direct = _rm_unlinks_directly(prog, name, m)
    live = _lookup_tests_liveness(prog, name, m)
    fr = prog.fn(m['free'])
    if direct or live:
        ctx.ok('R3', '%s:iter_free' % name, fr, 'rm %s; no obligation on iter_free' % ('unlinks the node itself' if direct else 'is seen by lookups through a liveness test'))
        return
    curf = m['cur'][1]

    def notparked(fb, t, lab):
        if fb.cond is None or lab not in (True, False):
            return True
        return not any(a.op == '==' and a.rc == 0 and field_is(a.l, curf) for a in atoms_of(fb.cond, lab))
    _h, exits, _n = fr.search(('entry',), stop=lambda ev: ev.kind == 'CALL' and ev.callee == m['deref'], edge_filter=notparked)
    ctx.check('R3', '%s:iter_free-drops-parked-reference' % name, not exits, fr,
              'freeing a parked iterator drops its node reference',
              'rm defers unlinking to the last dereference and lookups do not test liveness, but freeing a parked iterator keeps its reference: '
              'a later remove of that key leaves a node that get/rm still find (count wraps)')


def r4(ctx):
    """skiplist: a removed node that iterators are still positioned on must never be advanced from through links that can go
    stale.  Two repairs meet that: (a) as the tree does it now - the node is marked and the iterator re-finds its place by key,
    forward arrays are never shared; (b) every node the stale links can lead to is kept allocated (pinned) until the removed node
    is destroyed.  What cannot meet it is sharing one forward array between two nodes without tracking the sharing (D24)."""
    prog = ctx.prog
    rm = prog.fn('skiplist_rm')
    # 1. a node's forward array belongs to that node alone
    shares = []
    for f in prog.all_fns():
        if not f.file.endswith('skiplist.c'):
            continue
        for ev in f.stores(field='forward', rec='skiplist_node'):
            if unwrap(ev.lhs).get('k') == 'mem' and ev.rhs is not None and any(n.get('k') == 'mem' and n.get('f') == 'forward' and n.get('rec') == 'skiplist_node' for n in walk(ev.rhs)):
                shares.append((f, ev))
    ctx.check('R4', 'forward-array-never-shared', not shares, shares[0][1] if shares else rm,
              'no node is given another node\'s forward array',
              'a node is repointed to another node\'s forward array: the array is then freed with whichever of the two nodes goes first while the other '
              '(a removed node an iterator is positioned on, or the list header) still reads it')
    d = prog.fn('skiplist_node_destroy')
    ff = [ev for ev in d.calls('free') if field_is(ev.args[0], 'forward', 'skiplist_node')]
    if len(ff) != 1:
        raise AnalysisBroken('skiplist_node_destroy: forward frees = %d' % len(ff))
    nf = [ev for ev in d.calls('free') if estr(ev.args[0]) == d.params[0]['n']]
    ok = bool(nf) and all(d.ev_dominates(ff[0], x) for x in nf)
    ctx.check('R4', 'destroy-frees-own-array', ok, ff[0], 'a node frees its own forward array whenever it is freed', 'a node can be freed without its forward array (or the array is freed under a condition): leak / stale sharing protocol')
    # 2. rm marks a node that stays referenced
    marks = [ev for ev in rm.stores(field='level', rec='skiplist_node')]
    LEVEL_MIN = 0

    def referenced(a, fb):
        return field_is(a.l, 'refcount', 'skiplist_node') and ((a.op == '>' and a.rc == 1) or (a.op == '>=' and a.rc == 2))
    deref = list(rm.calls('skiplist_node_deref'))
    ok = bool(marks) and bool(deref) and all(cval(unwrap(mk.rhs)) is not None and cval(unwrap(mk.rhs)) < LEVEL_MIN for mk in marks) and \
        all(rm.may_follow(mk, deref[0]) for mk in marks)
    # every path on which the node stays referenced passes a mark: block edges that say refcount <= 1
    if ok:
        def only_referenced(fb, t, lab):
            if fb.cond is None or lab not in (True, False):
                return True
            return not any(field_is(a.l, 'refcount', 'skiplist_node') and ((a.op == '<=' and a.rc == 1) or (a.op == '<' and a.rc == 2)) for a in atoms_of(fb.cond, lab))
        splice = [ev for ev in rm.events('STORE') if unwrap(ev.lhs).get('k') == 'idx' and field_is(unwrap(ev.lhs)['b'], 'forward')]
        if not splice:
            raise AnalysisBroken('skiplist_rm: splice store not found')
        hits, _e, _n = rm.search(('after', splice[-1]), goal=lambda ev: ev.d is deref[0].d, stop=lambda ev: any(ev.d is mk.d for mk in marks), edge_filter=only_referenced)
        ok = not hits
    ctx.check('R4', 'removed-node-marked-while-referenced', ok, marks[0] if marks else rm,
              'an entry removed while iterators are positioned on it is marked as removed (level below the minimum) before its list reference is dropped',
              'an entry removed under an iterator is not marked: the iterator would advance through the stale forward pointers of a node that is off the list')
    # 3. the iterator never follows the links of a marked node
    nx = prog.fn('skiplist_iter_next')
    follow = [ev for ev in nx.calls('skiplist_node_next')]
    if not follow:
        raise AnalysisBroken('skiplist_iter_next: no skiplist_node_next call')

    def not_removed(a, fb):
        return field_is(a.l, 'level', 'skiplist_node') and ((a.op == '>=' and a.rc == LEVEL_MIN) or (a.op == '>' and a.rc == LEVEL_MIN - 1))
    ok = all(nx.uncut_path(ev, not_removed) is None for ev in follow)
    ctx.check('R4', 'iterator-does-not-follow-removed-links', ok, follow[0],
              'skiplist_iter_next follows forward pointers only from a node that is still on the list',
              'skiplist_iter_next follows the forward pointers of a removed node: they are stale (the successor may be gone)')
    # ... and continues by key instead
    alt = [ev for ev in nx.events('CALL') if ev.callee not in ('skiplist_node_next', 'skiplist_node_deref') and any(
        n.get('k') == 'mem' and n.get('f') == 'key' and n.get('rec') == 'skiplist_node' for a in ev.args for n in walk(a))]
    ctx.check('R4', 'removed-position-refound-by-key', bool(alt), alt[0] if alt else nx,
              'from a removed node the iterator continues with %s(.., key)' % (alt[0].callee if alt else ''),
              'skiplist_iter_next has no way to continue from a removed node')
    if alt:
        g = prog.fn(alt[0].callee)
        # the re-lookup advances while key <= position (strictly greater keys only are returned: nothing twice)
        cmpb = [bk for bk in g.blocks.values() if bk.cond is not None and has_call(bk.cond, 'strcmp')]
        ok = bool(cmpb) and all(any(o in ('<=',) and cval(unwrap(r)) == 0 and callee_of(unwrap(l)) == 'strcmp' for (l, o, r) in cmp_forms(bk.cond)) or
                                 any(o in ('>',) and cval(unwrap(r)) == 0 and callee_of(unwrap(l)) == 'strcmp' for (l, o, r) in cmp_forms(bk.cond)) for bk in cmpb)
        ctx.check('R4', 'refind-is-strictly-after', ok, g, 'the re-lookup skips every key that does not sort after the removed position', 'the re-lookup can return the removed position\'s own key or an earlier one again')


def r5(ctx):
    prog = ctx.prog
    f = prog.fn('qb_map_foreach')
    cr = list(f.calls('qb_map_iter_create')) + list(f.calls('qb_map_pref_iter_create'))
    if not cr:
        raise AnalysisBroken('qb_map_foreach: no iterator creation')
    ok, p = f.must_pass(('after', cr[0]), lambda ev: ev.kind == 'CALL' and ev.callee == 'qb_map_iter_free')
    ctx.check('R5', 'foreach-frees-iterator', ok, cr[0], 'qb_map_foreach frees its iterator on every path, including the early exit',
              'qb_map_foreach can return without freeing its iterator (parked reference stays)', {'path': f.path_lines(p) if p else None})
    mf = prog.fn('qb_map_iter_free')
    calls = list(mf.calls('qb_map::iter_free'))
    ctx.check('R5', 'iter_free-dispatch', len(calls) == 1, mf, 'qb_map_iter_free dispatches to the implementation', 'qb_map_iter_free does not call the implementation')


CREATE = {'hashtable': 'hashtable_iter_create', 'skiplist': 'skiplist_iter_create', 'trie': 'trie_iter_create'}


def r6(ctx):
    prog = ctx.prog
    for name, m in IT.items():
        f = prog.fn(CREATE[name])
        irec = m['cur'][0]
        rec = prog.record(irec)
        nodeptr = 'struct %s *' % m['node']
        nfields = [fl['n'] for fl in rec['fields'] if fl['ty'] == nodeptr]
        if not nfields:
            raise AnalysisBroken('%s: no node pointer field in %s' % (name, irec))
        for fld in nfields:
            sts = [st for st in f.events('STORE') if last_field(st.lhs) == (irec, fld)]
            if not sts:
                ctx.check('R6', '%s:%s-initialised' % (name, fld), False, f, '', '%s leaves %s.%s uninitialised' % (f.name, irec, fld))
                continue
            for st in sts:
                r = unwrap(st.rhs)
                lf = last_field(r)
                safe = cval(r) == 0 or (lf is not None and lf[1] == 'header')
                if not safe:
                    # referenced before every return?
                    incs = [ev for ev in f.events() if _is_inc(ev, m) and f.may_follow(st, ev)]
                    rets = [x for x in f.returns() if f.may_follow(st, x)]
                    safe = bool(incs) and all(any(f.ev_dominates(i, x) for i in incs) for x in rets)
                else:
                    # the header: either never freed (no reference needed) or referenced - both fine
                    pass
                ctx.check('R6', '%s:%s' % (name, fld), safe, st, '%s.%s starts as NULL / the map header / a referenced node' % (irec, fld),
                          '%s stores %s in %s.%s without a reference: removing that node before the first advance leaves the iterator with a dangling pointer' % (f.name, estr(st.rhs), irec, fld))


def r7(ctx):
    prog = ctx.prog
    m = IT['hashtable']
    nxt = prog.fn(m['next'])
    # does the advance continue from the parked node's own links?
    follows = any(last_field(ev.e) == ('qb_list_head', 'next') for ev in nxt.events('LOAD')) or \
        any(n.get('k') == 'mem' and n.get('f') == 'list' and n.get('rec') == m['node'] for ev in nxt.events() for root in (ev.e, ev.rhs) if root is not None for n in walk(root))
    if not follows:
        ctx.note('hashtable_iter_next no longer follows the parked node\'s list links: R7 has nothing to require')
        ctx.ok('R7', 'hashtable:advance-independent-of-node-links', nxt, 'the advance does not use the parked node\'s links')
        ctx.ok('R7', 'hashtable:unlink-sites', nxt, 'not required')
        return
    sites = []
    for f in prog.all_fns():
        if not f.file.endswith('hashtable.c'):
            continue
        for ev in f.calls('qb_list_del'):
            if any(n.get('k') == 'mem' and n.get('f') == 'list' and n.get('rec') == m['node'] for n in walk(ev.args[0])):
                sites.append((f, ev))
    if not sites:
        raise AnalysisBroken('hashtable: no unlink of a hash node found')
    deref = prog.fn(m['deref'])
    for (f, ev) in sites:
        ok = False
        why = ''
        if f.name == m['destroy']:
            # every caller reaches destroy only with the count at zero (deref's early return on refcount > 0) or is the map teardown
            callers = [(g, c) for (g, c) in prog.callers_of(m['destroy'])]
            ok = bool(callers)
            for (g, c) in callers:
                if g.name == m['deref']:
                    def zero(a, fb):
                        return field_is(a.l, 'refcount', m['node']) and ((a.op == '<=' and a.rc == 0) or (a.op == '==' and a.rc == 0) or (a.op == '<' and a.rc == 1))
                    if g.uncut_path(c, zero) is not None:
                        ok = False
                        why = '%s calls it without refcount having reached 0' % g.name
                elif g.name in ('hashtable_destroy',):
                    pass
                else:
                    ok = False
                    why = 'called from %s' % g.name
        else:
            why = 'unlinked in %s, where iterators may still hold a reference' % f.name
        ctx.check('R7', 'hashtable:unlink-only-at-last-deref:%s' % f.name, ok, ev, 'the node leaves its bucket list only when its last reference is dropped',
                  'a hash node is unlinked while iterators may be parked on it (%s): the advance then follows stale links into freed nodes' % why)
    ctx.check('R7', 'hashtable:unlink-sites', True, sites[0][1], '%d unlink site(s)' % len(sites), '')


def r8(ctx):
    prog = ctx.prog
    sites = {
        'hashtable': dict(rm='hashtable_rm_with_hash'),
        'trie': dict(rm='trie_rm'),
    }
    for name, cfg in sites.items():
        m = IT[name]
        if _rm_unlinks_directly(prog, name, m):
            ctx.ok('R8', '%s:rm-unlinks' % name, prog.fn(cfg['rm']), 'rm takes the node out of the search structure itself')
            continue
        rm = prog.fn(cfg['rm'])
        rec = m['node']
        derefs = list(rm.calls(m['deref']))
        if not derefs:
            raise AnalysisBroken('%s: no dereference' % cfg['rm'])
        # marker: a field of the node stored with a non-zero constant before the dereference
        marks = [ev for ev in rm.events('STORE') if last_field(ev.lhs) and last_field(ev.lhs)[0] == rec and cval(unwrap(ev.rhs)) not in (0, None) and
                 ev.d['op'] == '=' and any(rm.ev_dominates(ev, d) for d in derefs)]
        if not marks:
            ctx.check('R8', '%s:rm-marks-removed' % name, False, derefs[0], '',
                      '%s drops the map\'s reference but leaves the node findable: while an iterator is positioned on the entry a second remove '
                      'succeeds too (count goes down twice, the iterator\'s reference is dropped under it), get still returns it' % cfg['rm'])
            continue
        fld = last_field(marks[0].lhs)[1]
        ctx.check('R8', '%s:rm-marks-removed' % name, True, marks[0], 'rm stores %s.%s before dropping the map\'s reference' % (rec, fld), '')

        def unmarked(a, fb, fld=fld, rec=rec):
            return field_is(a.l, fld, rec) and a.op == '==' and a.rc == 0
        # rm's own match
        ctx.check('R8', '%s:rm-needs-unmarked' % name, all(rm.uncut_path(d, unmarked) is None for d in derefs), derefs[0],
                  'rm only matches an entry that is not marked removed', 'rm matches an entry that was already removed: it succeeds twice for one insertion')
        if name == 'hashtable':
            # every place that accepts a node because its key compares equal also requires it to be unmarked
            n_match = 0
            for f in prog.all_fns():
                if not f.file.endswith('hashtable.c'):
                    continue
                for bk in f.blocks.values():
                    if bk.cond is None or not has_call(bk.cond, 'strcmp'):
                        continue
                    for (t, lab) in bk.succs:
                        if lab not in (True, False):
                            continue
                        if any(a.op == '==' and a.rc == 0 and callee_of(unwrap(a.l)) == 'strcmp' for a in atoms_of(bk.cond, lab)):
                            n_match += 1
                            ok = cond_cut(bk.cond, lab, lambda a: unmarked(a, bk)) or any(unmarked(a, bk) for (a, _e) in f.guards(bk.id))
                            ctx.check('R8', 'hashtable:%s:key-match-needs-unmarked' % f.name, ok, '%s:%d (%s)' % (f.file, bk.term_ln, f.name),
                                      'a node is accepted for a key only if it is not marked removed',
                                      '%s accepts a node by key alone: an entry that was removed (and is only kept for the iterators positioned on it) is found again' % f.name)
            if n_match < 3:
                raise AnalysisBroken('hashtable: only %d key matches found (lookup, rm, put expected)' % n_match)
            nx = prog.fn(m['next'])
            parks = [ev for ev in nx.events() if _is_inc(ev, m)]
            if not parks:
                raise AnalysisBroken('hashtable_iter_next: no reference taken')
            bad = [x for x in parks if nx.uncut_path(x, unmarked) is not None]
            ctx.check('R8', 'hashtable:iterate-skips-removed', not bad, bad[0] if bad else parks[0], 'the iterator does not park on an entry marked removed',
                      'a second iterator returns an entry that has been removed')
        else:
            g = prog.fn('trie_get')
            tg = [r for r in g.returns() if r.e is not None and last_field(unwrap(r.e)) == (rec, 'value')]
            if not tg:
                raise AnalysisBroken('trie_get: value return not found')
            ctx.check('R8', 'trie:get-skips-removed', all(g.uncut_path(x, unmarked) is None for x in tg), tg[0], 'get does not return the value of an entry marked removed',
                      'get still returns the value of an entry that has been removed')
            # put on a marked node: an insertion (marker cleared, reference taken, count raised), not a replacement
            pf = prog.fn('trie_put')
            nodev = [st.d['var'] for st in pf.events('DECL') if st.d.get('init') is not None and callee_of(unwrap(st.d['init'])) == 'trie_insert']
            if len(nodev) != 1:
                raise AnalysisBroken('trie_put: the inserted node is not a single local')
            mk = '%s->%s' % (nodev[0], fld)
            olds = [st.d['var'] for st in pf.events('DECL') if st.d.get('init') is not None and last_field(unwrap(st.d['init'])) == (rec, 'value')]
            visits, _t = abstract_run(pf, {mk: 1, nodev[0]: Sym('node')} if False else {mk: 1}, tracked={mk} | set(olds))
            calls = [ev for (ev, env) in visits if ev.kind == 'CALL']
            replaced = [ev for ev in calls if any(macro_named(a, 'QB_MAP_NOTIFY_REPLACED') for a in ev.args)]
            refs = [ev for ev in calls if ev.callee == 'trie_node_ref']
            cleared = [ev for (ev, env) in visits if ev.kind == 'STORE' and last_field(ev.lhs) == (rec, fld) and cval(unwrap(ev.rhs)) == 0]
            ctx.check('R8', 'trie:put-on-removed-is-an-insertion', bool(refs) and bool(cleared) and not replaced, pf,
                      'put on an entry marked removed clears the mark, takes the map\'s reference and does not report a replacement',
                      'put on an entry that was removed (kept for parked iterators) %s: the entry disappears again when the iterator moves on' % (
                          'is treated as a replacement' if replaced else 'does not take the map\'s reference back / clear the mark'))
            nn = prog.fn('trie_node_next')
            allp = nn.params[2]['n']

            def unmarked_or_all(a, fb):
                return unmarked(a, fb) or (a.ls == allp and a.op == '!=' and a.rc == 0)
            tg = []
            for r in nn.returns():
                if r.e is not None and cval(unwrap(r.e)) != 0 and any(a.op == '!=' and a.rc == 0 and a.ls == estr(unwrap(r.e)) for (a, _e) in nn.guards(r)):
                    tg.append(r)
            if not tg:
                raise AnalysisBroken('trie_node_next: no guarded node return')
            bad = [x for x in tg if nn.uncut_path(x, unmarked_or_all) is not None]
            ctx.check('R8', 'trie:iterate-skips-removed', not bad, bad[0] if bad else tg[0], 'iteration steps over entries marked removed (unless asked for all nodes)',
                      'a second iterator returns an entry that has been removed')
            # the first step of a prefix iterator parks on the prefix root itself: only if that entry is not marked either
            ti = prog.fn('trie_iter_next')
            starts = [st for st in ti.stores(field=m['cur'][1], rec=m['cur'][0]) if last_field(unwrap(st.rhs)) == (m['cur'][0], 'root')]
            if not starts:
                raise AnalysisBroken('trie_iter_next: the prefix-root start was not found')
            bad = [x for x in starts if ti.uncut_path(x, unmarked) is not None]
            ctx.check('R8', 'trie:prefix-start-skips-removed', not bad, bad[0] if bad else starts[0], 'a prefix iterator does not start on an entry marked removed',
                      'a prefix iterator created while another iterator stands on a removed entry returns that removed key')


def r9(ctx):
    prog = ctx.prog
    bad = []
    n = 0
    for f in prog.all_fns():
        if not f.file.endswith('trie.c'):
            continue
        for ev in f.events('STORE'):
            lf = last_field(ev.lhs)
            if lf and lf[0] == 'trie_node' and lf[1] in ('refcount', 'value', 'key'):
                n += 1
                if ev.rhs is not None and any(x.get('k') == 'mem' and x.get('rec') == 'trie_node' and x.get('f') == lf[1] for x in walk(ev.rhs)) and \
                        root_var(ev.rhs) is not None and root_var(ev.lhs) is not None and root_var(ev.rhs)['n'] != root_var(ev.lhs)['n']:
                    bad.append(ev)
    if n < 4:
        raise AnalysisBroken('trie.c: only %d stores to refcount/value/key' % n)
    ctx.check('R9', 'trie:entry-stays-in-its-node', not bad, bad[0] if bad else 'lib/trie.c',
              '%d stores to a trie node\'s refcount/key/value, none copies them from another node' % n,
              'an entry (and its reference count, which includes the iterators\' references) is moved to another node: iterators positioned on it are left '
              'pointing at a node that is no longer that entry and later drop their reference on whatever is stored there')


def _valkey(e):
    r = unwrap(e)
    c = cval(r)
    return ('c', c) if c is not None else ('e', last_field(r) or estr(r))


def r10(ctx):
    prog = ctx.prog
    for name, m in IT.items():
        irec = m['cur'][0]
        fc = prog.fn(CREATE[name])
        created = {}
        for st in fc.events('STORE'):
            lf = last_field(st.lhs)
            if lf is not None and lf[0] == irec and st.d['op'] == '=':
                created[lf[1]] = _valkey(st.rhs)
        if not created:
            raise AnalysisBroken('%s: %s stores no %s field' % (name, fc.name, irec))
        f = prog.fn(m['next'])
        flags = {estr(ev.lhs) for ev in f.events('STORE') if unwrap(ev.lhs).get('k') == 'var' and cval(unwrap(ev.rhs)) in (0, 1) and ev.d['op'] == '='}
        flags |= {ev.d['var'] for ev in f.events('DECL') if 'init' in ev.d and cval(unwrap(ev.d['init'])) in (0, 1)}
        keys = set()

        def effect(ev, env):
            if ev.kind == 'CALL' and ev.callee == m['deref']:
                return {'#deref': 1}
            if ev.kind == 'STORE':
                lf = last_field(ev.lhs)
                if lf is not None and lf[0] == irec:
                    k = '#st:' + lf[1]
                    keys.add(k)
                    return {k: repr(_valkey(ev.rhs)) if ev.d['op'] == '=' else 'modified'}
            return None
        trk = set(flags) | {'#deref'} | {'#st:' + fl['n'] for fl in prog.record(irec)['fields']}
        visits, _t = abstract_run(f, {'#deref': 0}, tracked=trk, effect=effect)
        ends = [(ev, env) for (ev, env) in visits if ev.kind == 'RETURN' and ev.e is not None and cval(unwrap(ev.e)) == 0 and env.get('#deref') == 1]
        if not ends:
            raise AnalysisBroken('%s: %s has no exhaustion path' % (name, f.name))
        bad = []
        for ev, env in ends:
            stored = {k[4:]: v for k, v in env.items() if k.startswith('#st:')}
            if not any(fld not in created or v != repr(created[fld]) for fld, v in stored.items()):
                bad.append((ev, stored))
        ctx.check('R10', '%s:exhaustion-is-not-the-created-state' % name, not bad, bad[0][0] if bad else ends[0][0],
                  'the ending path of %s leaves the iterator in a state %s does not produce' % (f.name, fc.name),
                  'the ending path of %s writes only what %s writes (%s): an iterator whose last key sat at the starting position is back where it began and the next call starts the iteration over instead of returning NULL again'
                  % (f.name, fc.name, ', '.join('%s=%s' % kv for kv in sorted((bad[0][1] if bad else {}).items())) or 'nothing'))


def r12(ctx):
    f = ctx.prog.fn('trie_put')
    refs = list(f.calls('trie_node_ref'))
    if not refs:
        ctx.viol('R12', 'trie_put:map-reference-unconditional', f, 'trie_put takes no reference for the entry it inserts')
        return
    for ev in refs:
        on_count = [repr(at) for (at, _e) in f.guards(ev) if any(n.get('k') == 'mem' and n.get('f') == 'refcount' for side in (at.l, at.r) if isinstance(side, dict) for n in walk(side))]
        ctx.check('R12', 'trie_put:map-reference-unconditional', not on_count, ev,
                  'the map\'s reference on a newly valued node does not depend on who else references it',
                  'the map takes its reference only if %s: a key that is removed and put again while an iterator sits on its node is held by the iterator\'s reference alone, '
                  'and qb_map_iter_free destroys the live entry (get returns NULL, the count says 1)' % ' and '.join(on_count))
