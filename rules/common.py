"""matchers shared by the property rule modules (all on resolved facts)"""
from engine.qb import (estr, unwrap, cval, walk, last_field, fields_of, callee_of, root_var, atoms_of)

RELEASE_OK = {'QB_ATOMIC_RELEASE', 'QB_ATOMIC_ACQ_REL', 'QB_ATOMIC_SEQ_CST'}
ACQUIRE_OK = {'QB_ATOMIC_ACQUIRE', 'QB_ATOMIC_ACQ_REL', 'QB_ATOMIC_SEQ_CST'}


def model_name(e):
    e = unwrap(e)
    if isinstance(e, dict) and e.get('k') == 'enum':
        return e['n']
    return 'non-constant(%s)' % estr(e)


def field_is(e, field, rec=None):
    lf = last_field(e)
    return bool(lf) and lf[1] == field and (rec is None or lf[0] == rec)


def is_shared_data_idx(e):
    """lvalue rb->shared_data[i] (the chunk length word when used directly)"""
    e = unwrap(e)
    if not isinstance(e, dict) or e.get('k') != 'idx':
        return False
    b = unwrap(e['b'])
    return b.get('k') == 'mem' and b['f'] == 'shared_data' and b.get('rec') == 'qb_ringbuffer_s'


def _shared_data_elem(ptr):
    """for a pointer expression &rb->shared_data[ix] return ix, else None"""
    p = unwrap(ptr)
    if isinstance(p, dict) and p.get('k') == 'addr':
        q = unwrap(p['e'])
        if is_shared_data_idx(q):
            return q['i']
    return None


def is_marker_set(ev_or_e):
    """qb_atomic_int_set_ex(&rb->shared_data[ix], v, model) -> dict"""
    e = ev_or_e.e if hasattr(ev_or_e, 'kind') else ev_or_e
    if not isinstance(e, dict) or e.get('k') != 'call':
        return None
    if callee_of(e) not in ('qb_atomic_int_set_ex', 'qb_atomic_int_set', '__atomic_store_n'):
        return None
    args = e.get('args', [])
    if len(args) < 2:
        return None
    ix = _shared_data_elem(args[0])
    if ix is None:
        return None
    model = model_name(args[2]) if len(args) > 2 and callee_of(e) == 'qb_atomic_int_set_ex' else (
        'QB_ATOMIC_SEQ_CST' if callee_of(e) == 'qb_atomic_int_set' else 'raw:%s' % cval(unwrap(args[-1])))
    return {'index': ix, 'value': cval(unwrap(args[1])), 'model': model, 'value_expr': args[1]}


def is_marker_get(e):
    if hasattr(e, 'kind'):
        e = e.e
    e = unwrap(e)
    if not isinstance(e, dict) or e.get('k') != 'call':
        return None
    if callee_of(e) not in ('qb_atomic_int_get_ex', 'qb_atomic_int_get', '__atomic_load_n'):
        return None
    args = e.get('args', [])
    if not args:
        return None
    ix = _shared_data_elem(args[0])
    if ix is None:
        return None
    model = model_name(args[1]) if len(args) > 1 and callee_of(e) == 'qb_atomic_int_get_ex' else (
        'QB_ATOMIC_SEQ_CST' if callee_of(e) == 'qb_atomic_int_get' else 'raw:%s' % cval(unwrap(args[-1])))
    return {'index': ix, 'model': model}


def shared_store(ev):
    """event writes ring shared memory: store through shared_hdr / shared_data,
    atomic marker store, or memset/memcpy into them"""
    if ev.kind == 'STORE':
        fs = fields_of(ev.lhs)
        return ('qb_ringbuffer_s', 'shared_data') in fs and is_shared_data_idx(ev.lhs) or \
            any(r == 'qb_ringbuffer_shared_s' for (r, _f) in fs) and last_field(ev.lhs) and last_field(ev.lhs)[0] == 'qb_ringbuffer_shared_s'
    if ev.kind == 'CALL':
        if is_marker_set(ev):
            return True
        if ev.callee in ('memcpy', 'memset', 'memmove') and ev.args:
            fs = fields_of(ev.args[0])
            return ('qb_ringbuffer_s', 'shared_data') in fs or ('qb_ringbuffer_s', 'shared_hdr') in fs
    return False


def ret_value(ev):
    return cval(unwrap(ev.e)) if ev.kind == 'RETURN' and ev.e is not None else None


def slot_call(ev, field, rec=None):
    c = ev.callee if ev.kind == 'CALL' else None
    if not c or '::' not in c:
        return False
    r, f = c.split('::', 1)
    return f == field and (rec is None or r == rec)


def macro_named(e, name):
    """some node of the expression spans exactly the expansion of macro `name`"""
    return any(n.get('mn') == name for n in walk(e))


def has_call(e, *names):
    return any(n.get('k') == 'call' and callee_of(n) in names for n in walk(e))


def const_in(e, value):
    return any(cval(n) == value for n in walk(e))


def edge_atoms(fn, blk, lab):
    b = fn.blocks[blk]
    if b.cond is None or lab not in (True, False):
        return []
    return atoms_of(b.cond, lab)


def path_has_atom(fn, path, pred):
    """some labelled edge along the block path carries an atom with pred(atom)"""
    for i in range(len(path) - 1):
        pb = fn.blocks[path[i]]
        if pb.cond is None:
            continue
        for (t, lab) in pb.succs:
            if t == path[i + 1] and lab in (True, False):
                for a in atoms_of(pb.cond, lab):
                    if pred(a):
                        return True
    return False


def value_sources(fn, e, at_ev, depth=4):
    """expressions a value may come from: follow local variables back through
    their reaching definitions (bounded); returns list of expression trees and
    a flag telling whether the function-entry value of a local/param reaches"""
    out, entry = [], False
    seen = set()
    work = [(unwrap(e), at_ev, 0)]
    while work:
        x, at, d = work.pop()
        if not isinstance(x, dict):
            continue
        if x.get('k') == 'var' and x.get('sc') in ('l', 'p') and d < depth and not str(x.get('ty', '')).endswith(']'):
            defs, ent = fn.reaching_defs(x['n'], at)
            if ent:
                entry = True
                out.append(x)
            for df in defs:
                key = (id(df.d), x['n'])
                if key in seen:
                    continue
                seen.add(key)
                if df.kind == 'STORE':
                    if df.d['op'] == '=':
                        work.append((unwrap(df.rhs), df, d + 1))
                    else:
                        out.append({'k': 'update', 'op': df.d['op'], 'ev': df})
                elif df.kind == 'DECL':
                    if 'init' in df.d:
                        work.append((unwrap(df.d['init']), df, d + 1))
                    else:
                        out.append({'k': 'uninit'})
                else:
                    out.append({'k': 'outparam', 'ev': df})
        else:
            out.append(x)
    return out, entry


def derives(fn, e, at_ev, pred, depth=4):
    """every source the value of `e` at `at_ev` may come from (through local
    variables) satisfies pred(tree) and no function-entry value reaches"""
    srcs, entry = value_sources(fn, e, at_ev, depth)
    if not srcs:
        return False
    for x in srcs:
        if x.get('k') in ('update', 'uninit', 'outparam'):
            return False
        if x.get('k') == 'var' and x.get('sc') in ('l',):
            return False
        if not pred(x):
            return False
    return True


def some_source(fn, e, at_ev, pred, depth=4):
    srcs, _entry = value_sources(fn, e, at_ev, depth)
    return any(x.get('k') not in ('update', 'uninit', 'outparam') and pred(x) for x in srcs)


def last_event_of_block(fn, bid):
    b = fn.blocks[bid]
    return b.events[-1] if b.events else None


ATOMIC_CALLS = ('qb_atomic_int_add', 'qb_atomic_int_exchange_and_add', 'qb_atomic_int_get', 'qb_atomic_int_set',
                'qb_atomic_int_compare_and_exchange', 'qb_atomic_int_get_ex', 'qb_atomic_int_set_ex')


def refcount_op(e, rec=None, field=None):
    """classify a call node operating on an atomic counter field:
    returns (kind, fieldpair) with kind in inc/dec/get/set/add/cas or None.
    (qb_atomic_int_inc / _dec_and_test are macros over add / exchange_and_add)"""
    e = unwrap(e)
    if not isinstance(e, dict) or e.get('k') != 'call':
        return None
    c = callee_of(e)
    if c not in ATOMIC_CALLS or not e.get('args'):
        return None
    tgt = unwrap(e['args'][0])
    if tgt.get('k') == 'addr':
        tgt = unwrap(tgt['e'])
    lf = last_field(tgt)
    if lf is None:
        return None
    if (rec is not None and lf[0] != rec) or (field is not None and lf[1] != field):
        return None
    if c in ('qb_atomic_int_add', 'qb_atomic_int_exchange_and_add'):
        d = cval(unwrap(e['args'][1])) if len(e['args']) > 1 else None
        kind = 'inc' if d == 1 else 'dec' if d == -1 else 'add'
    elif c.startswith('qb_atomic_int_get'):
        kind = 'get'
    elif c.startswith('qb_atomic_int_set'):
        kind = 'set'
    else:
        kind = 'cas'
    return (kind, lf)


def dec_and_test_atom(a, rec=None, field=None):
    """atom says: the atomic decrement brought the counter to zero"""
    for (x, y) in ((a.l, a.r), (a.r, a.l)):
        op = refcount_op(x, rec, field)
        if op and op[0] == 'dec' and a.op == '==' and cval(unwrap(y)) == 1:
            return True
    return False


def const_leaves(e):
    """possible constant values of an expression built from constants and
    ?: ; None when some leaf is not a constant"""
    e = unwrap(e)
    if not isinstance(e, dict):
        return None
    c = cval(e)
    if c is not None:
        return {c}
    if e.get('k') == 'cond':
        a, b = const_leaves(e['t']), const_leaves(e['f'])
        if a is None or b is None:
            return None
        return a | b
    return None
