"""C05 - admission: only accepted peers get channels; their files stay private."""
import sys
from engine.qb import (cond_cut, AnalysisBroken, abstract_run, estr, unwrap, cval, walk, last_field, fields_of, callee_of,
                       mentions_var, atoms_of, root_var)
from rules.common import field_is, has_call, derives, value_sources, macro_named

UNITS = ['lib/ipc_setup.c', 'lib/ipcs.c', 'lib/ipc_shm.c', 'lib/ipc_socket.c', 'lib/ringbuffer.c', 'lib/unix.c']
DECIDES = ('Decides that the credentials handed to the accept callback come from the kernel control message of the handshake, that '
           'no channel resource is created before the accept callback agreed and none is kept after it refused, that only the transport '
           'connect registers the request dispatcher, and that connection files are created owner-only and are re-owned before their mode '
           'is widened; what the kernel reports for a given peer and the fixed 0770 directory mode are outside the rules.')
RULES = {
    'R1': 'ugp fields are written only in qb_ipc_auth_creds, from the struct ucred of getsockopt(SO_PEERCRED) - the effective ids recorded at connect() - with the SCM_CREDENTIALS control message (real ids of the last writer) only as the fallback when that call fails; SO_PASSCRED is enabled before listen and before an accepted socket is polled; accept callback arguments and c->euid/egid are those fields',
    'R2': 'the transport connect (only creator of rings/control file/channel sockets) needs accept == 0; refusal sends the error, drops the allocation reference (whose teardown removes the temp dir) and closes the socket; the request dispatcher is registered only inside the connect implementations',
    'R3': 'the connection directory keeps mkdtemp\'s 0700 until the accept callback returned 0 and is then re-owned (c->auth.uid/gid) and given a mode derived from c->auth.mode, in handle_new_connection for both transports; connection files are created with mode & 077 == 0 (0600 or mkstemp under umask 077); chmod(auth.mode) follows chown(auth.uid, auth.gid) of the same path; c->auth is written only by handle_new_connection (peer ids, 0600) and qb_ipcs_connection_auth_set',
}
FLOORS = {'R1': 7, 'R2': 7, 'R3': 17}


def run(ctx):
    r1(ctx)
    r2(ctx)
    r3(ctx)
    # R2, last link: "drops the allocation reference (whose teardown removes the temp dir)" - the final unref runs the transport's
    # disconnect on every path to the free (= C04.R3), also for a connection that never left INACTIVE
    from rules import c04
    sub = type(ctx)(ctx.prog, ctx.prop, ctx.tier, ctx.depth)
    c04.r3(sub)
    for r in sub.results:
        if r['key'] == 'transport-disconnect-on-every-path-to-free':
            r['rule'] = 'R2'
            ctx.results.append(r)


def r1(ctx):
    prog = ctx.prog
    for fld in ('uid', 'gid', 'pid'):
        ws = prog.writers(fld, 'ipc_auth_ugp')
        ok = bool(ws) and all(fn.name == 'qb_ipc_auth_creds' for (fn, _e) in ws)
        ctx.check('R1', 'ugp.%s-writer' % fld, ok, ws[0][1] if ws else None, 'ugp.%s is written only by qb_ipc_auth_creds' % fld,
                  'ugp.%s is also written in %s' % (fld, sorted({fn.name for (fn, _e) in ws})))
    a = prog.fn('qb_ipc_auth_creds')
    sts = [ev for ev in a.events('STORE') if last_field(ev.lhs) and last_field(ev.lhs)[0] == 'ipc_auth_ugp']
    SCM, SO_PEERCRED = 2, 17  # SCM_CREDENTIALS, SO_PEERCRED
    ok = bool(sts)
    for ev in sts:
        r = unwrap(ev.rhs)
        ok = ok and r.get('k') == 'mem' and r.get('rec') == 'ucred'
    ctx.check('R1', 'ugp-from-a-kernel-ucred', ok, sts[0] if sts else a, 'every ugp field is copied from a struct ucred', 'a ugp field is not taken from a struct ucred')
    # the effective ids are those the kernel recorded at connect(): getsockopt(SO_PEERCRED).  The ucred that arrives with a message
    # (SCM_CREDENTIALS under SO_PASSCRED) is filled in with the REAL ids of whichever process wrote those bytes.
    pc = [ev for ev in a.events() if (ev.kind == 'CALL' and ev.callee == 'getsockopt' and cval(unwrap(ev.args[2])) == SO_PEERCRED)]
    pcn = [n for b_ in a.blocks.values() if b_.cond is not None for n in walk(b_.cond)
           if n.get('k') == 'call' and callee_of(n) == 'getsockopt' and cval(unwrap(n['args'][2])) == SO_PEERCRED]
    has_peercred = bool(pc) or bool(pcn)
    cps = [ev for ev in a.calls('memcpy')]

    def scm(at, fb):
        return field_is(at.l, 'cmsg_type') and at.op == '==' and at.rc == SCM

    def peercred_failed(at, fb):
        l = unwrap(at.l)
        return callee_of(l) == 'getsockopt' and cval(unwrap(l['args'][2])) == SO_PEERCRED and at.op == '!=' and at.rc == 0
    if not has_peercred:
        ctx.check('R1', 'creds-are-the-effective-ids', False, cps[0] if cps else a, '',
                  'the ids handed to the accept callback come from the SCM_CREDENTIALS message of the handshake only: the kernel fills that in with the '
                  'REAL uid/gid of the process that wrote the bytes (a set-uid client is reported under the wrong user; a second writer on the socket '
                  'replaces the ids); the effective ids are what getsockopt(SO_PEERCRED) reports')
    else:
        # the message credentials may only be a fallback for a failed SO_PEERCRED: the block that tests the call dominates the
        # copy from the control message, and the copy is not reachable from the edge on which the call is known to have succeeded
        okf = True
        tested = [b_ for b_ in a.blocks.values() if b_.cond is not None and any(
            n.get('k') == 'call' and callee_of(n) == 'getsockopt' and cval(unwrap(n['args'][2])) == SO_PEERCRED for n in walk(b_.cond))]
        if cps:
            okf = bool(tested)
            for tb in tested:
                for (t, lab) in tb.succs:
                    if lab in (True, False) and cond_cut(tb.cond, lab, lambda at: callee_of(unwrap(at.l)) == 'getsockopt' and at.op == '==' and at.rc == 0):
                        # a result of the wrong size counts as a failed call: edges on which the length the call returned
                        # (its last argument) is known to differ from what was asked for are not "success"
                        call = [n for n in walk(tb.cond) if n.get('k') == 'call' and callee_of(n) == 'getsockopt'][0]
                        lenv = unwrap(call['args'][4])
                        lenv = estr(unwrap(lenv['e'])) if lenv.get('k') == 'addr' else None

                        def ef(fb, t2, lab2, lenv=lenv):
                            if fb.cond is None or lab2 not in (True, False) or lenv is None:
                                return True
                            return not cond_cut(fb.cond, lab2, lambda at: at.ls == lenv and at.op == '!=')
                        hits, _e, _n = a.search(('edge', tb.id, t), goal=lambda ev: any(ev is cp for cp in cps), edge_filter=ef)
                        okf = okf and not hits
            okf = okf and all(a.uncut_path(cp, scm) is None for cp in cps)
            dom = a.dom()
            okf = okf and all(any(tb.id in dom.get(cp.blk, ()) for tb in tested) for cp in cps)
        ctx.check('R1', 'creds-are-the-effective-ids', okf, cps[0] if cps else a,
                  'the peer credentials come from getsockopt(SO_PEERCRED); the message credentials are used only if that fails',
                  'the message credentials (real ids of the last writer) are used although SO_PEERCRED was available')
    # the control buffer belongs to the handshake recvmsg
    ini = prog.fn('init_ipc_auth_data')
    ctl = [ev for ev in ini.events('STORE') if field_is(ev.lhs, 'msg_control')]
    ctx.check('R1', 'control-buffer-installed', len(ctl) == 1 and field_is(ctl[0].rhs, 'cmsg_cred'), ctl[0] if ctl else ini,
              'the handshake recvmsg carries a control buffer for the credentials', 'no control buffer is installed for the handshake receive')
    # SO_PASSCRED before listen / before polling an accepted socket
    SO_PASSCRED = 16
    pub = prog.fn('qb_ipcs_us_publish')
    so = [ev for ev in pub.calls('setsockopt') if cval(unwrap(ev.args[2])) == SO_PASSCRED]
    li = list(pub.calls('listen'))
    ctx.check('R1', 'passcred-before-listen', bool(so) and bool(li) and all(any(pub.ev_dominates(s, l) for s in so) for l in li), li[0] if li else pub,
              'SO_PASSCRED is enabled on the service socket before listen', 'the service socket listens without SO_PASSCRED')
    ra = prog.fn('qb_ipcs_uc_recv_and_auth')
    so = [ev for ev in ra.calls('setsockopt') if cval(unwrap(ev.args[2])) == SO_PASSCRED]
    ad = list(ra.calls('qb_ipcs_poll_handlers::dispatch_add'))
    ctx.check('R1', 'passcred-before-poll', bool(so) and bool(ad) and all(any(ra.ev_dominates(s, l) for s in so) for l in ad), ad[0] if ad else ra,
              'SO_PASSCRED is enabled on an accepted socket before its handshake is polled', 'an accepted socket is polled without SO_PASSCRED')
    h = prog.fn('handle_new_connection')
    acc = list(h.calls('qb_ipcs_service_handlers::connection_accept'))
    ugp = h.params[5]['n']
    eu = [ev for ev in h.events('STORE') if estr(ev.lhs).endswith('->euid') or estr(ev.lhs).endswith('->egid')]
    # chained assignment c->auth.uid = c->euid = ugp->uid shows up as nested stores
    ok = bool(acc) and estr(acc[0].args[1]).endswith('euid') and estr(acc[0].args[2]).endswith('egid')
    src_ok = bool(eu) and all(mentions_var(ev.rhs, ugp) for ev in eu) and all(h.ev_dominates(e_, acc[0]) for e_ in eu)
    ctx.check('R1', 'accept-gets-kernel-ids', ok and src_ok, acc[0] if acc else h, 'connection_accept receives euid/egid copied from the kernel credentials',
              'connection_accept receives ids that are not the kernel-reported ones')
    pa = prog.fn('process_auth')
    hn = list(pa.calls('handle_new_connection'))
    ok = bool(hn) and field_is(hn[0].args[5], 'ugp')
    ctx.check('R1', 'ugp-passed-from-record', ok, hn[0] if hn else pa, 'the handshake\'s own ugp is passed on', 'another ugp is passed to handle_new_connection')


def r2(ctx):
    prog = ctx.prog
    h = prog.fn('handle_new_connection')
    acc = [ev for ev in h.events('STORE') if ev.rhs is not None and callee_of(unwrap(ev.rhs)) == 'qb_ipcs_service_handlers::connection_accept']
    con = [ev for ev in h.events('CALL') if ev.callee == 'qb_ipcs_funcs::connect']
    acalls = list(h.calls('qb_ipcs_service_handlers::connection_accept'))
    if len(acalls) == 1 and not acc and len(con) == 1:
        # the callback is called but what it returns is not kept: the refused client is told something else
        ctx.viol('R2', 'refused:the-error-sent-is-the-callbacks', acalls[0],
                 'the value connection_accept returns is only tested, not kept: whatever the callback refused with (-EAGAIN for "not ready yet", -ENOMEM, ...), '
                 'the response carries another error and the client\'s connect call fails with that one instead')
        return
    if len(acc) != 1 or len(con) != 1:
        raise AnalysisBroken('handle_new_connection: accept=%d connect=%d' % (len(acc), len(con)))
    resv = estr(acc[0].lhs)
    # ... and it is that variable that goes into the response
    errs = [st for st in h.events('STORE') if last_field(st.lhs) == ('qb_ipc_response_header', 'error') or
            (last_field(st.lhs) or (None, None))[1] == 'error']
    if not errs:
        raise AnalysisBroken('handle_new_connection: no store to the response\'s error field')
    ctx.check('R2', 'refused:the-error-sent-is-the-callbacks', all(estr(unwrap(st.rhs)) == resv for st in errs), errs[0],
              'the response carries the variable that holds the accept callback\'s result',
              'the response\'s error field is set from %s, not from %s which holds what the accept callback returned' % (estr(errs[0].rhs), resv))
    ctx.check('R2', 'connect-after-accept', h.may_follow(acc[0], con[0]) and not h.may_follow(con[0], acc[0]), con[0],
              'the transport connect comes after the accept callback', 'the transport connect can run before the accept callback')
    zero = lambda a, fb: a.ls == resv and a.op == '==' and a.rc == 0
    ctx.check('R2', 'connect-needs-accept-zero', h.uncut_path(con[0], zero, start=('after', acc[0])) is None and
              h.uncut_path(con[0], zero, also_stop=lambda x: x.d is acc[0].d) is None, con[0],
              'the transport connect is cut by accept result == 0', 'channels can be created although the accept callback refused')
    # refusal scenario
    authp = h.params[1]['n']

    def eff(ev, env):
        if ev.d is acc[0].d:
            return {resv: -13, '#ref': 1, '#skip': True}
        return None
    stv = None
    for ev in h.events('LOAD'):
        if field_is(ev.e, 'state', 'qb_ipcs_connection'):
            stv = estr(ev.e)
    INACTIVE = prog.econst('QB_IPCS_CONNECTION_INACTIVE')
    init = {authp: 0, '#ref': 0}
    if stv:
        init[stv] = INACTIVE    # qb_ipcs_connection_alloc leaves the connection INACTIVE
    visits, _t = abstract_run(h, init, tracked={authp, resv, '#ref'} | ({stv} if stv else set()), effect=eff)
    calls = [ev.callee for (ev, env) in visits if ev.kind == 'CALL' and env.get('#ref') == 1 and env.get(resv) == -13]
    ctx.check('R2', 'refused:error-sent', 'qb_ipc_us_send' in calls, acc[0], 'a refused peer is told the error', 'a refused peer gets no response')
    ctx.check('R2', 'refused:reference-dropped', 'qb_ipcs_connection_unref' in calls or 'qb_ipcs_disconnect' in calls, acc[0],
              'the refused connection object is released (its teardown removes the temp dir)', 'the refused connection object is kept')
    ctx.check('R2', 'refused:socket-closed', 'qb_ipcc_us_sock_close' in calls or 'close' in calls, acc[0],
              'the refused peer\'s socket is closed', 'the refused peer\'s socket stays open')
    ctx.check('R2', 'refused:not-listed', 'qb_list_add' not in calls and 'qb_list_add_tail' not in calls, acc[0],
              'a refused connection never enters the service\'s connection list', 'a refused connection is added to the connection list')
    # every transport disconnect ends in remove_tempdir
    for nm in ('qb_ipcs_shm_disconnect', 'qb_ipcs_us_disconnect'):
        d = prog.fn(nm)
        ok, p = d.must_pass(('entry',), lambda ev: ev.kind == 'CALL' and ev.callee == 'remove_tempdir')
        ctx.check('R2', '%s:removes-tempdir' % nm, ok, d, 'every path through %s removes the temp directory' % nm,
                  'a path through %s keeps the temp directory' % nm, {'path': d.path_lines(p) if p else None})
    # who registers the request dispatcher
    regs = []
    for (g, ev) in prog.fn_refs('qb_ipcs_dispatch_connection_request'):
        regs.append((g, ev))
    allowed = {'qb_ipcs_shm_connect', '_sock_add_to_mainloop', '_modify_dispatch_descriptor_'}
    bad = [(g, ev) for (g, ev) in regs if g.name not in allowed]
    ctx.check('R2', 'dispatcher-registered-only-by-connect', bool(regs) and not bad, bad[0][1] if bad else None,
              'the request dispatcher is registered only by the transport connect (and re-registered by dispatch_mod)',
              'the request dispatcher is also registered in %s: requests can reach msg_process without admission' % sorted({g.name for (g, _e) in bad}))
    sa = prog.callers_of('_sock_add_to_mainloop')
    ctx.check('R2', 'sock-mainloop-only-from-connect', bool(sa) and all(g.name == 'qb_ipcs_us_connect' for (g, _e) in sa), sa[0][1] if sa else None,
              '_sock_add_to_mainloop is called only from qb_ipcs_us_connect', '_sock_add_to_mainloop has other callers')


def r3_dir(ctx):
    """the per-connection directory: mkdtemp gives 0700 and the server's ids; it is re-owned and widened only after the accept callback
    returned 0, with the ids and a mode derived from c->auth, in handle_new_connection (so for both transports)"""
    prog = ctx.prog
    h = prog.fn('handle_new_connection')
    mk = list(h.calls('mkdtemp'))
    if len(mk) != 1:
        raise AnalysisBroken('handle_new_connection: mkdtemp sites = %d' % len(mk))
    acc = list(h.calls('qb_ipcs_service_handlers::connection_accept'))
    if len(acc) != 1:
        raise AnalysisBroken('handle_new_connection: accept sites = %d' % len(acc))
    desc = estr(unwrap(mk[0].args[0]))
    cms = [ev for ev in h.calls('chmod') if estr(unwrap(ev.args[0])) == desc]
    chs = [ev for ev in h.calls('chown') if estr(unwrap(ev.args[0])) == desc]
    bad = None
    for ev in cms:
        m = cval(unwrap(ev.args[1]))
        from_auth = any(n.get('k') == 'mem' and n.get('f') == 'mode' and 'auth' in estr(n) for n in walk(ev.args[1]))
        if m is not None and m & 0o077:
            bad = (ev, 'the connection directory is given the constant mode %s whatever the accept callback chose (default owner-only): another user in the '
                       'peer\'s group can list it, delete ring files and plant its own - before the callback has run and for refused clients too' % oct(m))
        elif m is None and not from_auth:
            bad = (ev, 'the connection directory is given a mode that does not come from c->auth')
        elif from_auth and not h.may_follow(acc[0], ev):
            bad = (ev, 'the connection directory is widened before the accept callback has chosen the mode')
    ctx.check('R3', 'dir:mode-from-auth-after-accept', bad is None, bad[0] if bad else (cms[0] if cms else mk[0]),
              'the directory keeps mkdtemp\'s 0700 until the accept callback returned, then gets a mode derived from c->auth.mode',
              bad[1] if bad else '')
    # widened only for an accepted client: the chmod is behind the refusal test
    resv = None
    for st in h.events('STORE'):
        if st.rhs is not None and callee_of(unwrap(st.rhs)) == 'qb_ipcs_service_handlers::connection_accept':
            resv = estr(st.lhs)
    for ev in cms:
        if cval(unwrap(ev.args[1])) is None:
            ctx.check('R3', 'dir:widened-only-when-accepted', resv is not None and h.uncut_path(ev, lambda a, fb: a.ls == resv and a.op == '==' and a.rc == 0, start=('after', acc[0])) is None, ev,
                      'the directory of a refused client stays 0700', 'the directory is widened although the accept callback refused')
    own = [ev for ev in chs if h.may_follow(acc[0], ev) and field_is(ev.args[1], 'uid') and 'auth' in estr(ev.args[1]) and field_is(ev.args[2], 'gid') and 'auth' in estr(ev.args[2])]
    ctx.check('R3', 'dir:owner-from-auth-after-accept', bool(own), own[0] if own else mk[0],
              'after the accept callback the directory is given to c->auth.uid / c->auth.gid (for both transports: in handle_new_connection)',
              'the directory is not re-owned after the accept callback (an owner set with qb_ipcs_connection_auth_set is not applied to it)')
    for ev in own:
        later = [c for c in cms if cval(unwrap(c.args[1])) is None]
        ctx.check('R3', 'dir:chown-before-chmod', bool(later) and all(h.ev_dominates(ev, c) for c in later), ev, 'the directory is re-owned before it is widened',
                  'the directory is widened before it is re-owned')
    # a refused client's directory goes away again: remove_tempdir() takes the last component off c->description and removes what is
    # left, so from the moment the directory exists the description carries the suffix at every return (where it is cut off for the
    # chown / chmod of the directory itself, it is put back before anything can leave)
    sfx = [ev for ev in h.calls('memcpy') if any(n.get('k') == 'mem' and n.get('f') == 'description' for n in walk(ev.args[0])) and
           unwrap(ev.args[0]).get('k') != 'mem']
    cuts = [st for st in h.events('STORE') if unwrap(st.lhs).get('k') == 'idx' and any(n.get('k') == 'mem' and n.get('f') == 'description' for n in walk(st.lhs)) and
            cval(unwrap(st.rhs)) == 0]
    if not sfx:
        raise AnalysisBroken('handle_new_connection: the suffix is never appended to the description')
    succ_edges = []
    for b in h.blocks.values():
        if b.cond is not None and has_call(b.cond, 'mkdtemp'):
            for (t, lab) in b.succs:
                if lab in (True, False) and not any(a.op == '==' and a.rc == 0 for a in atoms_of(b.cond, lab)):
                    succ_edges.append((b.id, t))
    if not succ_edges:
        raise AnalysisBroken('handle_new_connection: the success edge of mkdtemp was not found')
    is_sfx = lambda ev: any(ev.d is x.d for x in sfx)
    bare = []
    for (fb, t) in succ_edges:
        hits, _e, _n = h.search(('edge', fb, t), goal=lambda ev: ev.kind == 'RETURN', stop=is_sfx)
        bare += [('after mkdtemp', hits[0][0])] if hits else []
    for st in cuts:
        hits, _e, _n = h.search(('after', st), goal=lambda ev: ev.kind == 'RETURN', stop=is_sfx)
        bare += [('after the description was cut back to the directory', hits[0][0])] if hits else []
    ctx.check('R3', 'dir:description-keeps-its-suffix', not bare, bare[0][1] if bare else sfx[0],
              'once the directory exists the description has its suffix at every return',
              'handle_new_connection can return %s without the suffix on c->description: remove_tempdir() strips the last component and removes the rest, so for a refused client it tries to remove /dev/shm itself and the connection directory stays behind, one per refused attempt'
              % (bare[0][0] if bare else ''))


def r3(ctx):
    prog = ctx.prog
    r3_dir(ctx)
    o = prog.fn('open_mmap_file')
    opens = list(o.calls('open'))
    mk = list(o.calls('mkstemp'))
    ctx.check('R3', 'open-mode-owner-only', bool(opens) and all(len(ev.args) >= 3 and (cval(unwrap(ev.args[2])) or 0o777) & 0o077 == 0 for ev in opens), opens[0] if opens else o,
              'files are created with a mode that gives group/other nothing', 'a connection file is created with mode %s' % [oct(cval(unwrap(ev.args[2])) or 0) for ev in opens])
    for m in mk:
        um = [ev for ev in o.calls('umask') if cval(unwrap(ev.args[0])) is not None and cval(unwrap(ev.args[0])) & 0o077 == 0o077 and o.ev_dominates(ev, m)]
        rs = [ev for ev in o.calls('umask') if o.ev_dominates(m, ev)]
        ctx.check('R3', 'mkstemp-under-umask-077', bool(um) and bool(rs), m, 'mkstemp runs under umask 077 and the umask is restored', 'mkstemp is not bracketed by umask(077)/restore')
    # other creators of connection files
    for f in prog.all_fns(files={'lib/ipc_shm.c', 'lib/ipc_socket.c', 'lib/ringbuffer.c', 'lib/ipc_setup.c'}):
        for ev in f.calls('open'):
            fl = cval(unwrap(ev.args[1]))
            if fl is not None and fl & 0o100:   # O_CREAT
                ctx.check('R3', '%s:creating-open' % f.name, len(ev.args) >= 3 and (cval(unwrap(ev.args[2])) or 0o777) & 0o077 == 0, ev,
                          'owner-only creation', 'file created with group/other access')
    # chown before chmod
    rb = prog.fn('qb_ipcs_shm_rb_open')
    ch = [ev for ev in rb.events('CALL') if ev.callee == 'qb_rb_chown']
    cm = [ev for ev in rb.events('CALL') if ev.callee == 'qb_rb_chmod']
    ok = len(ch) == 1 and len(cm) == 1 and rb.ev_dominates(ch[0], cm[0]) and estr(ch[0].args[0]) == estr(cm[0].args[0])
    ctx.check('R3', 'shm:chown-before-chmod', ok, cm[0] if cm else rb, 'ring files are re-owned before their mode is widened',
              'the ring files\' mode is widened before they are re-owned (window in which the wrong owner/group has access)')
    ok = bool(ch) and field_is(ch[0].args[1], 'uid') and 'auth' in estr(ch[0].args[1]) and field_is(ch[0].args[2], 'gid') and bool(cm) and field_is(cm[0].args[1], 'mode') and 'auth' in estr(cm[0].args[1])
    ctx.check('R3', 'shm:values-from-auth', ok, ch[0] if ch else rb, 'owner/group/mode come from c->auth', 'owner/group/mode do not come from c->auth')
    us = prog.fn('qb_ipcs_us_connect')
    ch = [ev for ev in us.events('CALL') if ev.callee == 'chown']
    cm = [ev for ev in us.events('CALL') if ev.callee == 'chmod']
    ok = len(ch) == 1 and len(cm) == 1 and us.ev_dominates(ch[0], cm[0]) and estr(ch[0].args[0]) == estr(cm[0].args[0]) and \
        'auth' in estr(ch[0].args[1]) and 'auth' in estr(cm[0].args[1])
    ctx.check('R3', 'socket:chown-before-chmod', ok, cm[0] if cm else us, 'the control file is re-owned before its mode is widened, values from c->auth',
              'control file: chmod before chown / values not from c->auth')
    # both files of a ring
    for nm, call in (('qb_rb_chown', 'chown'), ('qb_rb_chmod', 'chmod')):
        g = prog.fn(nm)
        cs = list(g.calls(call))
        paths = {last_field(ev.args[0])[1] if last_field(ev.args[0]) else None for ev in cs}
        ctx.check('R3', '%s:both-files' % nm, paths == {'data_path', 'hdr_path'}, g, '%s covers the data and the header file' % nm, '%s covers only %s' % (nm, sorted(p for p in paths if p)))
        # success is reported only after both files were handled, with the caller's values
        succ = [r for r in g.returns() if r.e is not None and cval(unwrap(r.e)) == 0]
        if not succ:
            raise AnalysisBroken('%s: no success return' % nm)
        ok = len(cs) == 2 and all(g.ev_dominates(c, r) for c in cs for r in succ)
        ctx.check('R3', '%s:success-needs-both-calls' % nm, ok, succ[0], '%s returns 0 only after %s of both files' % (nm, call),
                  '%s can report success without having re-owned / re-moded both files (e.g. an early return for "our own uid" leaves the group unset)' % nm)
        want = [p['n'] for p in g.params[1:]]
        ok = all([estr(a) for a in c.args[1:]] == want for c in cs)
        ctx.check('R3', '%s:passes-caller-values' % nm, ok, cs[0] if cs else g, '%s hands %s to %s unchanged' % (nm, want, call), '%s does not pass %s through to %s' % (nm, want, call))
    # writers of c->auth
    bad = []
    n = 0
    for fld in ('uid', 'gid', 'mode'):
        for (g, ev) in prog.writers(fld, 'qb_ipcs_connection_auth'):
            n += 1
            if g.name not in ('handle_new_connection', 'qb_ipcs_connection_auth_set'):
                bad.append((g, ev))
    ctx.check('R3', 'auth-writers', n >= 6 and not bad, bad[0][1] if bad else None, 'c->auth is written only by handle_new_connection and qb_ipcs_connection_auth_set',
              'c->auth is also written in %s' % sorted({g.name for (g, _e) in bad}))
    h = prog.fn('handle_new_connection')
    md = [ev for ev in h.stores(field='mode', rec='qb_ipcs_connection_auth')]
    ctx.check('R3', 'default-mode-owner-only', bool(md) and all((cval(unwrap(ev.rhs)) or 0o777) & 0o077 == 0 for ev in md), md[0] if md else h,
              'the default mode is owner-only', 'the default connection file mode is %s' % [oct(cval(unwrap(ev.rhs)) or 0) for ev in md])
    ugp = h.params[5]['n']
    ids = [ev for ev in h.events('STORE') if last_field(ev.lhs) and last_field(ev.lhs)[0] == 'qb_ipcs_connection_auth' and last_field(ev.lhs)[1] in ('uid', 'gid')]
    ctx.check('R3', 'default-owner-is-peer', bool(ids) and all(mentions_var(ev.rhs, ugp) for ev in ids), ids[0] if ids else h,
              'the default owner/group are the peer\'s kernel ids', 'the default owner/group are not the peer\'s ids')
    # temp dir: mkdtemp creates 0700; it is chowned; mode set explicitly
    mk = list(h.calls('mkdtemp'))
    cm = [ev for ev in h.calls('chmod')]
    ctx.check('R3', 'tempdir-created-by-mkdtemp', len(mk) == 1 and all(h.ev_dominates(mk[0], c) for c in cm), mk[0] if mk else h,
              'the per-connection directory is created by mkdtemp (0700) before any mode change', 'the per-connection directory is not created by mkdtemp first')
