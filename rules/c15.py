"""C15 - blackbox dump files: faithful round trip, no crash on damaged files."""
from engine.qb import (cmp_forms, AnalysisBroken, abstract_run, estr, unwrap, cval, walk, last_field, fields_of, callee_of,
                       mentions_var, atoms_of, root_var)
from engine.bounds import Analysis, Lin, State
from rules.common import field_is, has_call, derives, value_sources, macro_named
from rules import c14

UNITS = ['lib/ringbuffer.c', 'lib/log_blackbox.c', 'lib/log_format.c', 'lib/log.c', 'tools/qb_blackbox.c']
TECHNIQUE = ('static analysis: taint-style checked-before-use rules on the CFG (cut sets), abstract interpretation over linear '
             'inequalities for every read of the record buffer, must-pass-through rules for cleanup, constant agreement of writer/reader')
DECIDES = ('Decides that every value taken from the file is compared with the quantity it will index or measure before it is used, '
           'that every read of a record stays within the bytes actually read (symbolic bounds analysis over the cursor), that no '
           'assertion can be failed by file contents, that ring, buffer and descriptor are released on every path, and that the dump '
           'writer and reader agree on the header layout and hash; that every retained record is reproduced (contents) is not decided.')
RULES = {
    'R1': 'qb_rb_create_from_file: read_pt and write_pt are compared with word_size, word_size with the file size, every header read is length-checked, hash and version are compared - all before the ring is created / the indices are installed',
    'R2': 'qb_log_blackbox_print_from_file: every read through the record cursor lies within bytes_read; the function name is terminated inside the record; the message area is inside the record and contains a terminator before it is decoded',
    'R3': 'no assertion reachable from the dump printer can be failed by file contents (each remaining assert condition is entailed)',
    'R4': 'cleanup: after the ring exists every path closes it and frees the record buffer; the descriptor is closed on every path; create_from_file closes the ring on every failure after qb_rb_open and opens it with CREATE (so close unlinks the files)',
    'R5': 'round trip: qb_rb_write_to_file and qb_rb_create_from_file agree on field order, sizes and the hash formula; the blackbox record written by _blackbox_vlogger is consumed field by field in the same order and sizes',
    'R6': 'the decoder stays inside the record: the printer gives it the number of bytes left in the record (entailed <= bytes_read), and in the decoder every fixed-width argument read lies below that bound (data cursor + width <= bound, by abstract interpretation over the cursor), every string argument is used only behind a terminator search limited to the bytes left, and the cursor never passes the bound',
    'R8': 'a stored string argument is handed to snprintf with a plain s directive: every case of the decoder that appends a length-modifier character to the rebuilt directive (the cases that raise a length flag) first records where it starts, and the string case rewinds the directive to that position before the string is printed ("%ls" would make printf read the stored bytes as wide characters, past the record)',
    'R9': 'printing a dump uses a ring of its own: the name qb_rb_create_from_file gives to qb_rb_open is not a constant (it contains the process id), so that two printers at the same time do not meet in each other\'s files and leave one behind',
    'R7': 'the reader takes what the writer can store: the largest message length the printer accepts and the text buffer it decodes into are not below the largest max_line_length a target can be given (C13.R4), and the record buffer is not of a constant size (the function name in a record has no bound) but measured on the ring just opened, and that measure is only ever raised by a constant, not capped',
    'R10': 'the writer of the records makes room with the margin the commit needs (= C11.R1): in overwrite mode the allocation loops on space_free < len + K with the K of normal mode and reclaims in the loop body',
    'R11': 'the priority byte of a record indexes the table of priority names only below the number of its entries: in qb_log_priority2str every index into the table is a constant below the element count or a value seen to be at most that (compared with an element count, not with a size in bytes)',
    'R12': 'every store the decoder makes while a record is printed is inside the buffer the printer handed it (= C14.R2, the bounds analysis of qb_vsnprintf_deserialize under str_len >= 1, and every caller passes a constant capacity)',
}
FLOORS = {'R12': 20, 'R11': 2, 'R10': 3, 'R1': 9, 'R2': 12, 'R3': 2, 'R4': 9, 'R5': 7, 'R6': 12, 'R7': 4, 'R8': 4, 'R9': 1}


def run(ctx):
    r1(ctx)
    r2(ctx)
    r3(ctx)
    r4(ctx)
    r5(ctx)
    r6(ctx)
    r7(ctx)
    r8(ctx)
    r9(ctx)
    r11(ctx)
    # R12 = C14.R2: the printer decodes each record with qb_vsnprintf_deserialize into a buffer on its stack
    from rules import c14
    c14.decoder_stores(ctx, 'R12')
    # R10 = C11.R1: a dump holds an unbroken run of records only if the writer made room for each one with the margin the commit
    # needs - a chunk that overruns the read index destroys the oldest record's header and the printer finds nothing
    from rules import c11
    sub = type(ctx)(ctx.prog, ctx.prop, ctx.tier, ctx.depth)
    c11.r1(sub)
    for r in sub.results:
        r['rule'] = 'R10'
        ctx.results.append(r)


def r1(ctx):
    prog = ctx.prog
    f = prog.fn('qb_rb_create_from_file')
    opens = list(f.calls('qb_rb_open'))
    if len(opens) != 1:
        raise AnalysisBroken('qb_rb_create_from_file: qb_rb_open calls = %d' % len(opens))
    op = opens[0]
    # locals filled by read(fd, &x, ..)
    reads = {}
    for ev in f.calls('read'):
        a = unwrap(ev.args[1])
        if a.get('k') == 'addr' and unwrap(a['e']).get('k') == 'var':
            reads[unwrap(a['e'])['n']] = ev
    # the five header words, identified by the order in which they are read (R5 ties that order to the writer's)
    ROLES = ('word_size', 'write_pt', 'read_pt', 'version', 'hash')
    rd_order = sorted(reads.items(), key=lambda kv: sum(1 for o in reads.values() if f.ev_dominates(o, kv[1])))
    if len(rd_order) < 5:
        raise AnalysisBroken('qb_rb_create_from_file: only %d header words are read into locals' % len(rd_order))
    L = {role: name for role, (name, _ev) in zip(ROLES, rd_order)}
    # each header read is followed by a length check before the value is used
    for name, rd in reads.items():
        nv = None
        for st in f.events('STORE'):
            if st.rhs is not None and unwrap(st.rhs) is not None and any(n is rd.e or n.get('id') == rd.e.get('id') for n in walk(st.rhs)):
                nv = estr(st.lhs)
        uses = [ev for ev in f.events('LOAD') if estr(ev.e) == name and f.may_follow(rd, ev)]
        bad = []
        for u in uses:
            def full(a, fb, nv=nv):
                return nv is not None and a.ls == nv and a.op == '==' and (a.rc is not None or True)
            if f.uncut_path(u, full, start=('after', rd)) is not None:
                bad.append(u)
        ctx.check('R1', 'header-read-length-checked:%s' % name, nv is not None and not bad, rd,
                  '%s is only used after its read() returned the full size' % name,
                  '%s is used although its read() may have been short (stale stack contents drive the reconstruction)' % name)
    inst = [st for st in f.stores(field='read_pt', rec='qb_ringbuffer_shared_s')] + [st for st in f.stores(field='write_pt', rec='qb_ringbuffer_shared_s')]
    if len(inst) != 2:
        raise AnalysisBroken('qb_rb_create_from_file: index installs = %d' % len(inst))
    for st in inst:
        v = estr(st.rhs)

        def inrange(a, fb, v=v):
            return a.ls == v and a.op == '<' and a.rs == L['word_size']
        ctx.check('R1', 'index-below-word_size:%s' % v, f.uncut_path(st, inrange) is None and f.uncut_path(op, inrange) is None, st,
                  '%s is compared with word_size before it is installed' % v,
                  '%s from the file is installed without being compared with word_size (it indexes the mapping in words)' % v)

    def ws_vs_file(a, fb):
        return a.ls == L['word_size'] and a.op == '<=' and any(n.get('k') == 'mem' and n['f'] == 'st_size' for n in walk(a.r))
    ctx.check('R1', 'word_size-below-file-size', f.uncut_path(op, ws_vs_file) is None, op, 'word_size is compared with the file size before the ring is created',
              'word_size from the file is not compared with the file size before the ring is created')

    # the recomputed hash: a local assigned from a sum that mentions the three index words
    calc = {estr(st.lhs) for st in f.events('STORE') if unwrap(st.lhs).get('k') == 'var' and st.rhs is not None and
            {L['word_size'], L['write_pt'], L['read_pt']} <= {n['n'] for n in walk(st.rhs) if n.get('k') == 'var'}}

    def hash_ok(a, fb):
        return a.op == '==' and ((a.ls == L['hash'] and a.rs in calc) or (a.rs == L['hash'] and a.ls in calc))

    def version_ok(a, fb):
        return a.ls == L['version'] and a.op == '==' and a.rc is not None
    ctx.check('R1', 'hash-compared', f.uncut_path(op, hash_ok) is None, op, 'the header hash is compared before the ring is created', 'the ring is created without the header hash having been compared')
    ctx.check('R1', 'version-compared', f.uncut_path(op, version_ok) is None, op, 'the header version is compared before the ring is created', 'the header version is not checked')
    # the data read is exactly what the header announced and is checked
    dr = [ev for ev in f.calls('read') if field_is(ev.args[1], 'shared_data')]
    ok = len(dr) == 1 and estr(dr[0].args[2]) == estr(unwrap(op.args[1])['l'] if unwrap(op.args[1]).get('k') == 'bin' else op.args[1])
    ctx.check('R1', 'data-read-size-matches-ring', ok, dr[0] if dr else f, 'the data read asks for the byte count the ring was sized from',
              'the data read length differs from the size the ring was created for')


class RecAnalysis(c14.EncAnalysis):
    pass


def r2(ctx):
    prog = ctx.prog
    f = prog.fn('qb_log_blackbox_print_from_file')
    # the record buffer and the number of valid bytes
    rd = [st for st in f.events('STORE') if st.rhs is not None and callee_of(unwrap(st.rhs)) == 'qb_rb_chunk_read']
    if len(rd) != 1:
        raise AnalysisBroken('print_from_file: chunk reads = %d' % len(rd))
    nbytes = estr(rd[0].lhs)
    buf = estr(unwrap(rd[0].rhs)['args'][1])
    cap = unwrap(rd[0].rhs)['args'][2]
    arrs = {}
    for ev in f.events('DECL'):
        ti = prog.type_info(ev.d.get('ty', ''))
        if ti.get('kind') == 'array' and ti.get('n'):
            arrs[ev.d['var']] = Lin(ti['n'] * (ti.get('elem_bytes') or 1))

    dimpl, dnames = c14.decoder_family(prog)
    bounded = {'n': 0, 'unbounded': []}

    def summ_deser(an, ev, st):
        n = an.lin(ev.args[1], st)
        if n is not None:
            an.check_write(ev, ev.args[0], n, st, '%s(%s, %s, ..)' % (ev.callee, estr(ev.args[0]), estr(ev.args[1])))
        # R6: the decoder is told how many bytes of the record it may read, and they are inside what was read
        if ev.callee == dimpl.name and len(ev.args) >= 4:
            m = an.lin(ev.args[3], st)
            if m is not None and an.check_read(ev, ev.args[2], m, st, 'decode %s bytes at %s' % (estr(ev.args[3]), estr(ev.args[2]))):
                bounded['n'] += 1
            else:
                an.oblige(ev, 'decode-bound-known', None, st, 'the byte count given to the decoder (%s) cannot be related to the record' % estr(ev.args[3]))
        else:
            if all(e.d is not ev.d for e in bounded['unbounded']):
                bounded['unbounded'].append(ev)

    an = RecAnalysis(prog, f, dict(arrs), summaries=dict([(nm, summ_deser) for nm in dnames] + [('my_strlcpy', c14.strl_summary)]))
    an.readcaps = {buf: Lin.term(nbytes)}
    an.extra_nonneg = ('my_strlcpy', 'my_strlcat', 'strftime')

    orig_transfer = an.transfer

    def transfer(ev, st):
        # len = qb_vsnprintf_deserialize(message, N, ..):  1 <= len <= N  (contract verified in C14 / R3 below)
        if ev.kind == 'STORE' and ev.rhs is not None and callee_of(unwrap(ev.rhs)) in dnames and unwrap(ev.lhs).get('k') == 'var':
            orig_transfer(ev, st)
            name = unwrap(ev.lhs)['n']
            n = an.lin(unwrap(ev.rhs)['args'][1], st)
            st.forget(name)
            st.add_le(1, Lin.term(name))
            if n is not None:
                st.add_le(Lin.term(name), n)
            return
        if ev.kind in ('STORE', 'DECL'):
            rhs = ev.rhs if ev.kind == 'STORE' else ev.d.get('init')
            if rhs is not None and callee_of(unwrap(rhs)) == 'strftime' and (ev.kind == 'DECL' or unwrap(ev.lhs).get('k') == 'var'):
                # strftime(buf, max, ..) stores at most max bytes and returns 0..max-1
                call = unwrap(rhs)
                n = an.lin(call['args'][1], st)
                if n is not None:
                    an.check_write(ev, call['args'][0], n, st, 'strftime(%s, %s, ..)' % (estr(call['args'][0]), estr(call['args'][1])))
                name = ev.d['var'] if ev.kind == 'DECL' else unwrap(ev.lhs)['n']
                st.forget(name)
                st.add_le(0, Lin.term(name))
                if n is not None:
                    st.add_le(Lin.term(name), n - 1)
                return
        orig_transfer(ev, st)
    an.transfer = transfer
    an.run()
    import os
    if os.environ.get('QBDBG'):
        for (b, i), sts in sorted(an.states.items()):
            ev = f.blocks[b].events[i]
            if ev.kind == 'CALL' and ev.callee == 'memcpy' and 'msg_len' in estr(ev.args[0]):
                for st in sts:
                    print('DBGSTATE', ev.ln, st)
    n = 0
    for (ev, key, text, ok) in an.obligations:
        n += 1
        ctx.check('R6' if key.startswith('decode') else 'R2', 'print:%s' % key, ok, ev, 'entailed', text)
    for ev in bounded['unbounded']:
        ctx.check('R6', 'print:decoder-given-the-record-end', False, ev, '',
                  'the printer decodes the message with %s, which is not told where the record ends: the argument bytes a damaged '
                  'format asks for are read from behind the record and behind the record buffer' % ev.callee)
    reads = sum(1 for (_e, key, _t, _o) in an.obligations if 'within-valid-bytes' in key)
    if reads < 5:
        raise AnalysisBroken('print_from_file: only %d reads through the record cursor were recognised' % reads)
    # the function name is a terminated string inside the record before it is printed
    def name_ptr(a):
        u = unwrap(a)
        return u.get('k') == 'var' and u.get('sc') == 'l' and u.get('ty', '').replace('const ', '') == 'char *'
    pr = [ev for ev in f.calls('printf') if any(name_ptr(a) for a in ev.args)]
    if not pr:
        raise AnalysisBroken('print_from_file: record print not found')
    fnvar = [unwrap(a)['n'] for a in pr[0].args if name_ptr(a)][0]      # the function name inside the record

    def terminated(a, fb):
        l = unwrap(a.l)
        return a.op == '==' and a.rc == 0 and l.get('k') == 'idx' and estr(l['b']) == fnvar
    ctx.check('R2', 'function-name-terminated', f.uncut_path(pr[0], terminated) is None, pr[0], 'the function name is printed only after its last byte inside the record was seen to be NUL',
              'the function name is printed as a string without a terminator check (read past the record)')
    ds = list(f.calls(*sorted(dnames)))
    if not ds:
        raise AnalysisBroken('print_from_file: no decoder call')

    def has_nul(a, fb):
        return a.op == '!=' and a.rc == 0 and callee_of(unwrap(a.l)) == 'memchr'

    mc = list(f.calls('memchr'))
    mlen = estr(mc[0].args[2]) if mc else None      # the message length taken from the record

    def msg_inside(a, fb):
        return mlen is not None and a.ls == mlen and a.op == '<=' and nbytes in a.rs
    for dcall in ds:
        ctx.check('R2', 'message-terminated-inside-record', f.uncut_path(dcall, has_nul) is None, dcall, 'the message is decoded only after a NUL was found within msg_len bytes',
                  'the encoded message is decoded without a terminator inside the record (the decoder runs off the buffer)')
        ctx.check('R2', 'message-length-inside-record', f.uncut_path(dcall, msg_inside) is None, dcall, 'msg_len is compared with what is left of the record',
                  'msg_len from the file is not compared with the remaining bytes of the record')
    # the record buffer is as large as the capacity given to the chunk read
    al = [st for st in f.events('STORE') if estr(st.lhs) == buf and callee_of(unwrap(st.rhs)) == 'malloc']
    ok = len(al) == 1 and estr(unwrap(al[0].rhs)['args'][0]) == estr(cap)
    ctx.check('R2', 'record-buffer=read-capacity', ok, al[0] if al else f, 'the record buffer is malloc(%s), the capacity given to qb_rb_chunk_read' % estr(cap),
              'the record buffer size differs from the capacity given to qb_rb_chunk_read')


def r3(ctx):
    prog = ctx.prog
    # decoder returns >= 1 (so assert(len > 0) cannot fail)
    d, dnames = c14.decoder_family(prog)
    sp, lp = d.params[0]['n'], d.params[1]['n']
    bufs = {sp: Lin.term(lp)}
    for ev in d.events('DECL'):
        ti = prog.type_info(ev.d.get('ty', ''))
        if ti.get('kind') == 'array':
            bufs[ev.d['var']] = Lin(ti['n'])
    an = c14.EncAnalysis(prog, d, bufs, init=[Lin(1) - Lin.term(lp)], summaries={'my_strlcpy': c14.strl_summary, 'my_strlcat': c14.strl_summary}).run()
    ok = bool(an.returns)
    for (ev, st, v) in an.returns:
        if v is not None:
            ok = ok and st.entails_le(1, v)
        else:
            # a sum of non-negative terms (the wrappers' results, the write position) and a constant >= 1
            def terms(e):
                u = unwrap(e)
                if u.get('k') == 'bin' and u.get('op') == '+':
                    return terms(u['l']) + terms(u['r'])
                return [u]
            const, fine = 0, True
            for t_ in terms(ev.e):
                if cval(t_) is not None:
                    const += cval(t_)
                elif callee_of(t_) in ('my_strlcat', 'my_strlcpy'):
                    continue
                else:
                    lv = an.lin(t_, st)
                    fine = fine and lv is not None and st.entails_le(0, lv)
            ok = ok and fine and const >= 1
    ctx.check('R3', 'decoder-returns>=1', ok, d, '%s returns at least 1 on every path' % d.name, d.name + ' can return 0: assert(len > 0) in the dump printer aborts on file contents')
    # assertions in the dump path
    n = 0
    for fname in ('qb_rb_create_from_file', 'qb_log_blackbox_print_from_file'):
        f = prog.fn(fname)
        fails = [b for b in f.blocks.values() if b.noreturn and any(ev.kind == 'CALL' and ev.callee == '__assert_fail' for ev in b.events)]
        for fb in fails:
            n += 1
            # the edge into the assert-fail block
            conds = [(p, lab) for p in fb.preds for (t, lab) in f.blocks[p].succs if t == fb.id]
            ok = False
            why = ''
            for (p, lab) in conds:
                c = f.blocks[p].cond
                why = estr(c) if c else '?'
                ats = atoms_of(c, lab) if c is not None and lab in (True, False) else []
                # only `len > 0` after the decoder (len >= 1 by the contract above) is known to be unfailable
                for a in ats:
                    if a.op == '<=' and a.rc == 0 and unwrap(a.l).get('k') == 'var':
                        defs, entry = f.reaching_defs(unwrap(a.l)['n'], f.end_of(p))
                        if defs and not entry and all(dd.kind == 'STORE' and callee_of(unwrap(dd.rhs)) in dnames for dd in defs):
                            ok = True
            ctx.check('R3', '%s:assert(%s)' % (fname, why), ok, '%s:%d (%s)' % (f.file, f.blocks[conds[0][0]].term_ln if conds else f.line, fname),
                      'assert(%s) cannot fail: the decoder returns >= 1' % why,
                      'assert(%s) is reachable with a file-controlled operand: a damaged file aborts the process' % why)
    ctx.note('assertions on the dump path: %d' % n)


def r4(ctx):
    prog = ctx.prog
    # a ring that cannot be opened leaves no file: what qb_rb_open_2 removes on its failure exits is named by the paths it stored in the
    # shared header when it created the files - not by the scratch buffer that both opens write their result into
    o = prog.fn('qb_rb_open_2')
    uls = list(o.calls('unlink'))
    if not uls:
        raise AnalysisBroken('qb_rb_open_2: its failure exits remove nothing')
    for ev in uls:
        lf = last_field(unwrap(ev.args[0]))
        ctx.check('R4', 'rb_open:failure-removes-files-by-their-stored-names', lf is not None and lf[0] == 'qb_ringbuffer_shared_s' and lf[1] in ('hdr_path', 'data_path'), ev,
                  'the failure exit removes %s' % estr(ev.args[0]),
                  'a failure exit of qb_rb_open_2 removes %s, which is not a path stored in the shared header: the buffer the opens return their path in holds the name of whichever file was opened last, so when the data file cannot be created or mapped the header file stays in /dev/shm (printing a dump that does not fit leaves qb-create_from_file-<pid>-header behind)'
                  % estr(ev.args[0]))
    have = {last_field(unwrap(ev.args[0]))[1] for ev in uls if last_field(unwrap(ev.args[0]))}
    ctx.check('R4', 'rb_open:failure-removes-both-files', {'hdr_path', 'data_path'} <= have, uls[0], 'the failure exits remove the header file and the data file',
              'the failure exits of qb_rb_open_2 remove only %s' % sorted(have))
    f = prog.fn('qb_log_blackbox_print_from_file')
    cr = [st for st in f.events('STORE') if st.rhs is not None and callee_of(unwrap(st.rhs)) == 'qb_rb_create_from_file']
    if len(cr) != 1:
        raise AnalysisBroken('print_from_file: ring creation sites = %d' % len(cr))
    inst = estr(cr[0].lhs)

    def notnull_edge(fb, t, lab):
        if fb.cond is None or lab not in (True, False):
            return True
        return not any(a.ls == inst and a.op == '==' and a.rc == 0 for a in atoms_of(fb.cond, lab))
    _h, exits, _n = f.search(('after', cr[0]), stop=lambda ev: ev.kind == 'CALL' and ev.callee == 'qb_rb_close' and estr(ev.args[0]) == inst, edge_filter=notnull_edge)
    ctx.check('R4', 'print:ring-closed-on-every-path', not exits, cr[0], 'once the ring exists every path closes it (its shared-memory files are removed)',
              'a path returns without closing the reconstructed ring: its /dev/shm files stay behind', {'path': f.path_lines(exits[0]) if exits else None})
    al = [st for st in f.events('STORE') if st.rhs is not None and callee_of(unwrap(st.rhs)) == 'malloc']
    for a in al:
        v = estr(a.lhs)
        _h, exits, _n = f.search(('after', a), stop=lambda ev, v=v: ev.kind == 'CALL' and ev.callee == 'free' and estr(ev.args[0]) == v)
        ctx.check('R4', 'print:record-buffer-freed', not exits, a, 'the record buffer is freed on every path', 'a path leaks the record buffer')
    op = [st for st in f.events('STORE') if st.rhs is not None and callee_of(unwrap(st.rhs)) == 'open']
    for o in op:
        v = estr(o.lhs)

        def open_failed(fb, t, lab, v=v):
            if fb.cond is None or lab not in (True, False):
                return True
            return not any(a.ls == v and a.op == '<' and a.rc == 0 for a in atoms_of(fb.cond, lab))
        _h, exits, _n = f.search(('after', o), stop=lambda ev, v=v: ev.kind == 'CALL' and ev.callee == 'close' and estr(ev.args[0]) == v, edge_filter=open_failed)
        ctx.check('R4', 'print:descriptor-closed', not exits, o, 'the dump file descriptor is closed on every path', 'a path leaks the dump file descriptor')
    g = prog.fn('qb_rb_create_from_file')
    opens = [st for st in g.events('STORE') if st.rhs is not None and callee_of(unwrap(st.rhs)) == 'qb_rb_open']
    if len(opens) != 1:
        raise AnalysisBroken('create_from_file: ring opens = %d' % len(opens))
    rbv = estr(opens[0].lhs)
    flags = cval(unwrap(unwrap(opens[0].rhs)['args'][2])) or 0
    ctx.check('R4', 'create:opened-with-CREATE', flags & 1, opens[0], 'the ring is opened with QB_RB_FLAG_CREATE (closing it unlinks its files)', 'the reconstructed ring is not opened with CREATE: close leaves its files')
    bad = []
    for r in g.returns():
        if cval(unwrap(r.e)) != 0 or not g.may_follow(opens[0], r):
            continue

        def rb_null(fb, t, lab):
            if fb.cond is None or lab not in (True, False):
                return True
            return not any(a.ls == rbv and a.op == '==' and a.rc == 0 for a in atoms_of(fb.cond, lab))
        hits, _e, _n = g.search(('after', opens[0]), goal=lambda x, r=r: x is r, stop=lambda ev: ev.kind == 'CALL' and ev.callee == 'qb_rb_close', edge_filter=rb_null)
        if hits:
            bad.append(r)
    ctx.check('R4', 'create:failure-closes-ring', not bad, bad[0] if bad else g, 'every failure after the ring was opened closes it', 'a failure path after qb_rb_open returns NULL without closing the ring')
    t = prog.fn('main', 'tools/qb_blackbox.c') if prog.has_fn('main') else None
    if t is not None:
        calls = list(t.calls('qb_log_blackbox_print_from_file'))
        ctx.check('R4', 'tool:uses-library-printer', bool(calls), t, 'qb-blackbox prints through qb_log_blackbox_print_from_file', 'qb-blackbox no longer uses the library printer')


def _r5_minimum(ctx):
    """the reader refuses no record the writer stores: what it demands of a record beyond the function name (its minimum entry size) is not
    more than the fixed fields the writer puts around the name plus the shortest message (one byte)"""
    from rules import c07
    prog = ctx.prog
    wr = prog.fn('_blackbox_vlogger')
    rd = prog.fn('qb_log_blackbox_print_from_file')
    fixed = None
    for st in wr.events('STORE'):
        if st.d['op'] == '=' and st.rhs is not None and unwrap(st.lhs).get('k') == 'var':
            k = c07._plus_const(st.rhs, lambda v: unwrap(v).get('k') == 'var')
            if k is not None and k >= 16:
                fixed = k if fixed is None else min(fixed, k)
    if fixed is None:
        raise AnalysisBroken('_blackbox_vlogger: the fixed size of a record (constant + function name length) was not found')
    demands = []
    for b in rd.blocks.values():
        c = unwrap(b.cond) if b.cond else None
        for (l, o, r) in cmp_forms(c) if c else []:
            for (x, y, oo) in ((l, r, o), (r, l, {'<': '>', '>': '<', '<=': '>=', '>=': '<='}.get(o, o))):
                k = c07._plus_const(x, lambda v: unwrap(v).get('k') == 'var')
                if k is not None and k >= 8 and unwrap(y).get('k') == 'var' and oo in ('>', '>='):
                    demands.append((b, k))
    if not demands:
        raise AnalysisBroken('print_from_file: no test of the form name length + constant > bytes read')
    for (b, k) in demands:
        ctx.check('R5', 'record:reader-minimum<=writer-minimum', k <= fixed + 1, '%s:%d (%s)' % (rd.file, b.term_ln, rd.name),
                  'the reader wants name length + %d bytes of a record, the writer stores name length + %d + at least 1' % (k, fixed),
                  'the reader refuses a record shorter than name length + %d bytes, the writer stores name length + %d plus a message of at least 1 byte: a record with an empty message is taken for a corrupt one, it and every later record are not printed' % (k, fixed))


def _r5_size_test(ctx):
    """the loader accepts every file the dumper can leave: the dump is written over whatever the file held (no truncation), so a file
    may be longer than the dump in it - the test of word_size against the file size refuses a file that is too short, nothing else"""
    prog = ctx.prog
    f = prog.fn('qb_rb_create_from_file')
    tests = []
    for b in f.blocks.values():
        c = unwrap(b.cond) if b.cond else None
        for (l, o, r) in cmp_forms(c) if c else []:
            names = {n.get('f') or n.get('n') for n in list(walk(l)) + list(walk(r)) if n.get('k') in ('mem', 'var')}
            if 'st_size' in names and any('word_size' in str(x) for x in names):
                tests.append((b, o))
    if not tests:
        raise AnalysisBroken('qb_rb_create_from_file: word_size is not compared with the file size')
    bad = [(b, o) for (b, o) in tests if o in ('!=', '==')]
    ctx.check('R5', 'record:loader-refuses-only-files-that-are-too-short', not bad, '%s:%d (%s)' % (f.file, (bad or tests)[0][0].term_ln, f.name),
              'word_size is compared with the file size one-sidedly (too short is refused)',
              'qb_rb_create_from_file wants the file size to match word_size exactly: qb_rb_write_to_file does not truncate, so a dump written over an older, longer one (a smaller blackbox, a file left behind) cannot be loaded at all - every record of the newer dump is lost')


def r5(ctx):
    prog = ctx.prog
    _r5_minimum(ctx)
    _r5_size_test(ctx)
    w = prog.fn('qb_rb_write_to_file')
    r = prog.fn('qb_rb_create_from_file')
    worder = []
    for ev in sorted(w.calls('write'), key=lambda e: sum(1 for o in w.calls('write') if w.ev_dominates(o, e))):
        a = unwrap(ev.args[1])
        a = unwrap(a['e']) if a.get('k') == 'addr' else a
        worder.append(((last_field(a) or (None, estr(a)))[1], cval(unwrap(ev.args[2]))))
    rorder = []
    for ev in sorted(r.calls('read'), key=lambda e: sum(1 for o in r.calls('read') if r.ev_dominates(o, e))):
        a = unwrap(ev.args[1])
        a = unwrap(a['e']) if a.get('k') == 'addr' else a
        sz = cval(unwrap(ev.args[2]))
        if sz is None and unwrap(ev.args[2]).get('k') == 'var':
            srcs, _en = value_sources(r, ev.args[2], ev)
            cs = {cval(s) for s in srcs}
            sz = cs.pop() if len(cs) == 1 else None
        rorder.append(((last_field(a) or (None, estr(a)))[1], sz))
    # the writer's first three words are ring header fields (named by the field), the last two are a version constant and the
    # hash; the reader reads all five into locals.  What must agree is the sizes in order, and - because R1 assigns the
    # reader's locals their roles by read order - that the writer's field order is word_size, write_pt, read_pt.
    wf = [x[0] for x in worder[:3]]
    ok = [x[1] for x in worder[:5]] == [x[1] for x in rorder[:5]] == [4] * 5 and len(worder) == 6 and len(rorder) == 6 and \
        wf == ['word_size', 'write_pt', 'read_pt'] and worder[5][0] == rorder[5][0] == 'shared_data'
    # the reader installs each local into the field of its role
    inst = {}
    for st in r.events('STORE'):
        lf = last_field(st.lhs)
        if lf and lf[0] == 'qb_ringbuffer_shared_s' and lf[1] in ('read_pt', 'write_pt') and unwrap(st.rhs).get('k') == 'var':
            inst[lf[1]] = unwrap(st.rhs)['n']
    rnames = [x[0] for x in rorder[:5]]
    ok = ok and inst.get('write_pt') == rnames[1] and inst.get('read_pt') == rnames[2]
    ctx.check('R5', 'ring-header:field-order-and-sizes', ok, w,
              'writer and reader use five 4-byte header words in the order word_size, write_pt, read_pt, version, hash; the reader installs the 2nd into write_pt and the 3rd into read_pt',
              'dump header layouts differ: writer %s, reader %s (installs %s)' % (worder, rorder, inst))
    def is_sum(e, n=3):
        u = unwrap(e)
        k = 0
        while u.get('k') == 'bin' and u['op'] == '+':
            k += 1
            u = unwrap(u['l'])
        return k >= n
    # role of the reader's locals = order in which they are read
    rlocals = []
    for ev in sorted(r.calls('read'), key=lambda e: sum(1 for o in r.calls('read') if r.ev_dominates(o, e))):
        a = unwrap(ev.args[1])
        if a.get('k') == 'addr' and unwrap(a['e']).get('k') == 'var':
            rlocals.append(unwrap(a['e'])['n'])
    role = dict(zip(rlocals, ('word_size', 'write_pt', 'read_pt', 'version', 'hash')))
    hw = [st for st in w.events('STORE') if unwrap(st.lhs).get('k') == 'var' and st.d['op'] == '=' and is_sum(st.rhs)]
    hr = [st for st in r.events('STORE') if unwrap(st.lhs).get('k') == 'var' and st.d['op'] == '=' and is_sum(st.rhs)]
    def terms(e):
        out = []
        def rec(x):
            x = unwrap(x)
            if x.get('k') == 'bin' and x['op'] == '+':
                rec(x['l'])
                rec(x['r'])
            else:
                lf = last_field(x)
                out.append(lf[1] if lf else ('version' if cval(x) is not None else role.get(estr(x), estr(x))))
        rec(e)
        return sorted(out)
    ok = len(hw) == 1 and len(hr) == 1 and terms(hw[0].rhs) == terms(hr[0].rhs)
    ctx.check('R5', 'ring-header:hash-formula', ok, hw[0] if hw else w, 'writer and reader compute the hash from the same fields', 'hash formulas differ: %s vs %s' % (terms(hw[0].rhs) if hw else None, terms(hr[0].rhs) if hr else None))
    # the reconstructed ring must have the writer's modulus: qb_rb_open_2 adds K to the requested size before rounding up to pages,
    # so the reader has to ask for (word_size * 4) - K with the same K, or every index wraps at the wrong word count
    o2 = prog.fn('qb_rb_open_2')
    sizev = o2.params[1]['n']
    adds = [ev for ev in o2.events('STORE') if estr(ev.lhs) == sizev and ev.d['op'] in ('+=', '++')]
    if len(adds) != 1:
        raise AnalysisBroken('qb_rb_open_2: the single "size += constant" was not found')
    k_open = cval(unwrap(adds[0].rhs)) if adds[0].d['op'] == '+=' else 1
    opens = list(r.calls('qb_rb_open'))
    if len(opens) != 1:
        raise AnalysisBroken('qb_rb_create_from_file: qb_rb_open calls = %d' % len(opens))
    a = unwrap(opens[0].args[1])
    dr = [ev for ev in r.calls('read') if field_is(ev.args[1], 'shared_data')]
    ok = a.get('k') == 'bin' and a['op'] == '-' and cval(unwrap(a['r'])) == k_open and len(dr) == 1 and estr(a['l']) == estr(dr[0].args[2])
    if ok:
        srcs, entry = value_sources(r, a['l'], opens[0])
        ws = role and [n for n, ro in role.items() if ro == 'word_size']
        ok = not entry and bool(srcs) and all(any(n.get('k') == 'var' and ws and n['n'] == ws[0] for n in walk(x)) and
                                              any(cval(n) == 4 for n in walk(x)) for x in srcs)
    recognised = len(dr) == 1 and (estr(a) == estr(dr[0].args[2]) or (a.get('k') == 'bin' and a['op'] in ('-', '+') and estr(a['l']) == estr(dr[0].args[2]) and cval(unwrap(a['r'])) is not None))
    if not ok and not recognised:
        ctx.inconclusive('R5', 'ring-modulus-matches-writer', opens[0], 'the size given to qb_rb_open (%s) is not of the form <data bytes> - K' % estr(a))
    else:
        ctx.check('R5', 'ring-modulus-matches-writer', ok, opens[0], 'the ring is re-created with (word_size * 4) - %s bytes: qb_rb_open_2 adds the same %s back, so the modulus is the writer\'s word_size' % (k_open, k_open),
                  'the ring is re-created with %s but qb_rb_open_2 adds %s before rounding to pages: the reloaded ring has a different word_size than the dump and indices wrap at the wrong place' % (estr(a), k_open))
    # blackbox record: sizes copied by the writer in order vs sizes consumed by the reader
    v = prog.fn('_blackbox_vlogger')
    wseq = []
    for ev in sorted(v.calls('memcpy'), key=lambda e: sum(1 for o in v.calls('memcpy') if v.ev_dominates(o, e))):
        rv = root_var(ev.args[0])
        if rv is not None and rv.get('sc') == 'l' and rv.get('ty') == 'char *' and unwrap(ev.args[0]).get('k') != 'addr':      # the record cursor(s)
            wseq.append(cval(unwrap(ev.args[2])) if cval(unwrap(ev.args[2])) is not None else estr(ev.args[2]))
    p = prog.fn('qb_log_blackbox_print_from_file')
    rseq = []
    for ev in sorted(p.calls('memcpy'), key=lambda e: sum(1 for o in p.calls('memcpy') if p.ev_dominates(o, e))):
        rv = root_var(ev.args[1])
        if rv is not None and rv.get('sc') == 'l' and rv.get('ty') == 'char *' and unwrap(ev.args[1]).get('k') != 'addr':      # the record cursor
            rseq.append(cval(unwrap(ev.args[2])) if cval(unwrap(ev.args[2])) is not None else estr(ev.args[2]))
    # writer: 4 4 1 4 fn 16 ; the message length word is written last (into the reserved slot); reader: 4 4 1 4 | 16 or 8 | 4
    wfixed = [x for x in wseq if isinstance(x, int)]
    rfixed = [x for x in rseq if isinstance(x, int)]
    ok = wfixed[:4] == rfixed[:4] == [4, 4, 1, 4] and 16 in wfixed and 16 in rfixed and wfixed.count(4) >= 4 and rfixed.count(4) >= 4
    ctx.check('R5', 'record:field-sizes-agree', ok, v, 'record fields: writer copies %s, reader consumes %s' % (wseq, rseq),
              'blackbox record layouts differ: writer copies %s, reader consumes %s' % (wseq, rseq))
    # the reader's minimum entry size equals the fixed part of the writer's header
    mins = [n for b in p.blocks.values() if b.cond is not None for n in walk(b.cond) if n.get('mn') == 'BB_MIN_ENTRY_SIZE']
    ok = bool(mins) and all(cval(m) is not None for m in mins)
    ctx.check('R5', 'record:min-entry-size', ok and cval(mins[0]) >= 4 + 4 + 1 + 4 + 4, p, 'BB_MIN_ENTRY_SIZE (%s) covers the fixed fields' % (cval(mins[0]) if mins else None),
              'BB_MIN_ENTRY_SIZE is smaller than the fixed part of a record')


class DecAnalysis(c14.EncAnalysis):
    """adds what a successful memchr says: p = memchr(b, c, n), p != NULL  =>  b <= p <= b + n - 1 (and so n >= 1)"""

    def _memchr_def(self, var, blk):
        f = self.fn
        defs, entry = f.reaching_defs(var, f.end_of(blk))
        if entry or len(defs) != 1:
            return None
        dd = defs[0]
        rhs = unwrap(dd.rhs) if dd.kind == 'STORE' else unwrap(dd.d.get('init') or {})
        if callee_of(rhs) != 'memchr' or len(rhs['args']) != 3:
            return None
        # operands must still have the value they had at the call: only parameters that are never assigned
        pn = {q['n'] for q in f.params}
        for a in (rhs['args'][0], rhs['args'][2]):
            for n in walk(a):
                if n.get('k') == 'var' and (n['n'] not in pn or any(True for _ in f.stores(var=n['n']))):
                    return None
                if n.get('k') in ('call', 'deref', 'idx', 'member'):
                    return None
        return rhs

    def refine(self, st, cond, lab):
        ok = super().refine(st, cond, lab)
        for a in atoms_of(cond, lab):
            l = unwrap(a.l)
            if a.op == '!=' and a.rc == 0 and l.get('k') == 'var' and l.get('sc') in ('l', 'p'):
                blk = self._cur_blk
                call = self._memchr_def(l['n'], blk)
                if call is not None:
                    b, n = self.lin(call['args'][0], st), self.lin(call['args'][2], st)
                    if b is not None and n is not None:
                        st.add_le(b, Lin.term(l['n']))
                        st.add_le(Lin.term(l['n']), b + n - 1)
        return ok

    def _block_outs(self, b, states):
        self._cur_blk = b
        return super()._block_outs(b, states)

    def nul_guard(self, ev, ptr):
        """the size expression n of a live guard memchr(ptr, 0, n) != NULL dominating ev"""
        want = estr(unwrap(ptr))
        for (a, _edge) in self.fn.guards_live(ev):
            l = unwrap(a.l)
            if a.op == '!=' and a.rc == 0 and callee_of(l) == 'memchr' and len(l['args']) == 3 and \
                    estr(unwrap(l['args'][0])) == want and cval(unwrap(l['args'][1])) == 0:
                return l['args'][2]
        return None

    def transfer(self, ev, st):
        # cursor += strlen(s) + 1  with s known to be terminated within n bytes:  0 <= strlen(s) <= n - 1
        if ev.kind == 'STORE' and ev.d.get('op') == '+=' and unwrap(ev.lhs).get('k') == 'var':
            r = unwrap(ev.rhs)
            if r.get('k') == 'bin' and r['op'] == '+' and cval(unwrap(r['r'])) is not None and callee_of(unwrap(r['l'])) == 'strlen':
                sarg = unwrap(r['l'])['args'][0]
                nexpr = self.nul_guard(ev, sarg)
                n = self.lin(nexpr, st) if nexpr is not None else None
                name = unwrap(ev.lhs)['n']
                if n is not None:
                    st.add_le(0, Lin.term('#s'))
                    st.add_le(Lin.term('#s'), n - 1)
                    st.assign(name, Lin.term(name) + Lin.term('#s') + cval(unwrap(r['r'])))
                    st.forget('#s')
                    return
        super().transfer(ev, st)


def r6(ctx):
    prog = ctx.prog
    d, dnames = c14.decoder_family(prog)
    if len(d.params) < 4:
        ctx.note('R6: the decoder %s takes no input bound; decided at its call in the printer' % d.name)
        return
    sp, lp, bp, np_ = (q['n'] for q in d.params[:4])
    bufs = {sp: Lin.term(lp)}
    for ev in d.events('DECL'):
        ti = prog.type_info(ev.d.get('ty', ''))
        if ti.get('kind') == 'array':
            bufs[ev.d['var']] = Lin(ti['n'])
    an = DecAnalysis(prog, d, bufs, init=[Lin(1) - Lin.term(lp)], summaries={'my_strlcpy': c14.strl_summary, 'my_strlcat': c14.strl_summary})
    an.readcaps = {bp: Lin.term(np_)}
    an.run()
    n = 0
    for (ev, key, text, ok) in an.obligations:
        if 'within-valid-bytes' in key or ('offset>=0' in key and ('source' in key or key.startswith('read '))):
            n += 1
            ctx.check('R6', 'decoder:%s' % key, ok, ev, 'entailed', text)
    if n < 6:
        raise AnalysisBroken('%s: only %d argument reads recognised' % (d.name, n))
    # the address of an argument byte escapes only into bounded reads: memcpy sources (above), the terminator search itself,
    # or string uses behind a terminator search over the bytes left
    uses = 0
    for ev in d.events('CALL'):
        for i, a in enumerate(ev.args):
            u = unwrap(a)
            if not (u.get('k') == 'addr' and unwrap(u['e']).get('k') == 'idx' and estr(unwrap(unwrap(u['e'])['b'])) == bp):
                continue
            if ev.callee in ('memcpy', 'memmove') and i == 1:
                continue
            sts = [s for (b, i2) in [(ev.blk, ev.idx)] for s in an.states.get((b, i2), [])]
            if ev.callee == 'memchr' and i == 0:
                # the search itself: its limit is the bytes left
                off = an.lin(unwrap(u['e'])['i'], sts[0]) if sts else None
                lim = an.lin(ev.args[2], sts[0]) if sts else None
                ok = bool(sts) and off is not None and lim is not None and all(st.entails(off + lim - Lin.term(np_)) for st in sts)
                uses += 1
                ctx.check('R6', 'decoder:terminator-search-limited', ok, ev, 'memchr(%s, .., %s) looks at no byte behind the bound' % (estr(a), estr(ev.args[2])),
                          'the terminator search for a string argument may look behind the bound: %s' % estr(ev.args[2]))
                continue
            uses += 1
            nexpr = an.nul_guard(ev, a)
            ctx.check('R6', 'decoder:string-argument-terminated:%s' % ev.callee, nexpr is not None, ev,
                      '%s uses %s only behind memchr(%s, 0, %s) != NULL' % (ev.callee, estr(a), estr(a), estr(nexpr) if nexpr is not None else ''),
                      '%s reads a string at %s that was not seen to end inside the bound (no terminator search over the bytes left on every path, or the cursor moved since)' % (ev.callee, estr(a)))
    if uses < 2:
        raise AnalysisBroken('%s: string argument uses = %d' % (d.name, uses))
    # a pointer to an argument byte stored in a local and dereferenced: covered by the read obligations when the engine resolves it
    ctx.note('decoder %s analysed with read bound %s on %s: %d read obligations, %d string uses' % (d.name, np_, bp, n, uses))


def r7(ctx):
    from rules import c13
    prog = ctx.prog
    sub = type(ctx)(prog, ctx.prop, ctx.tier, ctx.depth)
    _lo, hi = c13.line_limit_invariant(sub)
    f = prog.fn('qb_log_blackbox_print_from_file')
    _d, dnames = c14.decoder_family(prog)
    ds = list(f.calls(*sorted(dnames)))
    if not ds:
        raise AnalysisBroken('print_from_file: no decoder call')
    mc = list(f.calls('memchr'))
    if not mc:
        raise AnalysisBroken('print_from_file: terminator search of the message not found')
    mlen = estr(unwrap(mc[0].args[2]))
    # upper limits on the message length known when the message is decoded:  msg_len <= K
    ks = []
    for (at, (fb, _t, _lab)) in f.guards(ds[0]):
        if at.ls == mlen and at.op in ('<', '<=') and at.rc is not None:
            ks.append((at.rc if at.op == '<=' else at.rc - 1, f.blocks[fb]))
    if ks:
        k, b = min(ks, key=lambda x: x[0])
        ctx.check('R7', 'message-limit>=writer-limit', k >= hi, '%s:%d (%s)' % (f.file, b.term_ln, f.name),
                  'messages up to %d bytes are accepted, the writer stores at most %d' % (k, hi),
                  'the printer refuses messages above %d bytes, the writer stores up to %d (max_line_length): such a record ends the print and hides every later one' % (k, hi))
    else:
        ctx.ok('R7', 'message-limit>=writer-limit', f, 'the printer has no constant message limit')
    for dcall in ds:
        c = cval(unwrap(dcall.args[1]))
        ctx.check('R7', 'text-buffer>=writer-limit', c is not None and c >= hi, dcall, 'the message is decoded into %s bytes' % c,
                  'the message is decoded into %s bytes, the writer stores up to %d' % (c if c is not None else estr(dcall.args[1]), hi))
    rd = [st for st in f.events('STORE') if st.rhs is not None and callee_of(unwrap(st.rhs)) == 'qb_rb_chunk_read']
    cap = unwrap(rd[0].rhs)['args'][2]
    inst = estr(unwrap(unwrap(rd[0].rhs)['args'][0]))
    srcs, _entry = value_sources(f, cap, rd[0])
    srcs = [x for x in srcs if x.get('k') != 'update']
    consts = [s for s in srcs if cval(unwrap(s)) is not None]
    measured = [s for s in srcs if unwrap(s).get('k') == 'call' and any(estr(unwrap(a)) == inst for a in unwrap(s)['args'])]
    # a constant may only raise the measured capacity (a floor for the smallest record), never cap it
    capn = estr(unwrap(cap))
    lowered = [st for st in f.events('STORE') if estr(st.lhs) == capn and not any(unwrap(st.rhs) is unwrap(m) or estr(st.rhs) == estr(m) for m in measured) and
               f.may_follow(st, rd[0]) and any(at.ls == capn and at.op in ('>', '>=') for (at, _e) in f.guards(st))]
    ctx.check('R7', 'record-buffer-not-capped', not lowered, lowered[0] if lowered else rd[0],
              'the measured record capacity is only ever raised (to hold the smallest record), never cut down to a constant',
              'the record capacity measured on the ring is cut down to %s: a record whose function name and message together are longer (the name has no bound, the message goes up to max_line_length) ends the print with ENOBUFS and hides itself and every later record'
              % (estr(lowered[0].rhs) if lowered else ''))
    ctx.check('R7', 'record-buffer-measured-on-the-ring', bool(measured), rd[0],
              'the record capacity comes from %s' % ', '.join(sorted(estr(s) for s in measured)),
              'the record capacity %s is a constant (%s): a record with a longer function name or message ends the print with ENOBUFS' %
              (estr(cap), ', '.join(sorted(estr(s) for s in consts))))


def r8(ctx):
    prog = ctx.prog
    d, _names = c14.decoder_family(prog)
    sw = c14._switch_block(d)
    tg = c14._case_targets(d, sw)
    loops = d.natural_loops()
    barrier = {h for h in loops if sw.id in loops[h]} | {sw.id}
    arrs = [ev.d['var'] for ev in d.events('DECL') if prog.type_info(ev.d.get('ty', '')).get('kind') == 'array']
    if len(arrs) != 1 or 's' not in tg:
        raise AnalysisBroken('%s: directive buffer / s case not found' % d.name)
    fbuf = arrs[0]
    # the fmt cursor: the variable that indexes fbuf in stores
    curs = set()
    for ev in d.events('STORE'):
        l = unwrap(ev.lhs)
        if l.get('k') == 'idx' and estr(unwrap(l['b'])) == fbuf:
            for n in walk(l['i']):
                if n.get('k') == 'var':
                    curs.add(n['n'])
    if len(curs) != 1:
        raise AnalysisBroken('%s: %s is indexed by %s' % (d.name, fbuf, sorted(curs)))
    cur = curs.pop()
    # length-modifier cases: they go back into the switch (modifier role) and set a local flag to a non-zero constant
    modcases = {}
    for c, start in tg.items():
        if c.isdigit() or c in '.*#- +\'I':
            continue
        visits, _t = abstract_run(d, {}, tracked=set(), start=start, barrier=barrier)
        raises = [ev for (ev, _e) in visits if ev.kind == 'STORE' and unwrap(ev.lhs).get('k') == 'var' and cval(unwrap(ev.rhs)) not in (0, None) and ev.d['op'] == '=']
        appends = [ev for (ev, _e) in visits if ev.kind == 'STORE' and unwrap(ev.lhs).get('k') == 'idx' and estr(unwrap(unwrap(ev.lhs)['b'])) == fbuf]
        ends = any(True for t in _t if t[0] == 'barrier')
        if raises and appends and not any(ev.kind == 'CALL' and ev.callee in ('snprintf', 'memcpy') for (ev, _e) in visits):
            modcases[c] = (start, visits, appends)
    if len(modcases) < 2:
        raise AnalysisBroken('%s: length-modifier cases found: %s' % (d.name, sorted(modcases)))
    # the string use
    suse = None
    visits_s, _t = abstract_run(d, {}, tracked=set(), start=tg['s'], barrier=barrier)
    for (ev, _e) in visits_s:
        if ev.kind in ('STORE', 'DECL', 'CALL'):
            root = ev.d.get('e') if ev.kind == 'CALL' else (ev.rhs if ev.kind == 'STORE' else ev.d.get('init'))
            for n in walk(root or {}):
                if n.get('k') == 'call' and callee_of(n) == 'snprintf' and any(unwrap(a).get('k') == 'addr' and estr(unwrap(unwrap(unwrap(a)['e']).get('b', {}))) == d.params[2]['n'] for a in n['args'][3:]):
                    suse = ev
    if suse is None:
        raise AnalysisBroken('%s: the snprintf of the stored string was not found' % d.name)
    # the rewind: a plain assignment to the fmt cursor from a local M, in the s case before the use
    rew = [ev for (ev, _e) in visits_s if ev.kind == 'STORE' and estr(ev.lhs) == cur and ev.d['op'] == '=' and unwrap(ev.rhs).get('k') == 'var' and d.may_follow(ev, suse)]
    if not rew:
        ctx.check('R8', 'string-printed-with-a-plain-directive', False, suse, '',
                  'the decoder hands the stored string to snprintf with whatever length modifier the format had: "%ls" (a damaged dump, or a message really logged '
                  'that way) makes printf read the bytes as wide characters and search for a wide terminator four bytes at a time, past the end of the record buffer')
        return
    M = unwrap(rew[0].rhs)['n']

    def no_modifier(a, fb):
        # edges that skip the rewind: nothing was recorded (M <= 0) or it lies at/behind the cursor
        l = unwrap(a.l)
        return l.get('k') == 'var' and l['n'] == M and ((a.op in ('<=', '==') and a.rc == 0) or (a.op in ('>=', '>') and a.rs == cur))
    # from the case label the use is reached either through the rewind or over an edge that says no modifier was recorded
    hits, _e, _n = d.search(('block', tg['s']), goal=lambda ev: ev is suse, stop=lambda ev: any(ev is r for r in rew),
                            edge_filter=lambda fb, t, lab: not (fb.cond is not None and lab in (True, False) and cond_cut_any(fb.cond, lab, no_modifier)))
    ctx.check('R8', 'string-printed-with-a-plain-directive', not hits, suse, 'the directive is rewound to the start of its length modifier before the string is printed',
              'the string can be printed with the length modifier still in the directive')
    for c, (start, visits, appends) in sorted(modcases.items()):
        recs = [ev for (ev, _e) in visits if ev.kind == 'STORE' and estr(ev.lhs) == M and estr(unwrap(ev.rhs)) == cur]
        ok = bool(recs) and all(any(d.ev_dominates(r, a) or r.blk != a.blk and d.may_follow(r, a) for r in recs) for a in appends[:1])
        ctx.check('R8', 'modifier-start-recorded:%s' % c, ok, appends[0], 'the %s case records where the length modifier starts before appending it' % c,
                  'the %s case appends a length modifier without recording where it starts: "%%%ss" is printed with the modifier' % (c, c))
    # reset per directive: covered by C14.R4 (no carried state)


def cond_cut_any(cond, lab, pred):
    from engine.qb import cond_cut
    return cond_cut(cond, lab, lambda a: pred(a, None))


def r9(ctx):
    prog = ctx.prog
    f = prog.fn('qb_rb_create_from_file')
    ops = [ev for ev in f.events() if (ev.kind == 'STORE' and ev.rhs is not None and callee_of(unwrap(ev.rhs)) == 'qb_rb_open')]
    if len(ops) != 1:
        raise AnalysisBroken('qb_rb_create_from_file: qb_rb_open sites = %d' % len(ops))
    name = unwrap(unwrap(ops[0].rhs)['args'][0])
    const = name.get('k') in ('str', 'strlit') or (cval(name) is not None) or estr(name).startswith('"')
    uniq = False
    if not const and name.get('k') == 'var':
        fm = [ev for ev in f.calls('snprintf', 'sprintf') if estr(unwrap(ev.args[0])) == name['n'] and f.ev_dominates(ev, ops[0])]
        uniq = any(any(n.get('k') == 'call' and callee_of(n) in ('getpid', 'mkstemp', 'random', 'rand') for a in ev.args for n in walk(a)) for ev in fm)
    ctx.check('R9', 'dump-ring-name-is-not-shared', uniq, ops[0], 'the ring for printing a dump is named after the process',
              'every print of a dump builds its ring under the same name (%s): two printers at the same time meet in each other\'s files - one header goes to the '
              'socket directory and is never unlinked, or the loser leaves its header in /dev/shm' % estr(name))


def r11(ctx):
    prog = ctx.prog
    f = prog.fn('qb_log_priority2str')
    n = 0
    for ev in f.returns():
        if ev.e is None:
            continue
        for nd in walk(ev.e):
            if nd.get('k') != 'idx':
                continue
            ti = prog.type_info(unwrap(nd['b']).get('ty') or '')
            if ti.get('kind') != 'array' or not ti.get('n'):
                continue
            n += 1
            cnt = ti['n']
            ix = unwrap(nd['i'])
            c = cval(ix)
            if c is not None:
                ok, why = 0 <= c < cnt, 'constant index %d' % c
            else:
                nm = estr(ix)
                ok = any(at.ls == nm and at.rc is not None and ((at.op == '<=' and at.rc < cnt) or (at.op == '<' and at.rc <= cnt)) for (at, _e) in f.guards(ev))
                sg = prog.type_info(ix.get('ty') or '').get('signed')
                if sg:
                    ok = ok and any(at.ls == nm and at.rc is not None and ((at.op == '>=' and at.rc >= 0) or (at.op == '>' and at.rc >= -1)) for (at, _e) in f.guards(ev))
                why = 'index %s' % nm
            ctx.check('R11', 'priority2str:index-below-element-count', ok, ev, '%s is below the %d entries of the table' % (why, cnt),
                      '%s is not bounded by the %d entries of the table of priority names: a record whose priority byte is damaged makes the printer read a name '
                      'pointer from behind the table and hand it to printf' % (why, cnt))
    if n < 2:
        raise AnalysisBroken('qb_log_priority2str: %d table accesses found' % n)
