"""C19 - growable array: stable, disjoint, zero-initialised elements."""
from engine.qb import (AnalysisBroken, estr, unwrap, cval, walk, last_field, fields_of, callee_of, mentions_var,
                       atoms_of, lockset)
from rules.common import field_is, has_call, derives, value_sources

UNITS = ['lib/array.c']
DECIDES = ('Decides the lock discipline on the bin table, that element blocks are allocated zeroed, once, and never moved or freed '
           'before qb_array_free, that the index split constants agree, and that range checks precede the bin computation; '
           'interleavings themselves are not explored.')
RULES = {
    'R1': 'every access to bin / num_bins / max_elements outside create/free holds grow_lock (helpers: held at every call site)',
    'R2': 'a table slot gets a non-NULL value only under slot == NULL and only from calloc(MAX_ELEMENTS_PER_BIN, element_size); NULL only for new slots; realloc only on the table; blocks freed only in qb_array_free',
    'R3': 'bin shift, element mask + 1 and calloc count are the same power of two; MAX_BINS * MAX_ELEMENTS_PER_BIN == QB_ARRAY_MAX_ELEMENTS',
    'R4': 'idx < 0 and idx >= max_elements (-ERANGE or grow) are decided before the bin number is computed; grow/create reject > QB_ARRAY_MAX_ELEMENTS',
}
FLOORS = {'R1': 15, 'R2': 6, 'R3': 4, 'R4': 5}

EXEMPT = {'qb_array_create_2': 'object not yet published', 'qb_array_free': 'teardown: documented as single-threaded'}
GUARDED = ('bin', 'num_bins', 'max_elements')
LOCK = 'grow_lock'


def run(ctx):
    prog = ctx.prog
    fns = [f for f in prog.all_fns(files={'lib/array.c'})]
    by = {f.name: f for f in fns}
    # entry locksets of static helpers: intersection over their call sites in non-exempt functions
    entry = {}
    locks = {}
    for f in fns:
        if not f.static:
            locks[f.name] = lockset(f)
    for f in fns:
        if f.static:
            sites = [(g, ev) for (g, ev) in prog.callers_of(f.name) if g.name not in EXEMPT]
            held = None
            for (g, ev) in sites:
                if g.name not in locks:
                    continue
                h = locks[g.name][0].get((ev.blk, ev.idx), frozenset())
                held = h if held is None else held & h
            entry[f.name] = held or frozenset()
            locks[f.name] = lockset(f, entry=entry[f.name])
    n = 0
    for f in fns:
        if f.name in EXEMPT:
            continue
        at = locks[f.name][0]
        for ev in f.events():
            acc = None
            if ev.kind == 'LOAD':
                lf = last_field(ev.e)
                if lf and lf[0] == 'qb_array' and lf[1] in GUARDED:
                    acc = ('load', lf[1])
            elif ev.kind == 'STORE':
                lf = last_field(ev.lhs)
                if lf and lf[0] == 'qb_array' and lf[1] in GUARDED:
                    acc = ('store', lf[1])
            if not acc:
                continue
            n += 1
            held = at.get((ev.blk, ev.idx))
            ctx.check('R1', '%s:%s:%s' % (f.name, acc[0], acc[1]), held is not None and LOCK in held, ev,
                      '%s of %s with %s held' % (acc[0], acc[1], LOCK),
                      '%s of a->%s without %s held (a concurrent grow reallocates the table)' % (acc[0], acc[1], LOCK))
    # lock/unlock balance: no path returns with the lock held / unlocks twice
    for f in fns:
        if f.name in EXEMPT or f.static:
            continue
        at, IN = locks[f.name]
        exit_in = IN.get(f.exit)
        if any(ev.callee in ('qb_thread_lock',) for ev in f.events('CALL')):
            ctx.check('R1', '%s:unlocked-at-exit' % f.name, exit_in is not None and LOCK not in exit_in, f,
                      'no return with %s held on all paths' % LOCK, 'a path may return holding %s' % LOCK)
            # may-held at exit: search for a path from a lock call to exit avoiding unlock
            for lk in f.calls('qb_thread_lock'):
                _h, exits, _n = f.search(('after', lk), stop=lambda ev: ev.kind == 'CALL' and ev.callee == 'qb_thread_unlock')
                ctx.check('R1', '%s:every-lock-released' % f.name, not exits, lk,
                          'every path from this lock to a return unlocks', 'a path returns without unlocking',
                          {'path': f.path_lines(exits[0]) if exits else None})
    r2(ctx, by)
    r3(ctx, by)
    r4(ctx, by)


def _is_bin_slot(e):
    e = unwrap(e)
    return isinstance(e, dict) and e.get('k') == 'idx' and field_is(e['b'], 'bin', 'qb_array')


def r2(ctx, by):
    prog = ctx.prog
    per_bin = None
    for f in by.values():
        for ev in f.events('STORE'):
            if not _is_bin_slot(ev.lhs):
                continue
            r = unwrap(ev.rhs)
            if cval(r) == 0:
                # NULL store: only in the table-growing helper, for indices >= old num_bins
                ok = f.name == '_grow_bin_array'
                if ok:
                    ixv = estr(unwrap(ev.lhs)['i'])
                    ok = False
                    # the index variable starts at a->num_bins
                    defs = [d for d in f.events('STORE') if estr(d.lhs) == ixv and d.d['op'] == '=']
                    ok = bool(defs) and all(field_is(d.rhs, 'num_bins', 'qb_array') for d in defs)
                ctx.check('R2', '%s:null-store-new-slots-only' % f.name, ok, ev, 'NULL stored only into slots at or beyond the old num_bins',
                          'NULL is stored into a table slot that may hold a live block (element addresses change / leak)')
            else:
                if r.get('k') == 'var':
                    # a local that only ever holds the result of one calloc
                    srcs, entry = value_sources(f, r, ev)
                    if len(srcs) == 1 and not entry and callee_of(srcs[0]) == 'calloc':
                        r = srcs[0]
                ok = callee_of(r) == 'calloc'
                if ok:
                    per_bin = cval(unwrap(r['args'][0]))
                    ok = per_bin is not None and field_is(r['args'][1], 'element_size', 'qb_array')
                ctx.check('R2', '%s:block-from-calloc' % f.name, ok, ev, 'block = calloc(%s, element_size): zero-initialised' % per_bin,
                          'a block is installed from %s (not zero-initialised calloc of MAX_ELEMENTS_PER_BIN elements)' % estr(ev.rhs))
                slot = estr(ev.lhs)

                def empty_atom(a, fb, slot=slot):
                    return a.op == '==' and a.rc == 0 and a.ls == slot
                path = f.uncut_path(ev, empty_atom)
                ctx.check('R2', '%s:install-only-into-empty-slot' % f.name, path is None, ev, 'installed only when the slot is NULL',
                          'a block may be installed over an existing one (addresses handed out earlier go stale)')
                # ... and the test and the install are in one critical section: from every "slot is NULL" edge
                # the store is reached without the lock having been dropped
                racy = False
                for b in f.blocks.values():
                    if b.cond is None:
                        continue
                    for (t, lab) in b.succs:
                        if lab in (True, False) and any(empty_atom(a_, b) for a_ in atoms_of(b.cond, lab)):
                            hits, _e, _n = f.search(('edge', b.id, t), goal=lambda x: x.kind == 'CALL' and x.callee == 'qb_thread_unlock',
                                                    stop=lambda x, ev=ev: x is ev)
                            # an unlock reached before the store (search stops at the store)
                            for (u, _p) in hits:
                                if f.may_follow(u, ev):
                                    racy = True
                ctx.check('R2', '%s:test-and-install-under-one-lock-hold' % f.name, not racy, ev,
                          'the slot test and the install happen without releasing grow_lock in between',
                          'grow_lock is released between testing the slot and installing the block: two threads can both install a block for the same slot (address changes, data lost)')
        for ev in f.calls('realloc'):
            ok = field_is(ev.args[0], 'bin', 'qb_array') and not _is_bin_slot(ev.args[0])
            ctx.check('R2', '%s:realloc-table-only' % f.name, ok, ev, 'realloc applied to the pointer table only',
                      'realloc applied to %s: element blocks may move' % estr(ev.args[0]))
            # the result goes back into a->bin and the size is in pointers
            szok = any(n.get('k') == 'sizeof' and cval(n) == 8 for n in walk(ev.args[1]))
            ctx.check('R2', '%s:realloc-size-in-pointers' % f.name, szok, ev, 'table size = sizeof(void*) * n', 'table size is %s' % estr(ev.args[1]))
        for ev in f.calls('free'):
            if _is_bin_slot(ev.args[0]):
                ctx.check('R2', '%s:block-free' % f.name, f.name == 'qb_array_free', ev, 'blocks are freed only in qb_array_free',
                          'an element block is freed in %s while the array lives' % f.name)
    _new_slots_all_null(ctx, by)
    if per_bin is None and not any(r['rule'] == 'R2' and r['key'].endswith('block-from-calloc') for r in ctx.results):
        raise AnalysisBroken('array.c: no block allocation found')
    ctx._c19_per_bin = per_bin


def _new_slots_all_null(ctx, by):
    """realloc does not clear what it adds: every slot from the old num_bins up to the new size is set to NULL before the new size is
    published - by a loop over exactly that range in steps of one, or by a memset whose length is counted in pointers"""
    g = by.get('_grow_bin_array')
    if g is None:
        raise AnalysisBroken('array.c: _grow_bin_array not found')
    newp = g.params[1]['n']
    pub = [ev for ev in g.stores(field='num_bins', rec='qb_array')]
    if not pub:
        raise AnalysisBroken('_grow_bin_array: the new table size is not stored')
    nulls = [ev for ev in g.events('STORE') if _is_bin_slot(ev.lhs) and cval(unwrap(ev.rhs)) == 0]
    ok, how = False, 'nothing sets the added slots to NULL'
    for ev in nulls:
        ixv = estr(unwrap(ev.lhs)['i'])
        heads = [b for b in g.blocks.values() if b.cond is not None and
                 any(a.ls == ixv and a.op == '<' and estr(a.r) == newp for a in atoms_of(b.cond, True))]
        steps = [d for d in g.events('STORE') if estr(d.lhs) == ixv and d.d['op'] != '=']
        unit = bool(steps) and all(d.d['op'] == '++' or (d.d['op'] == '+=' and cval(unwrap(d.rhs)) == 1) for d in steps)
        before = all(g.may_follow(ev, p) for p in pub)
        if heads and unit and before:
            ok, how = True, 'loop over [num_bins, %s) in steps of one' % newp
        elif not heads:
            how = 'the loop that clears the added slots does not run up to %s' % newp
        elif not unit:
            how = 'the loop that clears the added slots does not visit every slot'
    for ev in g.calls('memset'):
        dst = unwrap(ev.args[0])
        at_old_end = dst.get('k') == 'addr' and _is_bin_slot(dst['e']) and field_is(unwrap(dst['e'])['i'], 'num_bins', 'qb_array')
        ln = unwrap(ev.args[2])
        in_ptrs = ln.get('k') == 'bin' and ln['op'] == '*' and any(
            n.get('k') == 'sizeof' and cval(n) == 8 for side in (ln['l'], ln['r']) for n in walk(side))
        span = any(n.get('k') == 'bin' and n['op'] == '-' and estr(n['l']) == newp and field_is(n['r'], 'num_bins', 'qb_array') for n in walk(ln))
        if at_old_end and cval(unwrap(ev.args[1])) == 0 and in_ptrs and span and all(g.may_follow(ev, p) for p in pub):
            ok, how = True, 'memset of (%s - num_bins) pointers from the old end' % newp
        elif not ok:
            how = 'memset(%s, %s, %s) does not cover (%s - num_bins) * sizeof(void *) bytes from the old end of the table' % (
                estr(ev.args[0]), estr(ev.args[1]), estr(ev.args[2]), newp)
    ctx.check('R2', '_grow_bin_array:added-slots-all-null', ok, pub[0], 'every added table slot is NULL before the new size is stored (%s)' % how,
              '%s: a slot realloc left uninitialised is taken for an installed block (an element address that was never allocated; not zero, not disjoint)' % how)


def r3(ctx, by):
    prog = ctx.prog
    f = by['qb_array_index']
    idxp = f.params[1]['n']
    from engine.qb import unwrap as _u
    shifts = [n for ev in f.events() for t in (ev.rhs, ev.d.get('init')) if t for n in walk(t)
              if n.get('k') == 'bin' and n['op'] == '>>' and mentions_var(n['l'], idxp)]
    allmasks = [n for ev in f.events() for t in (ev.rhs, ev.d.get('init')) if t for n in walk(t)
                if n.get('k') == 'bin' and n['op'] == '&' and mentions_var(n['l'], idxp)]
    # the element mask is applied to the index itself; a mask applied to the shifted index would fold out-of-range bin numbers
    # onto valid ones (an index the range checks let through by mistake would then alias another element instead of failing)
    masks = [n for n in allmasks if unwrap(n['l']).get('k') == 'var']
    folded = [n for n in allmasks if any(x.get('k') == 'bin' and x['op'] == '>>' for x in walk(n['l']))]
    ctx.check('R3', 'bin-number-not-folded', not folded, f, 'the bin number is the plain shifted index',
              'the bin number is masked (%s): an out-of-range index aliases the element of a valid index instead of being caught' % (estr(folded[0]) if folded else ''))
    if len(shifts) != 1 or len(masks) != 1:
        raise AnalysisBroken('qb_array_index: bin shift / element mask not found (%d/%d)' % (len(shifts), len(masks)))
    sh = cval(unwrap(shifts[0]['r']))
    mk = cval(unwrap(masks[0]['r']))
    per_bin = ctx._c19_per_bin or 0
    ctx.check('R3', 'shift-mask-count-agree', sh is not None and mk is not None and (1 << sh) == mk + 1 == per_bin, f,
              'idx >> %s, idx & %s, blocks of %s elements' % (sh, mk, per_bin),
              'index split is inconsistent: shift %s, mask %s, block elements %s (two indices share an element or run off a block)' % (sh, mk, per_bin))
    # element address = bin + element_size * elem
    outs = [ev for ev in f.events('STORE') if unwrap(ev.lhs).get('k') == 'deref' and estr(unwrap(ev.lhs)['e']) == f.params[2]['n']]
    ok = bool(outs) and all(any(n.get('k') == 'bin' and n['op'] == '*' and field_is(n['l'], 'element_size') or
                                n.get('k') == 'bin' and n['op'] == '*' and field_is(n['r'], 'element_size') for n in walk(ev.rhs)) for ev in outs)
    ctx.check('R3', 'element-stride', ok, outs[0] if outs else f, 'element address = block + element_size * elem',
              'element address is not block + element_size * elem')
    # MAX_BINS * per_bin == QB_ARRAY_MAX_ELEMENTS
    cr = by['qb_array_create_2']
    mx = None
    for b in cr.blocks.values():
        if b.cond is not None:
            for a in atoms_of(b.cond, True):
                if a.ls == cr.params[0]['n'] and a.op == '>' and a.rc is not None:
                    mx = a.rc
    bins = None
    for b in f.blocks.values():
        if b.cond is not None:
            for a in atoms_of(b.cond, True):
                if a.op == '<' and a.rc is not None and any(n.get('mn') == 'MAX_BINS' for n in walk(a.r)):
                    bins = a.rc
    ctx.check('R3', 'bins-times-elems', mx is not None and bins is not None and bins * per_bin == mx, cr,
              'MAX_BINS(%s) * %s == QB_ARRAY_MAX_ELEMENTS(%s)' % (bins, per_bin, mx),
              'MAX_BINS(%s) * %s != QB_ARRAY_MAX_ELEMENTS(%s)' % (bins, per_bin, mx))
    gr = by['qb_array_grow']
    gmx = None
    for b in gr.blocks.values():
        if b.cond is not None:
            for a in atoms_of(b.cond, True):
                if a.ls == gr.params[1]['n'] and a.op == '>' and a.rc is not None:
                    gmx = a.rc
    ctx.check('R3', 'grow-same-limit', gmx == mx, gr, 'grow rejects > %s like create' % mx, 'grow limit %s differs from create limit %s' % (gmx, mx))


def r4(ctx, by):
    f = by['qb_array_index']
    idxp = f.params[1]['n']
    # the store that computes the bin number
    bs = [ev for ev in f.events('STORE') if ev.rhs is not None and any(n.get('k') == 'bin' and n['op'] == '>>' and mentions_var(n['l'], idxp) for n in walk(ev.rhs))]
    if len(bs) != 1:
        raise AnalysisBroken('qb_array_index: bin computation not found')
    b = bs[0]

    def nonneg(a, fb):
        return a.ls == idxp and ((a.op == '>=' and a.rc == 0) or (a.op == '>' and a.rc == -1))
    path = f.uncut_path(b, nonneg)
    ctx.check('R4', 'idx>=0-before-bin', path is None, b, 'idx >= 0 is established before the bin number is computed',
              'a negative index reaches the bin computation')

    def in_range_or_grown(a, fb):
        if a.op == '<' and mentions_var(a.l, idxp) and field_is(a.r, 'max_elements'):
            return True
        # rc == 0 after qb_array_grow
        if a.op == '==' and a.rc == 0 and unwrap(a.l).get('k') == 'var':
            defs, entry = f.reaching_defs(unwrap(a.l)['n'], f.end_of(fb.id))
            return any(d.kind == 'STORE' and callee_of(unwrap(d.rhs)) == 'qb_array_grow' for d in defs)
        return False
    path = f.uncut_path(b, in_range_or_grown)
    ctx.check('R4', 'idx<max-or-grown-before-bin', path is None, b,
              'idx < max_elements, or a successful grow, is established before the bin number is computed',
              'an index beyond max_elements reaches the bin computation without a successful grow')
    # the no-autogrow edge returns -ERANGE
    ok = False
    for blk in f.blocks.values():
        if blk.cond is None:
            continue
        for (t, lab) in blk.succs:
            if lab in (True, False) and any(a.op == '==' and a.rc == 0 and field_is(a.l, 'autogrow_elements') for a in atoms_of(blk.cond, lab)):
                rets, _e, _n = f.search(('edge', blk.id, t), goal=lambda ev: ev.kind == 'RETURN')
                ok = bool(rets) and all(cval(unwrap(ev.e)) == -34 for (ev, _p) in rets)
    ctx.check('R4', 'no-autogrow-returns-ERANGE', ok, f, 'beyond the size without auto-grow returns -ERANGE', 'beyond the size without auto-grow does not return -ERANGE')
    # an index below the limit never asks for more than the limit: the auto-grow request is what the index needs (idx + 1), or is
    # cut to the limit
    ags = [ev for ev in f.events('CALL') if ev.callee == 'qb_array_grow'] + \
          [ev for ev in f.events('STORE') if ev.rhs is not None and callee_of(unwrap(ev.rhs)) == 'qb_array_grow']
    reqs = []
    for ev in ags:
        call = unwrap(ev.rhs) if ev.kind == 'STORE' else ev.e
        if isinstance(call, dict) and call.get('args') and not any(estr(unwrap(call['args'][1])) == estr(r_) for (_e, r_) in reqs):
            reqs.append((ev, unwrap(call['args'][1])))
    if not reqs:
        raise AnalysisBroken('qb_array_index: no auto-grow request')
    for ev, rq in reqs:
        exact = rq.get('k') == 'bin' and rq['op'] == '+' and ((estr(rq['l']) == idxp and cval(unwrap(rq['r'])) == 1) or (estr(rq['r']) == idxp and cval(unwrap(rq['l'])) == 1))
        cut = rq.get('k') == 'cond' and any(cval(unwrap(x)) == prog_max(ctx) for x in (rq['t'], rq['f']))
        ctx.check('R4', 'autogrow-asks-for-what-the-index-needs', exact or cut, ev,
                  'auto-grow asks for idx + 1 elements' if exact else 'the auto-grow request is cut to the limit',
                  'auto-grow asks for %s elements: for an index just below the limit that can exceed QB_ARRAY_MAX_ELEMENTS, the grow is refused and an index inside the range fails for good' % estr(rq))
        if cut and not exact:
            # a request that is cut to the limit succeeds for an index beyond the limit too: "the grow succeeded" then says
            # nothing about the index, which has to be compared with the limit (or with the new size) itself
            mx = prog_max(ctx)

            def below_limit(a, fb, mx=mx):
                return a.op == '<' and mentions_var(a.l, idxp) and (field_is(a.r, 'max_elements') or a.rc == mx)
            path = f.uncut_path(b, below_limit)
            ctx.check('R4', 'cut-request-needs-index-below-limit', path is None, ev,
                      'the request is cut to the limit and the index is compared with the limit before the bin number is computed',
                      'the auto-grow request is cut to QB_ARRAY_MAX_ELEMENTS, so it succeeds for an index at or beyond the limit as well, '
                      'and nothing compares the index with the limit afterwards: the bin number is computed for an index outside [0, %d)' % mx,
                      {'path': f.path_lines(path) if path else None})
    gr = by['qb_array_grow']
    sts = list(gr.stores(field='max_elements', rec='qb_array'))

    def within(a, fb):
        return a.ls == gr.params[1]['n'] and a.op == '<=' and a.rc is not None
    ok = bool(sts) and all(gr.uncut_path(st, within) is None for st in sts)
    ctx.check('R4', 'grow-limit-before-store', ok, sts[0] if sts else gr, 'max_elements is raised only after the upper limit was checked',
              'max_elements can be raised beyond QB_ARRAY_MAX_ELEMENTS')
    # grow only raises
    def raises(a, fb):
        return a.ls == gr.params[1]['n'] and a.op == '>' and field_is(a.r, 'max_elements')
    ok = bool(sts) and all(gr.uncut_path(st, raises) is None for st in sts)
    ctx.check('R4', 'grow-never-shrinks', ok, sts[0] if sts else gr, 'max_elements only grows', 'qb_array_grow can lower max_elements')


def prog_max(ctx):
    """QB_ARRAY_MAX_ELEMENTS as the grow function compares it"""
    gr = ctx.prog.fn('qb_array_grow')
    for b in gr.blocks.values():
        if b.cond is None:
            continue
        for lab in (True, False):
            for a in atoms_of(b.cond, lab):
                if a.ls == gr.params[1]['n'] and a.op in ('>', '<=') and a.rc is not None:
                    return a.rc
    return None
