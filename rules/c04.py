"""C04 - IPC server callback order accept, created, msg*, closed, destroyed; no use-after-free."""
from engine.qb import (AnalysisBroken, abstract_run, estr, unwrap, cval, walk, last_field, fields_of, callee_of, cond_cut,
                       mentions_var, atoms_of, root_var, TOP)
from rules.common import slot_call, field_is, has_call, derives, dec_and_test_atom, refcount_op, value_sources

UNITS = ['lib/ipcs.c', 'lib/ipc_setup.c', 'lib/ipc_shm.c', 'lib/ipc_socket.c']
DECIDES = ('Decides that each service callback has one call site guarded by the right connection state (finite evaluation of '
           'handle_new_connection and qb_ipcs_disconnect over the four states and over refusal/failure results), that destroyed runs '
           'last inside the final unref, that every library function which may drop the last reference and then touches the '
           'connection holds its own reference (reference-delta dataflow), and the service reference pairing; arbitrary histories '
           'of application-held references are not decided.')
RULES = {
    'R1': 'one call site per service callback; created needs accept == 0 and transport connect == 0; ESTABLISHED only from ACTIVE after created; SHUTTING_DOWN only from ESTABLISHED; closed only in SHUTTING_DOWN (qb_ipcs_disconnect evaluated per state)',
    'R2': 'the final unref in qb_ipcs_disconnect is skipped exactly when closed returned non-zero and the re-run job was accepted',
    'R3': 'connection_unref: list removal, destroyed, transport disconnect, service unref, free - all under dec_and_test, in that order, nothing touches c after free(c)',
    'R4': 'reference brackets: after a call that may release the connection (user callback, qb_ipcs_disconnect, unref, and functions that reach them) the function only touches the connection while holding its own reference; balanced at every exit',
    'R5': 'qb_ipcs_connection_first_get/next_get reference the connection they return',
    'R6': 'connection_alloc and the pending-auth record take a service reference; qb_ipcs_unref frees only under dec_and_test; its callers are the owners',
    'R7': 'a connection is shut down once: a second qb_ipcs_disconnect - from inside connection_closed, after it was accepted, while its re-run is queued - calls no callback, queues no job and drops no reference (qb_ipcs_disconnect re-evaluated from every state a first call leaves); the queued re-run does get connection_closed called again',
    'R8': 'qb_ipcs_destroy walks the connections by references (first_get/next_get), takes the next one before disconnecting the current one and drops its reference afterwards',
    'R9': 'a connection whose transport was taken down is not handed to the transport again: every send, sendv, fc_set, q_len_get and dispatch_mod reachable from a public function of ipcs.c is behind a test that the connection is ESTABLISHED or ACTIVE (exemptions: the teardown itself and the poll callback, with reasons)',
    'R10': 'connection_destroyed is called under a guard reference, so that a reference taken and dropped inside it does not destroy the connection a second time',
    'R11': 'what can fault comes last under the SIGBUS guard: in the transport disconnect that sets a jump target for SIGBUS, for every connection state, no deregistration or close of the connection\'s descriptor follows a ring close in the same call (a ring file the client truncated makes the close jump to the end: the descriptor would stay in the main loop, dispatching to a connection that is then destroyed)',
    'R12': 'a registration that fails half-way takes the first half back: where a transport registers two descriptors of a connection with the main loop, the failure of the second registration is followed by dispatch_del of the first on every path - the connection is freed right after, and the main loop would keep a (closed) descriptor that dispatches to it',
    'R13': 'no request after closed: in the dispatcher\'s batch loop the next request is taken only after the connection was seen to be still ESTABLISHED - msg_process may have disconnected it (connection_closed has then run; on shared memory the request ring stays readable while the dispatcher holds its reference, so the queued requests of the batch would still be delivered)',
    'R14': 'nothing of a connection is released twice: the transport disconnects, evaluated per connection state and composed along ACTIVE -> INACTIVE and ESTABLISHED -> SHUTTING_DOWN, release every resource of the matching connect exactly once, and nothing in state INACTIVE (= C03.R2) - a second munmap of the control page of a connection the application still references hits the page of a later connection',
}
FLOORS = {'R14': 10, 'R13': 1, 'R12': 1, 'R11': 4, 'R1': 24, 'R2': 4, 'R3': 9, 'R4': 8, 'R5': 2, 'R6': 5, 'R7': 6, 'R8': 3, 'R9': 6, 'R10': 1}

CB = ('connection_accept', 'connection_created', 'msg_process', 'connection_closed', 'connection_destroyed')
SLOT = 'qb_ipcs_service_handlers::%s'


def run(ctx):
    prog = ctx.prog
    st = prog.enum('qb_ipcs_connection_state')
    r1(ctx, st)
    r2(ctx, st)
    r3(ctx)
    r4(ctx)
    r5(ctx)
    r6(ctx)
    r7(ctx, st)
    r8(ctx)
    r9(ctx, st)
    r10(ctx)
    r11(ctx, st)
    r12(ctx)
    r13(ctx, st)
    # R14 = C03.R2: the transport of a connection is taken down once - what a disconnect in one state has released is not released
    # again by the call that follows in the next state (the final unref calls the transport disconnect a second time)
    from rules import c03
    sub = type(ctx)(ctx.prog, ctx.prop, ctx.tier, ctx.depth)
    c03.r2(sub)
    for r in sub.results:
        r['rule'] = 'R14'
        ctx.results.append(r)


def r1(ctx, st):
    prog = ctx.prog
    INACTIVE, ACTIVE, EST, SHUT = (st['QB_IPCS_CONNECTION_INACTIVE'], st['QB_IPCS_CONNECTION_ACTIVE'],
                                   st['QB_IPCS_CONNECTION_ESTABLISHED'], st['QB_IPCS_CONNECTION_SHUTTING_DOWN'])
    sites = {}
    for cb in CB:
        cs = prog.callers().get(SLOT % cb, [])
        sites[cb] = cs
        ctx.check('R1', 'single-site:%s' % cb, len(cs) == 1, cs[0][1] if cs else None, '%s is invoked at exactly one site' % cb,
                  '%s is invoked at %d sites' % (cb, len(cs)))
    want_fn = {'connection_accept': 'handle_new_connection', 'connection_created': 'handle_new_connection', 'msg_process': '_process_request_',
               'connection_closed': 'qb_ipcs_disconnect', 'connection_destroyed': 'qb_ipcs_connection_unref'}
    for cb, fn in want_fn.items():
        if sites[cb] and sites[cb][0][0].name != fn:
            ctx.inconclusive('R1', 'site-owner:%s' % cb, sites[cb][0][1], '%s moved to %s (rule table needs confirming)' % (cb, sites[cb][0][0].name))
    h = prog.fn('handle_new_connection')
    acc = [ev for ev in h.events('STORE') if ev.rhs is not None and callee_of(unwrap(ev.rhs)) == SLOT % 'connection_accept']
    con = [ev for ev in h.events('STORE') if ev.rhs is not None and callee_of(unwrap(ev.rhs)) == 'qb_ipcs_funcs::connect']
    if len(acc) != 1 or len(con) != 1:
        raise AnalysisBroken('handle_new_connection: accept result stores=%d connect result stores=%d' % (len(acc), len(con)))
    resv = estr(acc[0].lhs)
    authp = h.params[1]['n']

    def simulate(refuse_at, value):
        def eff(ev, env):
            if ev.d is refuse_at.d:
                return {resv: value, '#skip': True}
            if ev.kind == 'STORE' and estr(ev.lhs) == resv and ev.rhs is not None and unwrap(ev.rhs).get('k') == 'call' and ev.d is not refuse_at.d and \
                    ev.d in (acc[0].d, con[0].d):
                return {resv: 0, '#skip': True}
            return None
        visits, terms = abstract_run(h, {authp: 0, resv: 0}, tracked={authp, resv}, effect=eff)
        after = False
        seen = []
        for (ev, env) in visits:
            seen.append(ev)
        return visits
    for (what, at, val) in (('accept-refused', acc[0], -13), ('connect-failed', con[0], -13), ('connect-failed-EAGAIN', con[0], -11), ('accept-refused-EAGAIN', acc[0], -11)):
        visits = simulate(at, val)
        # events visited in states where the refusal has happened: env[resv] == -13 at some earlier point; approximate by
        # collecting events visited with resv == -13 or after it (states are per (block, env) so filter by env)
        ref_events = [(ev, env) for (ev, env) in visits if env.get(resv) == val]
        calls = {ev.callee for (ev, env) in ref_events if ev.kind == 'CALL'}
        stores = [(ev, env) for (ev, env) in ref_events if ev.kind == 'STORE' and field_is(ev.lhs, 'state', 'qb_ipcs_connection')]
        ctx.check('R1', '%s:no-created' % what, SLOT % 'connection_created' not in calls, at,
                  'connection_created is unreachable once %s' % what.replace('-', ' '),
                  'connection_created can run although %s' % what.replace('-', ' '))
        if what.startswith('accept-refused'):
            ctx.check('R1', 'accept-refused:no-transport-connect', 'qb_ipcs_funcs::connect' not in calls, at,
                      'no channel is created for a refused peer', 'the transport connect runs although the accept callback refused')
        ctx.check('R1', '%s:never-established' % what, not any(cval(unwrap(ev.rhs)) in (ACTIVE, EST) for (ev, env) in stores), at,
                  'a failed setup never becomes ACTIVE/ESTABLISHED', 'a failed setup is marked ACTIVE/ESTABLISHED')
        ctx.check('R1', '%s:released' % what, 'qb_ipcs_connection_unref' in calls or 'qb_ipcs_disconnect' in calls, at,
                  'the allocation reference is dropped on the failure path', 'the connection object leaks on the failure path')
        ctx.check('R1', '%s:error-response' % what, 'qb_ipc_us_send' in calls, at, 'the client is told the error', 'no response is sent on the failure path')
    # state stores
    for f in prog.all_fns(files={'lib/ipcs.c', 'lib/ipc_setup.c', 'lib/ipc_shm.c', 'lib/ipc_socket.c'}):
        for ev in f.stores(field='state', rec='qb_ipcs_connection'):
            v = cval(unwrap(ev.rhs))
            if v == EST:
                def from_active(a, fb):
                    return a.op == '==' and a.rc == ACTIVE and field_is(a.l, 'state', 'qb_ipcs_connection')
                created = [c for c in f.events('CALL') if c.callee == SLOT % 'connection_created']
                ok = f.name == 'handle_new_connection' and f.uncut_path(ev, from_active) is None and \
                    all(not f.may_follow(ev, c) for c in created) and bool(created)
                ctx.check('R1', 'ESTABLISHED-from-ACTIVE-after-created', ok, ev, 'ESTABLISHED is stored only after created, from ACTIVE',
                          'ESTABLISHED is stored before created / not from ACTIVE (a connection disconnected inside created would be revived)')
            elif v == SHUT:
                def from_est(a, fb):
                    return a.op == '==' and a.rc == EST and field_is(a.l, 'state', 'qb_ipcs_connection')
                ctx.check('R1', 'SHUTTING_DOWN-from-ESTABLISHED', f.name == 'qb_ipcs_disconnect' and f.uncut_path(ev, from_est) is None, ev,
                          'SHUTTING_DOWN is stored only from ESTABLISHED', 'SHUTTING_DOWN can be stored for a connection that was never ESTABLISHED (closed without created)')
            elif v == ACTIVE:
                zero = lambda a, fb: a.ls == resv and a.op == '==' and a.rc == 0
                ctx.check('R1', 'ACTIVE-after-connect', f.name == 'handle_new_connection' and all(f.may_follow(c, ev) and not f.may_follow(ev, c) for c in con) and
                          f.uncut_path(ev, zero, also_stop=lambda x: any(x.d is c.d for c in con)) is None and
                          all(f.uncut_path(ev, zero, start=('after', c)) is None for c in con), ev,
                          'ACTIVE is stored only after a successful transport connect', 'ACTIVE stored without a successful connect')
    # qb_ipcs_disconnect per state
    d = prog.fn('qb_ipcs_disconnect')
    cv = d.params[0]['n']
    sv = '%s->state' % cv
    for name, val in st.items():
        short = name.replace('QB_IPCS_CONNECTION_', '')
        visits, terms = abstract_run(d, {sv: val}, tracked={sv})
        calls = [ev.callee for (ev, env) in visits if ev.kind == 'CALL']
        closed = SLOT % 'connection_closed' in calls
        tdisc = calls.count('qb_ipcs_funcs::disconnect')
        unref = 'qb_ipcs_connection_unref' in calls
        if short in ('ACTIVE', 'ESTABLISHED'):
            # the transport's disconnect decides by the state what there is to release: it is called while the state is still the one
            # the connection was in (for INACTIVE it releases nothing but the directory)
            seen = [env.get(sv) for (ev, env) in visits if ev.kind == 'CALL' and ev.callee == 'qb_ipcs_funcs::disconnect']
            ctx.check('R1', 'disconnect:%s-transport-sees-the-state' % short, bool(seen) and all(x == val for x in seen), d,
                      'the transport disconnect runs while the state is still %s' % short,
                      'the transport disconnect is called after the state was changed (it sees %s): it releases what belongs to that state, not the sockets, dispatch '
                      'entries and rings of a %s connection - they are never released' % (sorted({str(x) for x in seen}), short))
        if short == 'INACTIVE':
            ctx.check('R1', 'disconnect:INACTIVE-no-effect', not closed and not tdisc and not unref, d, 'disconnecting an INACTIVE connection does nothing',
                      'disconnecting an INACTIVE connection has effects (double teardown)')
        elif short == 'ACTIVE':
            ctx.check('R1', 'disconnect:ACTIVE-no-closed', not closed and tdisc == 1 and unref, d,
                      'a connection that was never reported created is torn down without the closed callback',
                      'closed callback invoked for a connection whose created callback never ran / teardown incomplete')
        elif short == 'ESTABLISHED':
            ctx.check('R1', 'disconnect:ESTABLISHED-closed', closed and tdisc == 1, d, 'ESTABLISHED: transport disconnect once, then closed',
                      'ESTABLISHED: closed not invoked or transport disconnect %d times' % tdisc)
        elif short == 'SHUTTING_DOWN':
            ctx.check('R1', 'disconnect:SHUTTING_DOWN-retry', closed and tdisc == 0, d, 'a retry only re-runs closed',
                      'the closed retry repeats the transport disconnect / skips closed')


def r2(ctx, st):
    prog = ctx.prog
    d = prog.fn('qb_ipcs_disconnect')
    SHUT = st['QB_IPCS_CONNECTION_SHUTTING_DOWN']
    sv = '%s->state' % d.params[0]['n']
    closed_st = [ev for ev in d.events('STORE') if ev.rhs is not None and callee_of(unwrap(ev.rhs)) == SLOT % 'connection_closed']
    job_st = [ev for ev in d.events('STORE') if ev.rhs is not None and callee_of(unwrap(ev.rhs)) == 'qb_ipcs_poll_handlers::job_add']
    if len(closed_st) != 1 or len(job_st) != 1:
        raise AnalysisBroken('qb_ipcs_disconnect: closed result stores=%d job_add result stores=%d' % (len(closed_st), len(job_st)))
    resv = estr(closed_st[0].lhs)
    flags = {estr(ev.lhs) for ev in d.events('STORE') if unwrap(ev.lhs).get('k') == 'var' and cval(unwrap(ev.rhs)) in (0, 1)} | \
            {ev.d['var'] for ev in d.events('DECL') if 'init' in ev.d and cval(unwrap(ev.d['init'])) in (0, 1)}
    for (name, closed_res, job_res, want_unref, want_job) in (('closed-ok', 0, 0, True, False), ('closed-again+job-accepted', 1, 0, False, True),
                                                               ('closed-again+job-refused', 1, -12, True, True),
                                                               ('closed-again+no-job_add', 1, 0, True, False)):
        def eff(ev, env, closed_res=closed_res, job_res=job_res):
            if ev.d is closed_st[0].d:
                return {resv: closed_res, '#skip': True}
            if ev.d is job_st[0].d:
                return {estr(job_st[0].lhs): job_res, '#skip': True}
            return None
        slot = None
        for b in d.blocks.values():
            if b.cond is not None and field_is(b.cond, 'connection_closed'):
                slot = estr(b.cond)
        init = {sv: SHUT}
        if slot:
            init[slot] = 1      # a closed callback is installed
        jslots = _slot_tests(d, 'job_add')
        for js in jslots:
            init[js] = 0 if name == 'closed-again+no-job_add' else 1
        for fl in _const_fields(d):
            init.setdefault(fl, 0)      # a connection nobody has disconnected yet (calloc)
        visits, _t = abstract_run(d, init, tracked={sv, resv, estr(job_st[0].lhs)} | flags | ({slot} if slot else set()) | set(jslots) | set(_const_fields(d)), effect=eff)
        calls = [ev.callee for (ev, env) in visits if ev.kind == 'CALL']
        unref = 'qb_ipcs_connection_unref' in calls
        job = 'qb_ipcs_poll_handlers::job_add' in calls
        if name == 'closed-again+no-job_add' and not jslots:
            ctx.check('R2', name, False, job_st[0], '', 'connection_closed returned non-zero and job_add is called without a test that the handler is installed '
                      '(qbipcs.h allows a NULL job_add): call through NULL')
            continue
        ctx.check('R2', name, unref == want_unref and job == want_job, d,
                  '%s: final unref %s, retry job %s' % (name, 'runs' if want_unref else 'is held back', 'scheduled' if want_job else 'not scheduled'),
                  '%s: final unref %s, retry job %s (expected unref=%s job=%s): %s' % (
                      name, unref, job, want_unref, want_job,
                      'the connection is freed while a retry job still points at it' if unref and not want_unref else 'the connection is never destroyed'))


def _slot_tests(f, field):
    """expressions of the handler slot `field` that are tested in f (as a condition or part of one)"""
    out = set()
    for b in f.blocks.values():
        if b.cond is None:
            continue
        for n in walk(b.cond):
            if n.get('k') == 'mem' and n.get('f') == field:
                out.add(estr(n))
    return sorted(out)


def _const_fields(f):
    """fields of the connection (other than state) that f stores constants to: its shutdown bookkeeping"""
    out = set()
    for ev in f.events('STORE'):
        lf = last_field(ev.lhs)
        if lf is not None and lf[0] == 'qb_ipcs_connection' and lf[1] not in ('state',) and ev.d['op'] == '=' and cval(unwrap(ev.rhs)) is not None:
            out.add(estr(ev.lhs))
    return sorted(out)


def r7(ctx, st):
    """a connection is shut down once: whatever state a first qb_ipcs_disconnect leaves the connection in - while its closed
    callback runs, after it was accepted, while its re-run is queued - a second qb_ipcs_disconnect (from the callback, from
    qb_ipcs_destroy, from whoever still holds a reference) calls no callback, queues no job and drops no reference; only the queued
    re-run gets connection_closed called again"""
    prog = ctx.prog
    d = prog.fn('qb_ipcs_disconnect')
    cv = d.params[0]['n']
    sv = '%s->state' % cv
    closed_st = [ev for ev in d.events('STORE') if ev.rhs is not None and callee_of(unwrap(ev.rhs)) == SLOT % 'connection_closed']
    job_st = [ev for ev in d.events('STORE') if ev.rhs is not None and callee_of(unwrap(ev.rhs)) == 'qb_ipcs_poll_handlers::job_add']
    if len(closed_st) != 1 or len(job_st) != 1:
        raise AnalysisBroken('qb_ipcs_disconnect: closed result stores=%d job_add result stores=%d' % (len(closed_st), len(job_st)))
    resv, jobv = estr(closed_st[0].lhs), estr(job_st[0].lhs)
    flags = {estr(ev.lhs) for ev in d.events('STORE') if unwrap(ev.lhs).get('k') == 'var' and cval(unwrap(ev.rhs)) in (0, 1)} | \
            {ev.d['var'] for ev in d.events('DECL') if 'init' in ev.d and cval(unwrap(ev.d['init'])) in (0, 1)}
    book = _const_fields(d)
    slots = _slot_tests(d, 'connection_closed') + _slot_tests(d, 'job_add')
    tracked = {sv, resv, jobv, cv} | flags | set(book) | set(slots)

    def run(env0, closed_res, job_res):
        def eff(ev, env):
            if ev.d is closed_st[0].d:
                return {resv: closed_res, '#skip': True}
            if ev.d is job_st[0].d:
                return {jobv: job_res, '#skip': True}
            return None
        env = dict(env0)
        for sl in slots:
            env[sl] = 1
        env[cv] = 1     # a connection, not NULL
        return abstract_run(d, env, tracked=tracked, effect=eff)

    def persistent(env):
        return {k: v for k, v in env.items() if k == sv or k in book}

    def effects(visits):
        return sorted({ev.callee for (ev, _env) in visits if ev.kind == 'CALL' and ev.callee in (
            SLOT % 'connection_closed', 'qb_ipcs_connection_unref', 'qb_ipcs_poll_handlers::job_add')})
    first = {sv: st['QB_IPCS_CONNECTION_ESTABLISHED']}
    for fl in book:
        first[fl] = 0
    n = 0
    for (cname, closed_res, job_res) in (('accepted', 0, 0), ('refused, re-run queued', 1, 0), ('refused, job refused', 1, -12)):
        visits, terms = run(first, closed_res, job_res)
        inside = [persistent(env) for (ev, env) in visits if ev.d is closed_st[0].d]
        after = [persistent(env) for (kind, env, *_r) in [t if len(t) >= 2 else (t[0], {}) for t in terms] if kind == 'exit']
        if not inside or not after:
            raise AnalysisBroken('qb_ipcs_disconnect: first shutdown not understood (%s)' % cname)
        for (when, envs) in (('from inside connection_closed', inside), ('after the first one returned (%s)' % cname, after)):
            seen = []
            for e in envs:
                if e in seen:
                    continue
                seen.append(e)
                v2, _t2 = run(e, 0, 0)
                eff2 = effects(v2)
                n += 1
                ctx.check('R7', 'second-disconnect-does-nothing:%s:%s' % (cname, when.split(' (')[0].replace(' ', '-')), not eff2, d,
                          'a second qb_ipcs_disconnect %s finds nothing to do' % when,
                          'a second qb_ipcs_disconnect %s (connection left as %s) calls %s again: connection_closed runs twice / the initial '
                          'reference is dropped twice (use after free in the queued re-run, in qb_ipcs_destroy, or in the holder of a reference)' % (
                              when, ', '.join('%s=%s' % (k.split('->')[-1], v) for k, v in sorted(e.items())), ' and '.join(x.split('::')[-1] for x in eff2)))
        if closed_res == 1 and job_res == 0:
            # the queued job must get connection_closed called again
            jf = unwrap(unwrap(job_st[0].rhs)['args'][2])
            while jf.get('k') == 'cast':
                jf = unwrap(jf['e'])
            jname = jf.get('n') if jf.get('k') in ('fn', 'ref', 'var') else None
            if jname is None or not prog.has_fn(jname):
                raise AnalysisBroken('qb_ipcs_disconnect: re-run job function not understood: %s' % estr(jf))
            for e in seen:
                e2 = None
                if jname == d.name:
                    e2 = e
                else:
                    j = prog.fn(jname)
                    loc = [ev.d['var'] for ev in j.events('DECL')] + [q['n'] for q in j.params]
                    # the connection inside the job function: the argument of its call to qb_ipcs_disconnect
                    cs = list(j.calls(d.name))
                    if len(cs) != 1:
                        raise AnalysisBroken('%s: calls to qb_ipcs_disconnect = %d' % (jname, len(cs)))
                    jc = estr(unwrap(cs[0].args[0]))
                    envj = {k.replace(cv + '->', jc + '->', 1): v for k, v in e.items()}
                    vj, _tj = abstract_run(j, envj, tracked=set(envj))
                    at = [env for (ev, env) in vj if ev.d is cs[0].d]
                    if at:
                        e2 = {k.replace(jc + '->', cv + '->', 1): v for k, v in at[0].items()}
                ok = False
                if e2 is not None:
                    v3, _t3 = run(persistent(e2), 0, 0)
                    ok = SLOT % 'connection_closed' in effects(v3) and 'qb_ipcs_connection_unref' in effects(v3)
                n += 1
                ctx.check('R7', 'queued-re-run-calls-closed-again', ok, job_st[0], 'the queued job (%s) gets connection_closed called again and, once accepted, the initial reference dropped' % jname,
                          'the job queued after connection_closed returned non-zero (%s) does not get it called again: the connection is never destroyed' % jname)
    if n < 6:
        raise AnalysisBroken('R7: only %d re-entry situations evaluated' % n)


def r8(ctx):
    """qb_ipcs_destroy disconnects every connection; connection_closed of one may disconnect or release any other: the walk must hold
    a reference to the connection it will go on with, not a list pointer"""
    prog = ctx.prog
    f = prog.fn('qb_ipcs_destroy')
    ds = list(f.calls('qb_ipcs_disconnect'))
    if not ds:
        raise AnalysisBroken('qb_ipcs_destroy: no disconnect')
    getters = ('qb_ipcs_connection_first_get', 'qb_ipcs_connection_next_get')
    for dcall in ds:
        srcs, entry = value_sources(f, dcall.args[0], dcall)
        srcs = [x for x in srcs if x.get('k') != 'update']
        byref = bool(srcs) and not entry and all(callee_of(unwrap(x)) in getters for x in srcs)
        ctx.check('R8', 'destroy:walk-holds-references', byref, dcall, 'the connections disconnected by qb_ipcs_destroy come from first_get/next_get, which reference them',
                  'qb_ipcs_destroy walks the list by pointers (%s): connection_closed of one connection may disconnect or release the next one, and the saved '
                  'pointer is followed into freed memory' % ', '.join(sorted({estr(x)[:50] for x in srcs})))
        nx = [ev for ev in f.events('STORE') if ev.rhs is not None and callee_of(unwrap(ev.rhs)) == 'qb_ipcs_connection_next_get']
        ok = bool(nx) and all(f.ev_dominates(x, dcall) for x in nx)
        ctx.check('R8', 'destroy:next-taken-before-disconnect', (not byref) or ok, dcall, 'the next connection is referenced before the current one is disconnected',
                  'the next connection is looked up after the current one was disconnected (the current one may be gone)')
        un = [ev for ev in f.calls('qb_ipcs_connection_unref') if f.may_follow(dcall, ev)]
        ctx.check('R8', 'destroy:walk-reference-dropped', (not byref) or bool(un), dcall, 'the walk drops its reference after the disconnect', 'the walk never drops the references it takes')


def r9(ctx, st):
    """a connection outlives its transport (it stays listed and may be referenced after qb_ipcs_disconnect took the transport down):
    every library entry point that hands a connection to the transport (send, sendv, fc_set, q_len_get, dispatch_mod) does so only
    where the connection was seen to be ESTABLISHED or ACTIVE"""
    prog = ctx.prog
    UP = {st['QB_IPCS_CONNECTION_ESTABLISHED'], st['QB_IPCS_CONNECTION_ACTIVE']}
    TRANSPORT = ('qb_ipcs_funcs::send', 'qb_ipcs_funcs::sendv', 'qb_ipcs_funcs::fc_set', 'qb_ipcs_funcs::q_len_get', 'qb_ipcs_poll_handlers::dispatch_mod')
    # helper predicates: static functions that return non-zero only for a connection whose state is in UP
    preds = set()
    for h in prog.all_fns(files={'lib/ipcs.c'}):
        rets = h.returns()
        if len(h.params) != 1 or len(rets) != 1 or rets[0].e is None:
            continue
        # nothing but a test: no store through the parameter, no transport call
        if any(ev.kind == 'STORE' and unwrap(ev.lhs).get('k') != 'var' for ev in h.events()) or any(ev.callee in TRANSPORT for ev in h.events('CALL')):
            continue

        def in_up(a):
            return last_field(a.l) == ('qb_ipcs_connection', 'state') and a.op == '==' and a.rc in UP
        if cond_cut(rets[0].e, True, in_up):
            preds.add(h.name)

    def up(a, fb):
        l = unwrap(a.l)
        if callee_of(l) in preds and a.op == '!=' and a.rc == 0:
            return True
        return last_field(a.l) == ('qb_ipcs_connection', 'state') and a.op == '==' and a.rc in UP
    EXEMPT = {
        'qb_ipcs_disconnect': 'takes the transport down itself, per state',
        'qb_ipcs_connection_unref': 'the final release',
        'qb_ipcs_dispatch_connection_request': 'the poll callback of a registered descriptor: the transport removes its descriptors from the loop when it goes down',
    }
    # static helpers are judged at their callers: what they do with the transport counts for every non-static function that reaches them
    fns = {f.name: f for f in prog.all_fns(files={'lib/ipcs.c'})}
    n = 0
    for f in fns.values():
        if f.static or f.name in EXEMPT:
            continue
        # transport calls in f itself and in static helpers it calls (one level of helpers is what the file has; deeper chains inherit)
        work = [(f, None)]
        seen = set()
        while work:
            g, via = work.pop()
            for ev in g.events('CALL'):
                if ev.callee in TRANSPORT:
                    site = via or ev
                    key = (site.d.get('id'), ev.callee)
                    if key in seen:
                        continue
                    seen.add(key)
                    n += 1
                    guarded = f.uncut_path(site, up) is None or (via is not None and g.uncut_path(ev, up) is None)
                    ctx.check('R9', '%s:%s-needs-live-transport' % (f.name, ev.callee.split('::')[1]), guarded, site,
                              'reached only for an ESTABLISHED or ACTIVE connection',
                              '%s hands the connection to the transport (%s%s) without having seen it ESTABLISHED or ACTIVE: a connection that was '
                              'disconnected but is still listed or referenced has its rings closed, its control page unmapped and descriptor numbers that may '
                              'belong to another connection' % (f.name, ev.callee.split('::')[1], (' in ' + g.name) if via is not None else ''))
                elif ev.callee in fns and fns[ev.callee].static and ev.callee not in preds and (via is None or len(seen) < 200):
                    h = fns[ev.callee]
                    if (h.name, (via or ev).d.get('id')) in seen:
                        continue
                    seen.add((h.name, (via or ev).d.get('id')))
                    work.append((h, via or ev))
    if n < 6:
        raise AnalysisBroken('R9: only %d transport uses found' % n)
    ctx.note('R9 exemptions: %s' % '; '.join('%s (%s)' % kv for kv in sorted(EXEMPT.items())))


def r10(ctx):
    """connection_destroyed runs with the count at zero: a reference taken and dropped inside it (a send does that) must not start a
    second destruction"""
    prog = ctx.prog
    f = prog.fn('qb_ipcs_connection_unref')
    cb = list(f.calls(SLOT % 'connection_destroyed'))
    if len(cb) != 1:
        raise AnalysisBroken('qb_ipcs_connection_unref: destroyed sites = %d' % len(cb))

    def is_inc(ev):
        if ev.kind == 'CALL':
            op = refcount_op(ev.d.get('e'), 'qb_ipcs_connection', 'refcount')
            if op and op[0] == 'inc':
                return True
            return ev.callee == 'qb_ipcs_connection_ref' and estr(unwrap(ev.args[0])) == f.params[0]['n']
        return ev.kind == 'STORE' and last_field(ev.lhs) == ('qb_ipcs_connection', 'refcount') and \
            (ev.d['op'] in ('++', '+=') or (cval(unwrap(ev.rhs)) or 0) >= 1)
    # from the zero edge to the callback an increment must be passed
    zero_edges = []
    for b in f.blocks.values():
        if b.cond is None:
            continue
        for (t, lab) in b.succs:
            if lab in (True, False) and any(_last_atom(f, a, b) for a in atoms_of(b.cond, lab)):
                zero_edges.append((b.id, t))
    if not zero_edges:
        raise AnalysisBroken('qb_ipcs_connection_unref: the count-reached-zero edge was not found')
    def is_dec(ev):
        if ev.kind == 'CALL':
            op = refcount_op(ev.d.get('e'), 'qb_ipcs_connection', 'refcount')
            return bool(op and op[0] == 'dec') or (ev.callee == 'qb_ipcs_connection_unref' and estr(unwrap(ev.args[0])) == f.params[0]['n'])
        if ev.kind in ('STORE', 'DECL'):
            rhs = ev.rhs if ev.kind == 'STORE' else ev.d.get('init')
            if rhs is not None and any(n.get('k') == 'call' and (refcount_op(n, 'qb_ipcs_connection', 'refcount') or (None,))[0] == 'dec' for n in walk(rhs)):
                return True
        return ev.kind == 'STORE' and last_field(ev.lhs) == ('qb_ipcs_connection', 'refcount') and ev.d['op'] in ('--', '-=')
    bad = False
    for (bid, t) in zero_edges:
        hits, _e, _n = f.search(('edge', bid, t), goal=lambda ev: ev is cb[0], stop=is_inc)
        bad = bad or bool(hits)
        incs, _e, _n = f.search(('edge', bid, t), goal=is_inc, stop=lambda ev: ev is cb[0])
        for (iv, _p) in incs:
            decs, _e2, _n2 = f.search(('after', iv), goal=is_dec, stop=lambda ev: ev is cb[0])
            bad = bad or bool(decs)
    ctx.check('R10', 'destroyed-runs-under-a-guard-reference', not bad, cb[0], 'the count is raised again before connection_destroyed is called',
              'connection_destroyed is called with the count at 0: a qb_ipcs_connection_ref/unref pair inside it (any send, an application that takes and '
              'drops a reference) takes the count 0 -> 1 -> 0 and destroys the connection a second time from inside the callback (double free)')


def _last_atom(f, a, fb):
    if dec_and_test_atom(a, 'qb_ipcs_connection', 'refcount'):
        return True
    if a.op == '!=' and a.rc == 0 and unwrap(a.l).get('k') == 'var':
        defs, entry = f.reaching_defs(unwrap(a.l)['n'], f.end_of(fb.id))
        for d in defs:
            rhs = d.rhs if d.kind == 'STORE' else d.d.get('init')
            r = unwrap(rhs) if rhs else {}
            if r.get('k') == 'bin' and r['op'] == '==' and refcount_op(r['l'], 'qb_ipcs_connection', 'refcount') and cval(unwrap(r['r'])) == 1:
                return not entry
    return False


def r3(ctx):
    prog = ctx.prog
    f = prog.fn('qb_ipcs_connection_unref')
    cv = f.params[0]['n']

    def last(a, fb):
        if dec_and_test_atom(a, 'qb_ipcs_connection', 'refcount'):
            return True
        # via a local flag assigned from dec_and_test
        if a.op == '!=' and a.rc == 0 and unwrap(a.l).get('k') == 'var':
            defs, entry = f.reaching_defs(unwrap(a.l)['n'], f.end_of(fb.id))
            for d in defs:
                rhs = d.rhs if d.kind == 'STORE' else d.d.get('init')
                r = unwrap(rhs) if rhs else {}
                if r.get('k') == 'bin' and r['op'] == '==' and refcount_op(r['l'], 'qb_ipcs_connection', 'refcount') and cval(unwrap(r['r'])) == 1:
                    return not entry
        return False
    seq = []
    names = (('list-removal', lambda ev: ev.kind == 'CALL' and ev.callee == 'qb_list_del'),
             ('destroyed', lambda ev: ev.kind == 'CALL' and ev.callee == SLOT % 'connection_destroyed'),
             ('transport-disconnect', lambda ev: ev.kind == 'CALL' and ev.callee == 'qb_ipcs_funcs::disconnect'),
             ('service-unref', lambda ev: ev.kind == 'CALL' and ev.callee == 'qb_ipcs_unref'),
             ('free-connection', lambda ev: ev.kind == 'CALL' and ev.callee == 'free' and estr(ev.args[0]) == cv))
    for (nm, pred) in names:
        evs = [ev for ev in f.events() if pred(ev)]
        if len(evs) > 1:
            raise AnalysisBroken('qb_ipcs_connection_unref: %s sites = %d' % (nm, len(evs)))
        if not evs:
            ctx.check('R3', '%s-under-last-reference' % nm, False, f, '', 'the final unref no longer performs %s: a connection that is still referenced (an iteration handle, a retry job) '
                      'loses it earlier or never gets it' % nm)
            continue
        seq.append((nm, evs[0]))
        ctx.check('R3', '%s-under-last-reference' % nm, f.uncut_path(evs[0], last) is None, evs[0], '%s happens only when the last reference was dropped' % nm,
                  '%s can happen while references remain' % nm)
    # who may take a connection off the service list: only the final unref (a referenced connection keeps valid neighbours,
    # which is what qb_ipcs_connection_next_get walks)
    for g in prog.all_fns(files={'lib/ipcs.c', 'lib/ipc_setup.c', 'lib/ipc_shm.c', 'lib/ipc_socket.c'}):
        for ev in g.calls('qb_list_del'):
            if any(n.get('k') == 'mem' and n.get('f') == 'list' and n.get('rec') == 'qb_ipcs_connection' for n in walk(ev.args[0])):
                ctx.check('R3', 'unlink-only-in-final-unref:%s' % g.name, g.name == 'qb_ipcs_connection_unref', ev,
                          'the connection leaves the service list in the final unref',
                          '%s takes a connection off the service list while references may remain: qb_ipcs_connection_next_get(current) then follows '
                          'the stale links of a disconnected connection into freed neighbours' % g.name)
    # ... and on every path to the free: a connection that is freed while still on the service list (or holding its service
    # reference) is what the next list operation walks into
    if seq and seq[-1][0] == 'free-connection':
        for (nm, ev) in seq[:-1]:
            if nm not in ('list-removal', 'service-unref', 'transport-disconnect'):
                continue
            hits, _e, _n = f.search(('entry',), goal=lambda x, fr_=seq[-1][1]: x.d is fr_.d, stop=lambda x, ev=ev: x.d is ev.d)
            if nm == 'transport-disconnect':
                # the transport's disconnect is also what removes the connection's directory, in every state: a connection that was
                # refused (never left INACTIVE) or torn down while ACTIVE reaches its last reference in state INACTIVE
                ctx.check('R3', '%s-on-every-path-to-free' % nm, not hits, ev, 'the connection is never freed without the transport\'s disconnect having run',
                          'free(c) can be reached without the transport\'s disconnect: it removes the per-connection directory whatever the state, so a refused '
                          'client (the connection never left INACTIVE) or one that died while ACTIVE leaves its directory under /dev/shm for good')
                continue
            ctx.check('R3', '%s-on-every-path-to-free' % nm, not hits, ev, 'the connection is never freed without %s' % nm,
                      'free(c) can be reached without %s: the connection is freed while it is still linked into the service\'s list (a connection torn down while ACTIVE is set back to INACTIVE before its last reference goes), and the next add, walk or destroy touches freed memory'
                      % nm if nm == 'list-removal' else 'free(c) can be reached without %s' % nm)
    for i in range(len(seq) - 1):
        a, b = seq[i], seq[i + 1]
        ctx.check('R3', 'order:%s<%s' % (a[0], b[0]), f.may_follow(a[1], b[1]) and not f.may_follow(b[1], a[1]), b[1],
                  '%s precedes %s' % (a[0], b[0]), '%s does not precede %s' % (a[0], b[0]))
    fr = seq[-1][1]
    after = [ev for ev in f.events() if f.may_follow(fr, ev) and ev.kind in ('LOAD', 'STORE', 'CALL') and
             root_var(ev.e if ev.kind != 'STORE' else ev.lhs) is not None and root_var(ev.e if ev.kind != 'STORE' else ev.lhs)['n'] == cv and
             not (ev.kind == 'LOAD' and unwrap(ev.e).get('k') == 'var')]
    ctx.check('R3', 'nothing-after-free', not after, after[0] if after else fr, 'nothing touches the connection after free(c)', 'the connection is touched after free(c)')
    su = seq[3][1]
    svc_after = [ev for ev in f.events('LOAD') if f.may_follow(su, ev) and field_is(ev.e, 'service') is False and
                 any(n.get('k') == 'mem' and n['f'] == 'service' for n in walk(ev.e)) and last_field(ev.e) != ('qb_ipcs_connection', 'service')]
    ctx.check('R3', 'no-service-use-after-service-unref', not svc_after, svc_after[0] if svc_after else su,
              'the service is not used after its reference was dropped', 'c->service is dereferenced after qb_ipcs_unref(c->service)')


# ---- R4: reference delta dataflow -----------------------------------------
OWNS_AT_ENTRY = {
    'qb_ipcs_disconnect': 'it is the function that drops the initial reference on every teardown path, and a callback can only drop references the application itself took',
}
CONN_TY = 'struct qb_ipcs_connection *'
# connection_destroyed runs inside the final unref; connection_accept runs while the connection is INACTIVE and unpublished:
# disconnect is a no-op then and the application holds no reference of its own yet
USER_CB = {SLOT % cb for cb in CB if cb not in ('connection_destroyed', 'connection_accept')}


def _conn_vars(f):
    vs = {p['n'] for p in f.params if p['ty'] == CONN_TY}
    for ev in f.events('DECL'):
        if ev.d.get('ty') == CONN_TY:
            vs.add(ev.d['var'])
    return vs


def _arg_is(ev, v):
    return any(estr(a) == v for a in ev.args)


def r4(ctx):
    prog = ctx.prog
    files = {'lib/ipcs.c', 'lib/ipc_setup.c'}
    fns = [f for f in prog.all_fns(files=files)]
    # transitive may-release over the connection parameter
    may = set(USER_CB) | {'qb_ipcs_connection_unref'}
    changed = True
    while changed:
        changed = False
        for f in fns:
            if f.name in may:
                continue
            vs = {p['n'] for p in f.params if p['ty'] == CONN_TY}
            if not vs:
                continue
            for ev in f.events('CALL'):
                if ev.callee in may and any(_arg_is(ev, v) for v in vs):
                    may.add(f.name)
                    changed = True
                    break
    ctx.note('may-release set: %s' % sorted(m for m in may if '::' not in m))
    n_sites = 0
    entry_delta = {}
    order = [f for f in fns if not f.static] + [f for f in fns if f.static]
    call_deltas = {}
    for f in order:
        for v in _conn_vars(f):
            rel = [ev for ev in f.events('CALL') if ev.callee in may and _arg_is(ev, v)]
            # delta dataflow (min over paths)
            entry = 1 if f.name in OWNS_AT_ENTRY else 0
            if f.static and v in {p['n'] for p in f.params}:
                ds = call_deltas.get(f.name)
                if ds:
                    entry = min(ds)     # helper: runs under its callers' brackets
            IN = {f.entry: entry}
            at = {}
            work = [f.entry]
            it = 0
            while work:
                it += 1
                if it > 4000:
                    raise AnalysisBroken('%s: reference delta does not stabilise' % f.name)
                b = work.pop()
                cur = IN[b]
                for ev in f.blocks[b].events:
                    at[(b, ev.idx)] = cur
                    if ev.kind == 'CALL':
                        if ev.callee == 'qb_ipcs_connection_ref' and _arg_is(ev, v):
                            cur += 1
                        elif ev.callee == 'qb_ipcs_connection_unref' and _arg_is(ev, v):
                            cur -= 1
                    elif ev.kind in ('STORE', 'DECL'):
                        rhs = ev.rhs if ev.kind == 'STORE' else ev.d.get('init')
                        tgt = estr(ev.lhs) if ev.kind == 'STORE' else ev.d['var']
                        if tgt == v and rhs is not None and callee_of(unwrap(rhs)) == 'qb_ipcs_connection_alloc':
                            cur = 1      # owns the allocation reference
                        elif tgt == v and rhs is not None:
                            cur = 0      # the variable now names another connection
                    if ev.kind == 'CALL' and ev.callee in ('qb_list_add', 'qb_list_add_tail') and len(ev.args) == 2 and \
                            root_var(ev.args[0]) is not None and root_var(ev.args[0])['n'] == v and field_is(ev.args[1], 'connections'):
                        cur -= 1         # published: the allocation reference now belongs to the connection's life cycle (qb_ipcs_disconnect drops it)
                cur = max(cur, -3)
                blk = f.blocks[b]
                for (t, lab) in blk.succs:
                    if blk.cond is not None and lab in (True, False) and any(a_.op == '==' and a_.rc == 0 and a_.ls == v for a_ in atoms_of(blk.cond, lab)):
                        continue        # v == NULL: there is no object on this edge
                    new = cur if t not in IN else min(IN[t], cur)
                    if t not in IN or new != IN[t]:
                        IN[t] = new
                        work.append(t)
            # remember the delta at calls of static helpers that take the connection
            for ev in f.events('CALL'):
                if ev.callee in prog.fns and _arg_is(ev, v) and (ev.blk, ev.idx) in at:
                    call_deltas.setdefault(ev.callee, []).append(at[(ev.blk, ev.idx)])
            if not rel:
                continue
            # touches
            bad = []
            touches = 0
            for ev in f.events():
                if ev.kind == 'LOAD':
                    e = unwrap(ev.e)
                    if e.get('k') != 'mem' or root_var(e) is None or root_var(e)['n'] != v:
                        continue
                elif ev.kind == 'STORE':
                    if root_var(ev.lhs) is None or root_var(ev.lhs)['n'] != v or unwrap(ev.lhs).get('k') == 'var':
                        continue
                elif ev.kind == 'CALL':
                    if not _arg_is(ev, v) or ev.callee in ('qb_ipcs_connection_unref',):
                        continue
                else:
                    continue
                def reassigned(x, v=v):
                    return (x.kind == 'STORE' and estr(x.lhs) == v) or (x.kind == 'DECL' and x.d['var'] == v)
                prior = []
                for r in rel:
                    if r is ev or not f.may_follow(r, ev):
                        continue
                    hits, _e, _n = f.search(('after', r), goal=lambda x, ev=ev: x is ev, stop=reassigned)
                    if hits:
                        prior.append(r)
                if not prior:
                    continue
                touches += 1
                dlt = at.get((ev.blk, ev.idx))
                if dlt is None:
                    continue
                if dlt < 1:
                    # an unref that is the function's own last reference is allowed to be followed only by nothing;
                    # everything else after a may-release call needs delta >= 1
                    bad.append((ev, dlt, prior[0]))
            n_sites += 1
            ctx.check('R4', '%s:%s' % (f.name, v), not bad, bad[0][0] if bad else rel[0],
                      '%d accesses to %s after calls that may release it are all made while holding an own reference' % (touches, v),
                      'the connection is touched with no own reference held (delta %s) after %s may have dropped the last one: use-after-free when a callback disconnects' % (
                          bad[0][1] if bad else '', repr(bad[0][2])[:120] if bad else ''),
                      {'touch': repr(bad[0][0]) if bad else None})
            # balanced at exit (functions that own nothing must not leak or over-drop)
            ex = IN.get(f.exit)
            want = entry
            if f.name == 'handle_new_connection':
                want = None   # ownership passes to the connection list or is dropped per path
            if f.name in OWNS_AT_ENTRY:
                want = None
            if want is not None and ex is not None:
                ctx.check('R4', '%s:%s:balanced' % (f.name, v), ex == want, f, 'own references are balanced at exit (entry %d, min over paths at exit %d)' % (entry, ex),
                          'reference count delta at exit is %d on some path (over-drop frees a connection others still use)' % ex)
    if n_sites == 0:
        raise AnalysisBroken('R4: no bracket sites found')


def r5(ctx):
    prog = ctx.prog
    for name in ('qb_ipcs_connection_first_get', 'qb_ipcs_connection_next_get'):
        f = prog.fn(name)
        rets = [ev for ev in f.returns() if ev.e is not None and cval(unwrap(ev.e)) != 0]
        ok = bool(rets)
        for r in rets:
            v = estr(unwrap(r.e))
            refs = [ev for ev in f.calls('qb_ipcs_connection_ref') if _arg_is(ev, v)]
            ok = ok and any(f.ev_dominates(x, r) for x in refs)
        ctx.check('R5', name, ok, f, '%s references the connection it returns' % name, '%s hands out a connection without taking a reference' % name)


def r6(ctx):
    prog = ctx.prog
    a = prog.fn('qb_ipcs_connection_alloc')
    refs = list(a.calls('qb_ipcs_ref'))
    rets = [ev for ev in a.returns() if ev.e is not None and cval(unwrap(ev.e)) != 0]
    ctx.check('R6', 'alloc-takes-service-ref', bool(refs) and all(any(a.ev_dominates(x, r) for x in refs) for r in rets), a,
              'every allocated connection holds a service reference', 'a connection is allocated without a service reference')
    u = prog.fn('qb_ipcs_uc_recv_and_auth')
    refs = list(u.calls('qb_ipcs_ref'))
    adds = list(u.calls('qb_ipcs_poll_handlers::dispatch_add'))
    ctx.check('R6', 'pending-auth-takes-service-ref', bool(refs) and all(any(u.ev_dominates(x, r) for x in refs) for r in adds), u,
              'a pending handshake holds a service reference while it is registered', 'a pending handshake is registered without a service reference')
    d = prog.fn('destroy_ipc_auth_data')
    ctx.check('R6', 'pending-auth-drops-service-ref', any(True for _ in d.calls('qb_ipcs_unref')), d, 'destroying the handshake record drops its service reference',
              'the handshake record never drops its service reference (service leaks)')
    f = prog.fn('qb_ipcs_unref')
    frees = list(f.calls('free'))
    ok = bool(frees)

    def last(a_, fb):
        if dec_and_test_atom(a_, 'qb_ipcs_service', 'ref_count'):
            return True
        if a_.op == '!=' and a_.rc == 0 and unwrap(a_.l).get('k') == 'var':
            defs, entry = f.reaching_defs(unwrap(a_.l)['n'], f.end_of(fb.id))
            return bool(defs) and not entry and all(
                any(refcount_op(n, 'qb_ipcs_service', 'ref_count') for n in walk(dd.rhs if dd.kind == 'STORE' else dd.d.get('init') or {})) for dd in defs)
        return False
    for fr in frees:
        ok = ok and f.uncut_path(fr, last) is None
    ctx.check('R6', 'service-freed-under-last-ref', ok, frees[0] if frees else f, 'the service is freed only when its count reaches zero', 'the service can be freed while referenced')
    owners = {'qb_ipcs_connection_unref', 'destroy_ipc_auth_data', 'qb_ipcs_destroy', 'qb_ipcs_run'}
    callers = prog.callers_of('qb_ipcs_unref')
    bad = [(g, ev) for (g, ev) in callers if g.name not in owners]
    ctx.check('R6', 'service-unref-owners', bool(callers) and not bad, bad[0][1] if bad else None,
              'qb_ipcs_unref is called only by the owners of a service reference %s' % sorted(owners), 'qb_ipcs_unref is also called from %s' % sorted({g.name for (g, _e) in bad}))


def r11(ctx, st):
    prog = ctx.prog
    guarded = [f for f in prog.all_fns(files={'lib/ipc_shm.c'})
               if any(b.cond is not None and has_call(b.cond, '_setjmp', 'setjmp', '__sigsetjmp') for b in f.blocks.values())]
    guarded = [f for f in guarded if f.params and 'qb_ipcs_connection' in (f.params[0].get('ty') or '')]
    if not guarded:
        raise AnalysisBroken('R11: no server-side function of lib/ipc_shm.c sets a jump target for SIGBUS')
    for f in guarded:
        cv = f.params[0]['n']
        sv = '%s->state' % cv

        def faults(ev):
            return ev.kind == 'CALL' and ev.callee in ('qb_rb_close', 'qb_rb_force_close')

        def mustdo(ev):
            return ev.kind == 'CALL' and (slot_call(ev, 'dispatch_del') or ev.callee in ('qb_ipcc_us_sock_close', 'close'))
        if not any(faults(ev) for ev in f.events('CALL')) or not any(mustdo(ev) for ev in f.events('CALL')):
            raise AnalysisBroken('R11: %s: ring closes / descriptor teardown not found' % f.name)

        def eff(ev, env):
            if faults(ev):
                return {'#ring': 1}
            return None
        for sname, sval in sorted(st.items(), key=lambda kv: kv[1]):
            # the jump target test: not taken on the way in (0 = the direct return of setjmp)
            visits, _t = abstract_run(f, {sv: sval, cv: 1, '#ring': 0}, tracked={sv, cv, '#ring'}, effect=eff)
            late = [ev for (ev, env) in visits if mustdo(ev) and env.get('#ring') == 1]
            ctx.check('R11', '%s:%s:descriptor-before-rings' % (f.name, sname.replace('QB_IPCS_CONNECTION_', '')), not late, late[0] if late else f,
                      'state %s: the descriptor is taken out of the main loop before any ring is closed (or only one of the two happens)' % sname,
                      'state %s: %s runs after a ring close in the same call: if the client truncated the ring file the close jumps to the end, the descriptor stays registered and the main loop dispatches to the destroyed connection'
                      % (sname, late[0].callee if late else ''))


def r12(ctx):
    prog = ctx.prog
    n = 0
    for f in prog.all_fns(files={'lib/ipc_socket.c', 'lib/ipc_shm.c'}):
        adds = [st for st in f.events('STORE') if st.rhs is not None and callee_of(unwrap(st.rhs)) == 'qb_ipcs_poll_handlers::dispatch_add']
        if len(adds) < 2:
            continue
        adds = sorted(adds, key=lambda s_: sum(1 for o in adds if f.ev_dominates(o, s_) or (f.may_follow(o, s_) and not f.may_follow(s_, o))))
        first, later = adds[0], adds[1:]
        fd1 = estr(unwrap(unwrap(first.rhs)['args'][1]))
        for a2 in later:
            rv = estr(a2.lhs)
            edges = []
            for b in f.blocks.values():
                if b.cond is None:
                    continue
                for (t, lab) in b.succs:
                    if lab in (True, False) and any(a.ls == rv and ((a.op == '<' and a.rc == 0) or (a.op == '!=' and a.rc == 0)) for a in atoms_of(b.cond, lab)):
                        defs, _en = f.reaching_defs(rv, f.end_of(b.id))
                        if any(d.d is a2.d for d in defs):
                            edges.append((b, t))
            if not edges:
                raise AnalysisBroken('%s: the failure of the second registration is not tested' % f.name)
            n += 1
            bad = None
            for (b, t) in edges:
                ok, _p = f.must_pass(('edge', b.id, t), lambda ev: ev.kind == 'CALL' and slot_call(ev, 'dispatch_del') and estr(unwrap(ev.args[0])) == fd1)
                if not ok:
                    bad = b
            ctx.check('R12', '%s:second-registration-failure-undoes-the-first' % f.name, bad is None, a2,
                      'when the second registration fails the first descriptor (%s) is taken out of the main loop again' % fd1,
                      'when the registration of %s fails, %s stays registered (no dispatch_del on the failure path): the connection is given up and freed, its descriptor closed, and the main loop still holds it with the freed connection as callback data'
                      % (estr(unwrap(unwrap(a2.rhs)['args'][1])), fd1))
    if n == 0:
        raise AnalysisBroken('R12: no transport registers two descriptors')


def r13(ctx, st):
    prog = ctx.prog
    EST = st['QB_IPCS_CONNECTION_ESTABLISHED']
    f = prog.fn('qb_ipcs_dispatch_connection_request')
    prs = [ev for ev in f.events('CALL') if ev.callee == '_process_request_'] + \
          [ev for ev in f.events('STORE') if ev.rhs is not None and callee_of(unwrap(ev.rhs)) == '_process_request_']
    if not prs:
        raise AnalysisBroken('qb_ipcs_dispatch_connection_request: no call of _process_request_')
    pr = prs[0]
    loops = f.natural_loops()
    if not any(pr.blk in b for b in loops.values()):
        raise AnalysisBroken('qb_ipcs_dispatch_connection_request: requests are not processed in a loop')

    def not_seen_established(fb, t, lab):
        if fb.cond is None or lab not in (True, False):
            return True
        return not any(field_is(a.l, 'state', 'qb_ipcs_connection') and a.op == '==' and a.rc == EST for a in atoms_of(fb.cond, lab))
    hits, _e, _n = f.search(('after', pr), goal=lambda ev: ev.d is pr.d, edge_filter=not_seen_established)
    ctx.check('R13', 'next-request-only-if-still-established', not hits, pr,
              'between two requests of a batch the connection is seen to be ESTABLISHED',
              'the batch loop takes the next request without having looked at the connection state: a msg_process that disconnects the connection (connection_closed runs, returns 0) is followed by msg_process for the requests still queued')
