"""C04 - IPC server callback order accept, created, msg*, closed, destroyed; no use-after-free."""
from engine.qb import (AnalysisBroken, abstract_run, estr, unwrap, cval, walk, last_field, fields_of, callee_of,
                       mentions_var, atoms_of, root_var, TOP)
from rules.common import field_is, has_call, derives, dec_and_test_atom, refcount_op

UNITS = ['lib/ipcs.c', 'lib/ipc_setup.c', 'lib/ipc_shm.c', 'lib/ipc_socket.c']
DECIDES = ('Decides that each service callback has one call site guarded by the right connection state (finite evaluation of '
           'handle_new_connection and qb_ipcs_disconnect over the four states and over refusal/failure results), that destroyed runs '
           'last inside the final unref, that every library function which may drop the last reference and then touches the '
           'connection holds its own reference (reference-delta dataflow), and the service reference pairing; arbitrary histories '
           'of application-held references are not decided.')
RULES = {
    'R1': 'one call site per service callback; created needs accept == 0 and transport connect == 0; ESTABLISHED only from ACTIVE after created; SHUTTING_DOWN only from ESTABLISHED; closed only in SHUTTING_DOWN (qb_ipcs_disconnect evaluated per state)',
    'R2': 'the final unref in qb_ipcs_disconnect is skipped exactly when closed returned non-zero and the re-run job was accepted',
    'R3': 'connection_unref: list removal, destroyed, transport disconnect, service unref, free - all under dec_and_test, in that order, nothing touches c after free(c)',
    'R4': 'reference brackets: after a call that may release the connection (user callback, qb_ipcs_disconnect, unref, and functions that reach them) the function only touches the connection while holding its own reference; balanced at every exit',
    'R5': 'qb_ipcs_connection_first_get/next_get reference the connection they return',
    'R6': 'connection_alloc and the pending-auth record take a service reference; qb_ipcs_unref frees only under dec_and_test; its callers are the owners',
}
FLOORS = {'R1': 24, 'R2': 3, 'R3': 7, 'R4': 8, 'R5': 2, 'R6': 5}

CB = ('connection_accept', 'connection_created', 'msg_process', 'connection_closed', 'connection_destroyed')
SLOT = 'qb_ipcs_service_handlers::%s'


def run(ctx):
    prog = ctx.prog
    st = prog.enum('qb_ipcs_connection_state')
    r1(ctx, st)
    r2(ctx, st)
    r3(ctx)
    r4(ctx)
    r5(ctx)
    r6(ctx)


def r1(ctx, st):
    prog = ctx.prog
    INACTIVE, ACTIVE, EST, SHUT = (st['QB_IPCS_CONNECTION_INACTIVE'], st['QB_IPCS_CONNECTION_ACTIVE'],
                                   st['QB_IPCS_CONNECTION_ESTABLISHED'], st['QB_IPCS_CONNECTION_SHUTTING_DOWN'])
    sites = {}
    for cb in CB:
        cs = prog.callers().get(SLOT % cb, [])
        sites[cb] = cs
        ctx.check('R1', 'single-site:%s' % cb, len(cs) == 1, cs[0][1] if cs else None, '%s is invoked at exactly one site' % cb,
                  '%s is invoked at %d sites' % (cb, len(cs)))
    want_fn = {'connection_accept': 'handle_new_connection', 'connection_created': 'handle_new_connection', 'msg_process': '_process_request_',
               'connection_closed': 'qb_ipcs_disconnect', 'connection_destroyed': 'qb_ipcs_connection_unref'}
    for cb, fn in want_fn.items():
        if sites[cb] and sites[cb][0][0].name != fn:
            ctx.inconclusive('R1', 'site-owner:%s' % cb, sites[cb][0][1], '%s moved to %s (rule table needs confirming)' % (cb, sites[cb][0][0].name))
    h = prog.fn('handle_new_connection')
    acc = [ev for ev in h.events('STORE') if ev.rhs is not None and callee_of(unwrap(ev.rhs)) == SLOT % 'connection_accept']
    con = [ev for ev in h.events('STORE') if ev.rhs is not None and callee_of(unwrap(ev.rhs)) == 'qb_ipcs_funcs::connect']
    if len(acc) != 1 or len(con) != 1:
        raise AnalysisBroken('handle_new_connection: accept result stores=%d connect result stores=%d' % (len(acc), len(con)))
    resv = estr(acc[0].lhs)
    authp = h.params[1]['n']

    def simulate(refuse_at, value):
        def eff(ev, env):
            if ev.d is refuse_at.d:
                return {resv: value, '#skip': True}
            if ev.kind == 'STORE' and estr(ev.lhs) == resv and ev.rhs is not None and unwrap(ev.rhs).get('k') == 'call' and ev.d is not refuse_at.d and \
                    ev.d in (acc[0].d, con[0].d):
                return {resv: 0, '#skip': True}
            return None
        visits, terms = abstract_run(h, {authp: 0, resv: 0}, tracked={authp, resv}, effect=eff)
        after = False
        seen = []
        for (ev, env) in visits:
            seen.append(ev)
        return visits
    for (what, at, val) in (('accept-refused', acc[0], -13), ('connect-failed', con[0], -13), ('connect-failed-EAGAIN', con[0], -11), ('accept-refused-EAGAIN', acc[0], -11)):
        visits = simulate(at, val)
        # events visited in states where the refusal has happened: env[resv] == -13 at some earlier point; approximate by
        # collecting events visited with resv == -13 or after it (states are per (block, env) so filter by env)
        ref_events = [(ev, env) for (ev, env) in visits if env.get(resv) == val]
        calls = {ev.callee for (ev, env) in ref_events if ev.kind == 'CALL'}
        stores = [(ev, env) for (ev, env) in ref_events if ev.kind == 'STORE' and field_is(ev.lhs, 'state', 'qb_ipcs_connection')]
        ctx.check('R1', '%s:no-created' % what, SLOT % 'connection_created' not in calls, at,
                  'connection_created is unreachable once %s' % what.replace('-', ' '),
                  'connection_created can run although %s' % what.replace('-', ' '))
        if what.startswith('accept-refused'):
            ctx.check('R1', 'accept-refused:no-transport-connect', 'qb_ipcs_funcs::connect' not in calls, at,
                      'no channel is created for a refused peer', 'the transport connect runs although the accept callback refused')
        ctx.check('R1', '%s:never-established' % what, not any(cval(unwrap(ev.rhs)) in (ACTIVE, EST) for (ev, env) in stores), at,
                  'a failed setup never becomes ACTIVE/ESTABLISHED', 'a failed setup is marked ACTIVE/ESTABLISHED')
        ctx.check('R1', '%s:released' % what, 'qb_ipcs_connection_unref' in calls or 'qb_ipcs_disconnect' in calls, at,
                  'the allocation reference is dropped on the failure path', 'the connection object leaks on the failure path')
        ctx.check('R1', '%s:error-response' % what, 'qb_ipc_us_send' in calls, at, 'the client is told the error', 'no response is sent on the failure path')
    # state stores
    for f in prog.all_fns(files={'lib/ipcs.c', 'lib/ipc_setup.c', 'lib/ipc_shm.c', 'lib/ipc_socket.c'}):
        for ev in f.stores(field='state', rec='qb_ipcs_connection'):
            v = cval(unwrap(ev.rhs))
            if v == EST:
                def from_active(a, fb):
                    return a.op == '==' and a.rc == ACTIVE and field_is(a.l, 'state', 'qb_ipcs_connection')
                created = [c for c in f.events('CALL') if c.callee == SLOT % 'connection_created']
                ok = f.name == 'handle_new_connection' and f.uncut_path(ev, from_active) is None and \
                    all(not f.may_follow(ev, c) for c in created) and bool(created)
                ctx.check('R1', 'ESTABLISHED-from-ACTIVE-after-created', ok, ev, 'ESTABLISHED is stored only after created, from ACTIVE',
                          'ESTABLISHED is stored before created / not from ACTIVE (a connection disconnected inside created would be revived)')
            elif v == SHUT:
                def from_est(a, fb):
                    return a.op == '==' and a.rc == EST and field_is(a.l, 'state', 'qb_ipcs_connection')
                ctx.check('R1', 'SHUTTING_DOWN-from-ESTABLISHED', f.name == 'qb_ipcs_disconnect' and f.uncut_path(ev, from_est) is None, ev,
                          'SHUTTING_DOWN is stored only from ESTABLISHED', 'SHUTTING_DOWN can be stored for a connection that was never ESTABLISHED (closed without created)')
            elif v == ACTIVE:
                zero = lambda a, fb: a.ls == resv and a.op == '==' and a.rc == 0
                ctx.check('R1', 'ACTIVE-after-connect', f.name == 'handle_new_connection' and all(f.may_follow(c, ev) and not f.may_follow(ev, c) for c in con) and
                          f.uncut_path(ev, zero, also_stop=lambda x: any(x.d is c.d for c in con)) is None and
                          all(f.uncut_path(ev, zero, start=('after', c)) is None for c in con), ev,
                          'ACTIVE is stored only after a successful transport connect', 'ACTIVE stored without a successful connect')
    # qb_ipcs_disconnect per state
    d = prog.fn('qb_ipcs_disconnect')
    cv = d.params[0]['n']
    sv = '%s->state' % cv
    for name, val in st.items():
        short = name.replace('QB_IPCS_CONNECTION_', '')
        visits, terms = abstract_run(d, {sv: val}, tracked={sv})
        calls = [ev.callee for (ev, env) in visits if ev.kind == 'CALL']
        closed = SLOT % 'connection_closed' in calls
        tdisc = calls.count('qb_ipcs_funcs::disconnect')
        unref = 'qb_ipcs_connection_unref' in calls
        if short == 'INACTIVE':
            ctx.check('R1', 'disconnect:INACTIVE-no-effect', not closed and not tdisc and not unref, d, 'disconnecting an INACTIVE connection does nothing',
                      'disconnecting an INACTIVE connection has effects (double teardown)')
        elif short == 'ACTIVE':
            ctx.check('R1', 'disconnect:ACTIVE-no-closed', not closed and tdisc == 1 and unref, d,
                      'a connection that was never reported created is torn down without the closed callback',
                      'closed callback invoked for a connection whose created callback never ran / teardown incomplete')
        elif short == 'ESTABLISHED':
            ctx.check('R1', 'disconnect:ESTABLISHED-closed', closed and tdisc == 1, d, 'ESTABLISHED: transport disconnect once, then closed',
                      'ESTABLISHED: closed not invoked or transport disconnect %d times' % tdisc)
        elif short == 'SHUTTING_DOWN':
            ctx.check('R1', 'disconnect:SHUTTING_DOWN-retry', closed and tdisc == 0, d, 'a retry only re-runs closed',
                      'the closed retry repeats the transport disconnect / skips closed')


def r2(ctx, st):
    prog = ctx.prog
    d = prog.fn('qb_ipcs_disconnect')
    SHUT = st['QB_IPCS_CONNECTION_SHUTTING_DOWN']
    sv = '%s->state' % d.params[0]['n']
    closed_st = [ev for ev in d.events('STORE') if ev.rhs is not None and callee_of(unwrap(ev.rhs)) == SLOT % 'connection_closed']
    job_st = [ev for ev in d.events('STORE') if ev.rhs is not None and callee_of(unwrap(ev.rhs)) == 'qb_ipcs_poll_handlers::job_add']
    if len(closed_st) != 1 or len(job_st) != 1:
        raise AnalysisBroken('qb_ipcs_disconnect: closed result stores=%d job_add result stores=%d' % (len(closed_st), len(job_st)))
    resv = estr(closed_st[0].lhs)
    flags = {estr(ev.lhs) for ev in d.events('STORE') if unwrap(ev.lhs).get('k') == 'var' and cval(unwrap(ev.rhs)) in (0, 1)} | \
            {ev.d['var'] for ev in d.events('DECL') if 'init' in ev.d and cval(unwrap(ev.d['init'])) in (0, 1)}
    for (name, closed_res, job_res, want_unref, want_job) in (('closed-ok', 0, 0, True, False), ('closed-again+job-accepted', 1, 0, False, True),
                                                               ('closed-again+job-refused', 1, -12, True, True)):
        def eff(ev, env, closed_res=closed_res, job_res=job_res):
            if ev.d is closed_st[0].d:
                return {resv: closed_res, '#skip': True}
            if ev.d is job_st[0].d:
                return {estr(job_st[0].lhs): job_res, '#skip': True}
            return None
        slot = None
        for b in d.blocks.values():
            if b.cond is not None and field_is(b.cond, 'connection_closed'):
                slot = estr(b.cond)
        init = {sv: SHUT}
        if slot:
            init[slot] = 1      # a closed callback is installed
        visits, _t = abstract_run(d, init, tracked={sv, resv, estr(job_st[0].lhs)} | flags | ({slot} if slot else set()), effect=eff)
        calls = [ev.callee for (ev, env) in visits if ev.kind == 'CALL']
        unref = 'qb_ipcs_connection_unref' in calls
        job = 'qb_ipcs_poll_handlers::job_add' in calls
        ctx.check('R2', name, unref == want_unref and job == want_job, d,
                  '%s: final unref %s, retry job %s' % (name, 'runs' if want_unref else 'is held back', 'scheduled' if want_job else 'not scheduled'),
                  '%s: final unref %s, retry job %s (expected unref=%s job=%s): %s' % (
                      name, unref, job, want_unref, want_job,
                      'the connection is freed while a retry job still points at it' if unref and not want_unref else 'the connection is never destroyed'))


def r3(ctx):
    prog = ctx.prog
    f = prog.fn('qb_ipcs_connection_unref')
    cv = f.params[0]['n']

    def last(a, fb):
        if dec_and_test_atom(a, 'qb_ipcs_connection', 'refcount'):
            return True
        # via a local flag assigned from dec_and_test
        if a.op == '!=' and a.rc == 0 and unwrap(a.l).get('k') == 'var':
            defs, entry = f.reaching_defs(unwrap(a.l)['n'], f.end_of(fb.id))
            for d in defs:
                rhs = d.rhs if d.kind == 'STORE' else d.d.get('init')
                r = unwrap(rhs) if rhs else {}
                if r.get('k') == 'bin' and r['op'] == '==' and refcount_op(r['l'], 'qb_ipcs_connection', 'refcount') and cval(unwrap(r['r'])) == 1:
                    return not entry
        return False
    seq = []
    names = (('list-removal', lambda ev: ev.kind == 'CALL' and ev.callee == 'qb_list_del'),
             ('destroyed', lambda ev: ev.kind == 'CALL' and ev.callee == SLOT % 'connection_destroyed'),
             ('transport-disconnect', lambda ev: ev.kind == 'CALL' and ev.callee == 'qb_ipcs_funcs::disconnect'),
             ('service-unref', lambda ev: ev.kind == 'CALL' and ev.callee == 'qb_ipcs_unref'),
             ('free-connection', lambda ev: ev.kind == 'CALL' and ev.callee == 'free' and estr(ev.args[0]) == cv))
    for (nm, pred) in names:
        evs = [ev for ev in f.events() if pred(ev)]
        if len(evs) > 1:
            raise AnalysisBroken('qb_ipcs_connection_unref: %s sites = %d' % (nm, len(evs)))
        if not evs:
            ctx.check('R3', '%s-under-last-reference' % nm, False, f, '', 'the final unref no longer performs %s: a connection that is still referenced (an iteration handle, a retry job) '
                      'loses it earlier or never gets it' % nm)
            continue
        seq.append((nm, evs[0]))
        ctx.check('R3', '%s-under-last-reference' % nm, f.uncut_path(evs[0], last) is None, evs[0], '%s happens only when the last reference was dropped' % nm,
                  '%s can happen while references remain' % nm)
    # who may take a connection off the service list: only the final unref (a referenced connection keeps valid neighbours,
    # which is what qb_ipcs_connection_next_get walks)
    for g in prog.all_fns(files={'lib/ipcs.c', 'lib/ipc_setup.c', 'lib/ipc_shm.c', 'lib/ipc_socket.c'}):
        for ev in g.calls('qb_list_del'):
            if any(n.get('k') == 'mem' and n.get('f') == 'list' and n.get('rec') == 'qb_ipcs_connection' for n in walk(ev.args[0])):
                ctx.check('R3', 'unlink-only-in-final-unref:%s' % g.name, g.name == 'qb_ipcs_connection_unref', ev,
                          'the connection leaves the service list in the final unref',
                          '%s takes a connection off the service list while references may remain: qb_ipcs_connection_next_get(current) then follows '
                          'the stale links of a disconnected connection into freed neighbours' % g.name)
    for i in range(len(seq) - 1):
        a, b = seq[i], seq[i + 1]
        ctx.check('R3', 'order:%s<%s' % (a[0], b[0]), f.may_follow(a[1], b[1]) and not f.may_follow(b[1], a[1]), b[1],
                  '%s precedes %s' % (a[0], b[0]), '%s does not precede %s' % (a[0], b[0]))
    fr = seq[-1][1]
    after = [ev for ev in f.events() if f.may_follow(fr, ev) and ev.kind in ('LOAD', 'STORE', 'CALL') and
             root_var(ev.e if ev.kind != 'STORE' else ev.lhs) is not None and root_var(ev.e if ev.kind != 'STORE' else ev.lhs)['n'] == cv and
             not (ev.kind == 'LOAD' and unwrap(ev.e).get('k') == 'var')]
    ctx.check('R3', 'nothing-after-free', not after, after[0] if after else fr, 'nothing touches the connection after free(c)', 'the connection is touched after free(c)')
    su = seq[3][1]
    svc_after = [ev for ev in f.events('LOAD') if f.may_follow(su, ev) and field_is(ev.e, 'service') is False and
                 any(n.get('k') == 'mem' and n['f'] == 'service' for n in walk(ev.e)) and last_field(ev.e) != ('qb_ipcs_connection', 'service')]
    ctx.check('R3', 'no-service-use-after-service-unref', not svc_after, svc_after[0] if svc_after else su,
              'the service is not used after its reference was dropped', 'c->service is dereferenced after qb_ipcs_unref(c->service)')


# ---- R4: reference delta dataflow -----------------------------------------
OWNS_AT_ENTRY = {
    'qb_ipcs_disconnect': 'it is the function that drops the initial reference on every teardown path, and a callback can only drop references the application itself took',
}
CONN_TY = 'struct qb_ipcs_connection *'
# connection_destroyed runs inside the final unref; connection_accept runs while the connection is INACTIVE and unpublished:
# disconnect is a no-op then and the application holds no reference of its own yet
USER_CB = {SLOT % cb for cb in CB if cb not in ('connection_destroyed', 'connection_accept')}


def _conn_vars(f):
    vs = {p['n'] for p in f.params if p['ty'] == CONN_TY}
    for ev in f.events('DECL'):
        if ev.d.get('ty') == CONN_TY:
            vs.add(ev.d['var'])
    return vs


def _arg_is(ev, v):
    return any(estr(a) == v for a in ev.args)


def r4(ctx):
    prog = ctx.prog
    files = {'lib/ipcs.c', 'lib/ipc_setup.c'}
    fns = [f for f in prog.all_fns(files=files)]
    # transitive may-release over the connection parameter
    may = set(USER_CB) | {'qb_ipcs_connection_unref'}
    changed = True
    while changed:
        changed = False
        for f in fns:
            if f.name in may:
                continue
            vs = {p['n'] for p in f.params if p['ty'] == CONN_TY}
            if not vs:
                continue
            for ev in f.events('CALL'):
                if ev.callee in may and any(_arg_is(ev, v) for v in vs):
                    may.add(f.name)
                    changed = True
                    break
    ctx.note('may-release set: %s' % sorted(m for m in may if '::' not in m))
    n_sites = 0
    entry_delta = {}
    order = [f for f in fns if not f.static] + [f for f in fns if f.static]
    call_deltas = {}
    for f in order:
        for v in _conn_vars(f):
            rel = [ev for ev in f.events('CALL') if ev.callee in may and _arg_is(ev, v)]
            # delta dataflow (min over paths)
            entry = 1 if f.name in OWNS_AT_ENTRY else 0
            if f.static and v in {p['n'] for p in f.params}:
                ds = call_deltas.get(f.name)
                if ds:
                    entry = min(ds)     # helper: runs under its callers' brackets
            IN = {f.entry: entry}
            at = {}
            work = [f.entry]
            it = 0
            while work:
                it += 1
                if it > 4000:
                    raise AnalysisBroken('%s: reference delta does not stabilise' % f.name)
                b = work.pop()
                cur = IN[b]
                for ev in f.blocks[b].events:
                    at[(b, ev.idx)] = cur
                    if ev.kind == 'CALL':
                        if ev.callee == 'qb_ipcs_connection_ref' and _arg_is(ev, v):
                            cur += 1
                        elif ev.callee == 'qb_ipcs_connection_unref' and _arg_is(ev, v):
                            cur -= 1
                    elif ev.kind in ('STORE', 'DECL'):
                        rhs = ev.rhs if ev.kind == 'STORE' else ev.d.get('init')
                        tgt = estr(ev.lhs) if ev.kind == 'STORE' else ev.d['var']
                        if tgt == v and rhs is not None and callee_of(unwrap(rhs)) == 'qb_ipcs_connection_alloc':
                            cur = 1      # owns the allocation reference
                        elif tgt == v and rhs is not None:
                            cur = 0      # the variable now names another connection
                    if ev.kind == 'CALL' and ev.callee in ('qb_list_add', 'qb_list_add_tail') and len(ev.args) == 2 and \
                            root_var(ev.args[0]) is not None and root_var(ev.args[0])['n'] == v and field_is(ev.args[1], 'connections'):
                        cur -= 1         # published: the allocation reference now belongs to the connection's life cycle (qb_ipcs_disconnect drops it)
                cur = max(cur, -3)
                blk = f.blocks[b]
                for (t, lab) in blk.succs:
                    if blk.cond is not None and lab in (True, False) and any(a_.op == '==' and a_.rc == 0 and a_.ls == v for a_ in atoms_of(blk.cond, lab)):
                        continue        # v == NULL: there is no object on this edge
                    new = cur if t not in IN else min(IN[t], cur)
                    if t not in IN or new != IN[t]:
                        IN[t] = new
                        work.append(t)
            # remember the delta at calls of static helpers that take the connection
            for ev in f.events('CALL'):
                if ev.callee in prog.fns and _arg_is(ev, v) and (ev.blk, ev.idx) in at:
                    call_deltas.setdefault(ev.callee, []).append(at[(ev.blk, ev.idx)])
            if not rel:
                continue
            # touches
            bad = []
            touches = 0
            for ev in f.events():
                if ev.kind == 'LOAD':
                    e = unwrap(ev.e)
                    if e.get('k') != 'mem' or root_var(e) is None or root_var(e)['n'] != v:
                        continue
                elif ev.kind == 'STORE':
                    if root_var(ev.lhs) is None or root_var(ev.lhs)['n'] != v or unwrap(ev.lhs).get('k') == 'var':
                        continue
                elif ev.kind == 'CALL':
                    if not _arg_is(ev, v) or ev.callee in ('qb_ipcs_connection_unref',):
                        continue
                else:
                    continue
                def reassigned(x, v=v):
                    return (x.kind == 'STORE' and estr(x.lhs) == v) or (x.kind == 'DECL' and x.d['var'] == v)
                prior = []
                for r in rel:
                    if r is ev or not f.may_follow(r, ev):
                        continue
                    hits, _e, _n = f.search(('after', r), goal=lambda x, ev=ev: x is ev, stop=reassigned)
                    if hits:
                        prior.append(r)
                if not prior:
                    continue
                touches += 1
                dlt = at.get((ev.blk, ev.idx))
                if dlt is None:
                    continue
                if dlt < 1:
                    # an unref that is the function's own last reference is allowed to be followed only by nothing;
                    # everything else after a may-release call needs delta >= 1
                    bad.append((ev, dlt, prior[0]))
            n_sites += 1
            ctx.check('R4', '%s:%s' % (f.name, v), not bad, bad[0][0] if bad else rel[0],
                      '%d accesses to %s after calls that may release it are all made while holding an own reference' % (touches, v),
                      'the connection is touched with no own reference held (delta %s) after %s may have dropped the last one: use-after-free when a callback disconnects' % (
                          bad[0][1] if bad else '', repr(bad[0][2])[:120] if bad else ''),
                      {'touch': repr(bad[0][0]) if bad else None})
            # balanced at exit (functions that own nothing must not leak or over-drop)
            ex = IN.get(f.exit)
            want = entry
            if f.name == 'handle_new_connection':
                want = None   # ownership passes to the connection list or is dropped per path
            if f.name in OWNS_AT_ENTRY:
                want = None
            if want is not None and ex is not None:
                ctx.check('R4', '%s:%s:balanced' % (f.name, v), ex == want, f, 'own references are balanced at exit (entry %d, min over paths at exit %d)' % (entry, ex),
                          'reference count delta at exit is %d on some path (over-drop frees a connection others still use)' % ex)
    if n_sites == 0:
        raise AnalysisBroken('R4: no bracket sites found')


def r5(ctx):
    prog = ctx.prog
    for name in ('qb_ipcs_connection_first_get', 'qb_ipcs_connection_next_get'):
        f = prog.fn(name)
        rets = [ev for ev in f.returns() if ev.e is not None and cval(unwrap(ev.e)) != 0]
        ok = bool(rets)
        for r in rets:
            v = estr(unwrap(r.e))
            refs = [ev for ev in f.calls('qb_ipcs_connection_ref') if _arg_is(ev, v)]
            ok = ok and any(f.ev_dominates(x, r) for x in refs)
        ctx.check('R5', name, ok, f, '%s references the connection it returns' % name, '%s hands out a connection without taking a reference' % name)


def r6(ctx):
    prog = ctx.prog
    a = prog.fn('qb_ipcs_connection_alloc')
    refs = list(a.calls('qb_ipcs_ref'))
    rets = [ev for ev in a.returns() if ev.e is not None and cval(unwrap(ev.e)) != 0]
    ctx.check('R6', 'alloc-takes-service-ref', bool(refs) and all(any(a.ev_dominates(x, r) for x in refs) for r in rets), a,
              'every allocated connection holds a service reference', 'a connection is allocated without a service reference')
    u = prog.fn('qb_ipcs_uc_recv_and_auth')
    refs = list(u.calls('qb_ipcs_ref'))
    adds = list(u.calls('qb_ipcs_poll_handlers::dispatch_add'))
    ctx.check('R6', 'pending-auth-takes-service-ref', bool(refs) and all(any(u.ev_dominates(x, r) for x in refs) for r in adds), u,
              'a pending handshake holds a service reference while it is registered', 'a pending handshake is registered without a service reference')
    d = prog.fn('destroy_ipc_auth_data')
    ctx.check('R6', 'pending-auth-drops-service-ref', any(True for _ in d.calls('qb_ipcs_unref')), d, 'destroying the handshake record drops its service reference',
              'the handshake record never drops its service reference (service leaks)')
    f = prog.fn('qb_ipcs_unref')
    frees = list(f.calls('free'))
    ok = bool(frees)

    def last(a_, fb):
        if dec_and_test_atom(a_, 'qb_ipcs_service', 'ref_count'):
            return True
        if a_.op == '!=' and a_.rc == 0 and unwrap(a_.l).get('k') == 'var':
            defs, entry = f.reaching_defs(unwrap(a_.l)['n'], f.end_of(fb.id))
            return bool(defs) and not entry and all(
                any(refcount_op(n, 'qb_ipcs_service', 'ref_count') for n in walk(dd.rhs if dd.kind == 'STORE' else dd.d.get('init') or {})) for dd in defs)
        return False
    for fr in frees:
        ok = ok and f.uncut_path(fr, last) is None
    ctx.check('R6', 'service-freed-under-last-ref', ok, frees[0] if frees else f, 'the service is freed only when its count reaches zero', 'the service can be freed while referenced')
    owners = {'qb_ipcs_connection_unref', 'destroy_ipc_auth_data', 'qb_ipcs_destroy', 'qb_ipcs_run'}
    callers = prog.callers_of('qb_ipcs_unref')
    bad = [(g, ev) for (g, ev) in callers if g.name not in owners]
    ctx.check('R6', 'service-unref-owners', bool(callers) and not bad, bad[0][1] if bad else None,
              'qb_ipcs_unref is called only by the owners of a service reference %s' % sorted(owners), 'qb_ipcs_unref is also called from %s' % sorted({g.name for (g, _e) in bad}))
