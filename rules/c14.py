"""C14 - blackbox records reproduce the logged message as printf would."""
from engine.qb import (AnalysisBroken, abstract_run, estr, unwrap, cval, walk, last_field, fields_of, callee_of,
                       mentions_var, atoms_of, root_var)
from engine.bounds import Analysis, Lin, State
from rules.common import field_is, has_call, derives, value_sources

UNITS = ['lib/log_format.c', 'lib/log_blackbox.c', 'lib/ringbuffer.c', 'lib/strlcpy.c']
TECHNIQUE = ('static analysis: abstract interpretation over linear inequalities for every encoder/decoder store, per-directive '
             'finite evaluation of both switch tables (bytes appended vs. consumed), upward-exposed-use analysis of the directive loops')
DECIDES = ('Decides that every store of the encoder stays within max_len and every store of the decoder within str_len / the '
           'one-directive format buffer, that encoder and decoder accept the same conversions and move the same number of argument '
           'bytes for each (per long/long long variant), that no per-directive state leaks into the next directive, and that the '
           'blackbox reserves what the encoder may use; equality with printf\'s text for every format/argument is not decided.')
RULES = {
    'R1': 'encoder: every store into serialize is within max_len (fixed-width cases by their location + sizeof(T) > max_len guards, string cases by the MIN(..., max_len - location) size with room left)',
    'R2': 'decoder: every store into string is within str_len and every store into fmt within MINI_FORMAT_STR_LEN; no size argument wraps',
    'R3': 'encoder and decoder handle the same conversion characters, and for each (conversion, long/long long) the bytes appended equal the bytes consumed',
    'R4': 'no state leaks from one directive to the next: locals read in an iteration before being written in it are only the cursors',
    'R5': 'the blackbox reserves header + max_line_length and every serialize call is given at most max_line_length (= C11.R3)',
    'R6': 'encoder and decoder agree on where the arguments start: the decoder looks behind the stored format\'s terminator, so wherever the encoder shortens the stored format (stores a NUL into it) it moves its argument cursor back on the same path',
    'R7': 'the decoder hands snprintf only directives printf accepts: the value of a \'*\' argument is pasted into the rebuilt directive only where it is non-negative or does not follow the precision dot (a negative precision means "none given")',
    'R8': 'the buffer the decoder rebuilds a directive in holds the longest directive without repeated flags: % + every flag character of its switch once + two \'*\' values of 11 characters + the dot + a two-letter length modifier + the conversion + NUL',
    'R9': 'the encoder reads a string argument that has a precision the way printf does: wherever the precision flag of the directive is set (also through \'*\') the argument is not handed to anything that measures it without bound (strlen, the strl* wrappers, strcpy)',
    'R10': 'the decoder appends at its own write position: nothing is added to the output with a function that looks for the end of the string (strcat, strlcat and their wrappers) - a "%c" argument of 0 puts a NUL into the output, and text appended "at the end of the string" lands on top of what was written behind it',
    'R11': 'a conversion the encoder does not know ends the argument list: the edge of its directive switch that no case takes leads out of the function, not back into the scanning loop - how much an unknown conversion takes from the list is unknown, and every argument behind it would be taken for something it is not (a number for the pointer of a %s)',
    'R12': 'the decoder steps over what the encoder stored: behind a string argument the data position advances by the length of the stored string (a strlen of the stored bytes, plus its terminator) - not by what printing it produced, which a field width makes longer and a precision shorter; every later argument would be read from the wrong place',
    'R13': 'the bounded copy the encoder and the decoder rely on keeps its bound: every write of the library\'s own strlcpy (compiled in where the C library has none) lies below dest + maxlen - a source of exactly maxlen characters does not put its terminator one byte behind the record / the text buffer',
}
FLOORS = {'R1': 12, 'R2': 20, 'R3': 20, 'R4': 2, 'R5': 12, 'R6': 1, 'R7': 1, 'R8': 1, 'R9': 2, 'R10': 1, 'R11': 1, 'R12': 1, 'R13': 2}


def strl_summary(an, ev, st):
    a = ev.args
    n = an.lin(a[2], st)
    an.check_nowrap(ev, a[2], st, ev.callee)
    if n is not None:
        an.check_write(ev, a[0], n, st, '%s(%s, ..., %s)' % (ev.callee, estr(a[0]), estr(a[2])))
    else:
        mm = an.minmax(a[2])
        if mm and mm[0] == 'min':
            # the copy size is min(x, y): it is at most either operand; one operand that fits is enough
            d = an.dest(a[0], st)
            sides = [(side, an.lin(side, st)) for side in (mm[1], mm[2])]
            sides = [(sd, ls) for (sd, ls) in sides if ls is not None]
            if d is not None and sides:
                buf, off = d
                cap = an.buffers[buf]
                fit = [(sd, ls) for (sd, ls) in sides if st.entails(off + ls - cap)]
                sd, ls = fit[0] if fit else sides[0]
                an.check_nowrap(ev, sd, st, ev.callee)
                an.check_write(ev, a[0], ls, st, '%s(%s, ..., min(.., %s))' % (ev.callee, estr(a[0]), estr(sd)))
                return
        d = an.dest(a[0], st)
        if d is not None:
            an.oblige(ev, '%s:size-known' % ev.callee, None, st, '%s into %s with a size the analysis cannot bound: %s' % (ev.callee, d[0], estr(a[2])))


class EncAnalysis(Analysis):
    """result contract of the repo's strl wrappers:  0 <= r <= size - 1 when size >= 1"""
    extra_nonneg = ('my_strlcpy', 'my_strlcat')

    def _apply_result(self, st, name, call, op):
        size = call['args'][2]
        mm = self.minmax(size)
        sides = [size] if not mm else ([mm[1], mm[2]] if mm[0] == 'min' else [])
        bounds = []
        all_ge1 = bool(sides)
        for sd in sides:
            ls = self.lin(sd, st)
            if ls is None:
                # strlen(x) + 1 and the like: unknown but >= 1
                u = unwrap(sd)
                ge1 = u.get('k') == 'bin' and u['op'] == '+' and cval(unwrap(u['r'])) is not None and cval(unwrap(u['r'])) >= 1
                all_ge1 = all_ge1 and ge1
                continue
            if not st.entails_le(1, ls):
                all_ge1 = False
            bounds.append(ls)
        r = Lin.term('#r')
        tmp = st
        if op == '=':
            tmp.forget(name)
            tmp.add_le(0, Lin.term(name))
            if all_ge1:
                for b in bounds:
                    if name not in b.t:
                        tmp.add_le(Lin.term(name), b - 1)
        else:   # +=
            # name' = name + r, 0 <= r <= b - 1
            if all_ge1 and bounds:
                b = bounds[-1] if len(bounds) == 1 else min(bounds, key=lambda x: len(x.t))
                # pick the bound that mentions name (max_len - location) if any
                for cand in bounds:
                    if name in cand.t:
                        b = cand
                tmp.add_le(0, r)
                tmp.add_le(r, b - 1)
                tmp.assign(name, Lin.term(name) + r)
                tmp.forget('#r')
            else:
                keep = [f for f in tmp.facts if f.t.get(name, 0) <= 0]
                tmp.facts, tmp._keys = [], set()
                for f in keep:
                    tmp.add(f)

    def transfer(self, ev, st):
        if ev.kind in ('STORE', 'DECL'):
            rhs = ev.rhs if ev.kind == 'STORE' else ev.d.get('init')
            r = unwrap(rhs) if rhs is not None else {}
            plus1 = 0
            if r.get('k') == 'bin' and r['op'] == '+' and cval(unwrap(r['r'])) is not None and callee_of(unwrap(r['l'])) in ('my_strlcpy', 'my_strlcat'):
                plus1 = cval(unwrap(r['r']))
                r = unwrap(r['l'])
            if callee_of(r) == 'strnlen' and len(r['args']) == 2 and (ev.kind == 'DECL' or (unwrap(ev.lhs).get('k') == 'var' and ev.d['op'] == '=')):
                # 0 <= strnlen(s, m) <= m ; m = min(a, b) bounds it by both
                name = ev.d['var'] if ev.kind == 'DECL' else unwrap(ev.lhs)['n']
                self.check_nowrap(ev, r['args'][1], st, 'initialiser of %s' % name)
                mm = self.minmax(r['args'][1])
                sides = [r['args'][1]] if not mm else ([mm[1], mm[2]] if mm[0] == 'min' else [])
                bounds = [self.lin(sd, st) for sd in sides]
                st.forget(name)
                st.add_le(0, Lin.term(name))
                for b in bounds:
                    if b is not None and name not in b.t:
                        st.add_le(Lin.term(name), b)
                return
            if callee_of(r) in ('my_strlcpy', 'my_strlcat') and (ev.kind == 'DECL' or unwrap(ev.lhs).get('k') == 'var'):
                name = ev.d['var'] if ev.kind == 'DECL' else unwrap(ev.lhs)['n']
                op = '=' if ev.kind == 'DECL' else ev.d['op']
                if op in ('=', '+='):
                    self._apply_result(st, name, r, op)
                    if plus1:
                        st.assign(name, Lin.term(name) + plus1)
                    return
        super().transfer(ev, st)


def decoder_family(prog):
    """(implementation, names): the decoder is entered through qb_vsnprintf_deserialize; a function that only hands its
    parameters to another one and returns its result is a wrapper, the function with the directive switch is the
    implementation.  names = the implementation and every wrapper of it in the analysed units."""
    def forwards_to(f):
        cs = [ev for ev in f.calls() if prog.has_fn(ev.callee)]
        rets = f.returns()
        if len(cs) != 1 or len(rets) != 1 or _switch_block_or_none(f) is not None:
            return None
        r = unwrap(rets[0].e) if rets[0].e is not None else {}
        if callee_of(r) != cs[0].callee:
            return None
        pn = [q['n'] for q in f.params]
        if [estr(unwrap(a)) for a in cs[0].args[:len(pn)]] != pn:
            return None
        return cs[0].callee
    f = prog.fn('qb_vsnprintf_deserialize')
    names = {f.name}
    for _ in range(4):
        t = forwards_to(f)
        if t is None:
            break
        f = prog.fn(t)
        names.add(t)
    for g in prog.all_fns():
        if g.name not in names and forwards_to(g) in names:
            names.add(g.name)
    return f, names


def _switch_block_or_none(f):
    sws = [b for b in f.blocks.values() if any(isinstance(lab, tuple) and lab[0] == 'case' for (_t, lab) in b.succs)]
    return sws[0] if sws else None


def report(ctx, an, fname, rule):
    n = 0
    for (ev, key, text, ok) in an.obligations:
        n += 1
        ctx.check(rule, '%s:%s' % (fname, key), ok, ev, 'entailed', text)
    return n


def decoder_stores(ctx, rule):
    """every store of the decoder is inside the caller's buffer (used by C14 as R2, and by C15, whose printer decodes what a file holds)"""
    prog = ctx.prog
    # decoder (API contract: str_len >= 1)
    d, dnames = decoder_family(prog)
    sp, lp = d.params[0]['n'], d.params[1]['n']
    fmt_arr = [ev for ev in d.events('DECL') if prog.type_info(ev.d.get('ty', '')).get('kind') == 'array']
    bufs = {sp: Lin.term(lp)}
    for ev in fmt_arr:
        ti = prog.type_info(ev.d['ty'])
        bufs[ev.d['var']] = Lin(ti['n'])
    an = EncAnalysis(prog, d, bufs, init=[Lin(1) - Lin.term(lp)], summaries={'my_strlcpy': strl_summary, 'my_strlcat': strl_summary}).run()
    import os, sys
    if os.environ.get('QBDBG'):
        for (b, i), sts in sorted(an.states.items()):
            ev = d.blocks[b].events[i]
            if ev.ln in (int(x) for x in os.environ['QBDBG'].split(',')):
                for st in sts:
                    print('DBGSTATE', ev.ln, ev.kind, [f for f in st.facts if 'fmt_pos' in f.t or 'mod_pos' in f.t], file=sys.stderr)
    n = report(ctx, an, 'deserialize', rule)
    if n < 20:
        raise AnalysisBroken('qb_vsnprintf_deserialize: only %d store obligations' % n)
    ctx.note('decoder analysed under the API contract str_len >= 1 (every in-tree caller passes a constant >= 1)')
    for (g, ev) in [x for nm in sorted(dnames) for x in prog.callers_of(nm)]:
        if g.name in dnames:
            continue
        c = cval(unwrap(ev.args[1]))
        ctx.check(rule, 'deserialize:caller-capacity:%s' % g.name, c is not None and c >= 1, ev, 'the caller passes a constant capacity %s' % c,
                  'the caller passes a capacity the rule cannot see to be >= 1')
    return d


def run(ctx):
    prog = ctx.prog
    # helpers: return <= maxlen - 1 under maxlen >= 1
    for hn in ('my_strlcpy', 'my_strlcat'):
        if hn != 'my_strlcpy' and not prog.has_fn(hn):
            continue        # only the copy wrapper is needed; the append wrapper exists in older trees
        h = prog.fn(hn)
        d, m = h.params[0]['n'], h.params[2]['n']
        an = Analysis(prog, h, {d: Lin.term(m)}, init=[Lin(1) - Lin.term(m)]).run()
        report(ctx, an, hn, 'R1')
        okr = bool(an.returns) and all(v is None and False or True for (_e, _s, v) in an.returns)
        # the returned value is MIN(rc, maxlen - 1)
        rets = h.returns()
        ok = len(rets) == 1 and an.minmax(rets[0].e) is not None and an.minmax(rets[0].e)[0] == 'min' and \
            any(estr(x) == '(%s - 1)' % m for x in an.minmax(rets[0].e)[1:])
        ctx.check('R1', '%s:returns<=maxlen-1' % hn, ok, h, '%s returns min(result, maxlen - 1): the number of characters actually stored' % hn,
                  '%s returns the would-be length: cursors advanced by it leave the buffer' % hn)
    # encoder
    e = prog.fn('qb_vsnprintf_serialize')
    sp, mp = e.params[0]['n'], e.params[1]['n']
    # API contract: 1 <= max_len <= 2^31 - 1 (the encoder's cursor is a uint32_t and `location + 1 > max_len` is evaluated in
    # 32-bit arithmetic, which is only meaningful then; every in-tree caller passes max_line_length in [4, 4096], checked by
    # R5 and C13.R4)
    CAP31 = Lin.term(mp) - Lin(2 ** 31 - 1)
    an = EncAnalysis(prog, e, {sp: Lin.term(mp)}, init=[Lin(1) - Lin.term(mp), CAP31], summaries={'my_strlcpy': strl_summary, 'my_strlcat': strl_summary}).run()
    n = report(ctx, an, 'serialize', 'R1')
    if n < 10:
        raise AnalysisBroken('qb_vsnprintf_serialize: only %d store obligations' % n)
    # the value returned never exceeds max_len when max_len >= 1
    an1 = EncAnalysis(prog, e, {sp: Lin.term(mp)}, init=[Lin(1) - Lin.term(mp), CAP31], summaries={'my_strlcpy': strl_summary, 'my_strlcat': strl_summary}).run()
    okr = bool(an1.returns) and all(v is not None and st.entails_le(v, Lin.term(mp)) for (_ev, st, v) in an1.returns)
    ctx.check('R1', 'serialize:returns<=max_len', okr, e, 'the encoder reports a length <= max_len (for max_len >= 1)',
              'the encoder can report more bytes than max_len: the blackbox commits a chunk longer than it reserved')
    d = decoder_stores(ctx, 'R2')
    r3(ctx, e, d)
    r4(ctx, e, d)
    r5(ctx)
    r6(ctx, e)
    r7(ctx, d)
    r9(ctx, e)
    r10(ctx, d)
    r11(ctx, e)
    r12(ctx, d)
    r13(ctx)


def _switch_block(f):
    sws = [b for b in f.blocks.values() if b.term == 'SwitchStmt']
    if len(sws) != 1:
        raise AnalysisBroken('%s: switch statements = %d' % (f.name, len(sws)))
    return sws[0]


def _case_targets(f, sw):
    out = {}
    for (t, lab) in sw.succs:
        if isinstance(lab, tuple) and lab[0] == 'case':
            for v in range(lab[1], lab[2] + 1):
                out[chr(v)] = t
    return out


def _moves(f, start, cursor, flags, barrier):
    """for each (type_long, type_longlong) setting: the multiset of constant increments of `cursor` and whether a string move happens,
    from the case target until the directive ends (barrier blocks)"""
    res = {}
    for (tl, tll) in ((0, 0), (1, 0), (0, 1)):
        env = {flags[0]: tl, flags[1]: tll}
        visits, terms = abstract_run(f, env, tracked=set(flags), start=start, barrier=barrier)
        incs = []
        strmove = False
        seen = set()
        for (ev, env2) in visits:
            if ev.kind == 'STORE' and estr(ev.lhs) == cursor and id(ev.d) not in seen:
                seen.add(id(ev.d))
                if ev.d['op'] == '++':
                    incs.append(1)
                elif ev.d['op'] == '+=':
                    c = cval(unwrap(ev.rhs))
                    if c is not None:
                        incs.append(c)
                    else:
                        strmove = True
        res[(tl, tll)] = (tuple(sorted(incs)), strmove)
    return res


def r3(ctx, e, d):
    esw, dsw = _switch_block(e), _switch_block(d)
    ec, dc = _case_targets(e, esw), _case_targets(d, dsw)
    only_e = sorted(set(ec) - set(dc))
    only_d = sorted(set(dc) - set(ec))
    ctx.check('R3', 'same-alphabet', not only_e and not only_d, e, 'encoder and decoder switch on the same %d characters' % len(ec),
              'conversion characters handled by only one side: encoder-only %s decoder-only %s' % (only_e, only_d))
    # barrier: the block that re-enters the switch ("reprocess") and the loop head; find blocks that dominate the switch and are loop headers
    def barriers(f, sw):
        loops = f.natural_loops()
        return {h for h in loops if sw.id in loops[h]} | {sw.id}
    eb, db = barriers(e, esw), barriers(d, dsw)
    # the two length-modifier flags, by role rather than by name: booleans (every store is a constant) of which the first is
    # raised by an 'l' seen with all flags clear, the second by an 'l' seen with the first one set
    def flagnames(f, tg, barrier):
        cand = set()
        for ev in f.events('STORE'):
            l = unwrap(ev.lhs)
            if l.get('k') == 'var' and l.get('sc') == 'l':
                cand.add(l['n'])
        for ev in f.events('STORE'):
            l = unwrap(ev.lhs)
            if l.get('k') == 'var' and l['n'] in cand and (ev.d['op'] != '=' or cval(unwrap(ev.rhs)) is None):
                cand.discard(l['n'])
        if 'l' not in tg:
            raise AnalysisBroken('%s: no case for the l modifier' % f.name)

        # 'l' raises the first flag at once (in the block the case label starts) and the second one only when another 'l' follows
        visits, _t = abstract_run(f, {}, tracked=set(), start=tg['l'], barrier=barrier)
        ups = [(ev, estr(ev.lhs)) for (ev, _e) in visits if ev.kind == 'STORE' and estr(ev.lhs) in cand and cval(unwrap(ev.rhs)) not in (0, None)]
        # raised at once = on every way from the case label back to the switch; conditionally = on some only
        def always(name):
            stores = [ev for (ev, n) in ups if n == name]
            hits, _e, _n = f.search(('block', tg['l']), goal=lambda ev: ev.kind == 'BARRIER', stop=lambda ev: any(ev is s_ for s_ in stores),
                                    edge_filter=lambda fb, t, lab: True)
            # reachability of a barrier block without passing a store
            seen, work = set(), [(tg['l'], 0)]
            while work:
                b, i = work.pop()
                if (b, i) in seen:
                    continue
                seen.add((b, i))
                blk = f.blocks[b]
                stopped = False
                for ev in blk.events[i:]:
                    if any(ev is s_ for s_ in stores):
                        stopped = True
                        break
                if stopped:
                    continue
                for (t, _l) in blk.succs:
                    if t in barrier:
                        return False
                    work.append((t, 0))
            return True
        names = {n for (_ev, n) in ups}
        lng = {n for n in names if always(n)}
        sec = names - lng
        if len(lng) != 1 or len(sec) != 1:
            raise AnalysisBroken('%s: the l modifier raises %s at once and %s conditionally (expected one flag each)' % (f.name, sorted(lng), sorted(sec)))
        return [lng.pop(), sec.pop()]

    def index_cursor(f, base):
        # the variable that indexes the parameter `base`
        names = set()
        for ev in f.events():
            for root in (ev.e, ev.lhs, ev.rhs):
                if root is None:
                    continue
                for n in walk(root):
                    if n.get('k') == 'idx' and estr(n['b']) == base and unwrap(n['i']).get('k') == 'var':
                        names.add(unwrap(n['i'])['n'])
        if len(names) != 1:
            raise AnalysisBroken('%s: %s is indexed by %s (expected one cursor)' % (f.name, base, sorted(names)))
        return names.pop()
    ef, df = flagnames(e, ec, eb), flagnames(d, dc, db)
    ecur = index_cursor(e, e.params[0]['n'])        # where the encoder appends
    dcur = index_cursor(d, d.params[2]['n'])        # where the decoder consumes
    # a flag / width / length modifier goes back into the switch for the next character of the same directive; a conversion
    # finishes the directive and goes round the scanning loop (by role, so that a new modifier needs no table here)
    def modifiers(f, sw, tg):
        loops = f.natural_loops()
        hs = [h for h in loops if sw.id in loops[h]]
        outer = max(hs, key=lambda h: len(loops[h]))
        res = set()
        for c, start in tg.items():
            seen, work, reached = set(), [start], set()
            while work:
                b = work.pop()
                if b in seen:
                    continue
                seen.add(b)
                if (b in hs or b == sw.id) and b != start:
                    reached.add(b)
                    continue
                blk = f.blocks[b]
                if blk.noreturn or b == f.exit:
                    continue
                work.extend(t for (t, _l) in blk.succs)
            if reached and outer not in reached:
                res.add(c)
        return res
    emod, dmod = modifiers(e, esw, ec), modifiers(d, dsw, dc)
    both = set(ec) & set(dc)
    split = sorted((emod ^ dmod) & both)
    ctx.check('R3', 'same-modifiers', not split, e, 'both sides treat the same %d characters as flags, widths and length modifiers' % len(emod & dmod),
              'characters that are part of a directive on one side and end it on the other: %s' % split)
    FLAGS = emod | dmod
    convs = [c for c in sorted(both) if c not in FLAGS]
    if len(convs) < 10:
        raise AnalysisBroken('only %d conversions found' % len(convs))
    for c in convs:
        em = _moves(e, ec[c], ecur, ef, eb)
        dm = _moves(d, dc[c], dcur, df, db)
        if not any(v[0] or v[1] for v in em.values()) and c != '%':
            raise AnalysisBroken('encoder: %%%s appends nothing (cursor %s not recognised?)' % (c, ecur))
        bad = []
        for k in em:
            einc, estrm = em[k]
            dinc, dstrm = dm[k]
            # a string move appends strlen+1 bytes (copy + the terminator counted by location++) and is consumed as strlen+1
            if estrm != dstrm:
                bad.append('%s: encoder string move %s, decoder %s' % (k, estrm, dstrm))
            elif not estrm and sum(einc) != sum(dinc):
                bad.append('long=%d longlong=%d: encoder appends %d bytes, decoder consumes %d' % (k[0], k[1], sum(einc), sum(dinc)))
            elif estrm and (sum(einc) - 1) != sum(dinc) and not (sum(einc) == 1 and sum(dinc) == 0):
                bad.append('%s: string move extras differ (%s vs %s)' % (k, einc, dinc))
        ctx.check('R3', 'bytes-agree:%%%s' % c, not bad, '%s (%%%s)' % (e.file, c),
                  'for %%%s the encoder appends what the decoder consumes: %s' % (c, {k: v[0] for k, v in em.items()}),
                  'for %%%s encoder and decoder disagree: %s' % (c, '; '.join(bad)))
    # the '*' width argument
    if '*' in ec and '*' in dc:
        em = _moves(e, ec['*'], ecur, ef, eb)
        dm = _moves(d, dc['*'], dcur, df, db)
        ok = em[(0, 0)] == dm[(0, 0)]
        ctx.check('R3', 'bytes-agree:*', ok, e, 'the * width argument is stored and consumed as the same number of bytes', 'the * width argument: %s vs %s' % (em[(0, 0)], dm[(0, 0)]))
    # both sides advance the format past a finished conversion
    for (f, sw, tg) in ((e, esw, ec), (d, dsw, dc)):
        notadv = []
        fr = root_var(sw.cond)
        if fr is None:
            raise AnalysisBroken('%s: the switch is not on a format cursor' % f.name)
        fcur = fr['n']
        for c in convs:
            visits, _t = abstract_run(f, {}, tracked=set(), start=tg[c], barrier={h for h in f.natural_loops() if sw.id in f.natural_loops()[h]})
            adv = any(ev.kind == 'STORE' and estr(ev.lhs) == fcur and ev.d['op'] in ('++', '+=', '=') for (ev, _env) in visits)
            if not adv and f is e and c in ('c', 's', 'p'):
                # the encoder leaves the conversion letter to strchrnul(): harmless because none of them is '%'
                continue
            if not adv:
                notadv.append(c)
        ctx.check('R3', '%s:format-advances' % f.name, not notadv, f, 'every conversion steps over its letter (or leaves a non-% letter to the scan)',
                  'conversions %s do not advance the format cursor: the same directive is parsed again' % notadv)


def r4(ctx, e, d, rule='R4', example='a %.3s precision also truncates the following %s'):
    """upward-exposed uses in the directive loop"""
    for f in (e, d):
        loops = f.natural_loops()
        sw = _switch_block(f)
        outer = [h for h in loops if sw.id in loops[h]]
        if not outer:
            raise AnalysisBroken('%s: directive loop not found' % f.name)
        hdr = max(outer, key=lambda h: len(loops[h]))
        body = loops[hdr]
        # locals assigned somewhere in the loop
        assigned = {}
        for bid in body:
            for ev in f.blocks[bid].events:
                if ev.kind == 'STORE' and unwrap(ev.lhs).get('k') == 'var' and unwrap(ev.lhs).get('sc') == 'l':
                    assigned.setdefault(unwrap(ev.lhs)['n'], []).append(ev)
        exposed = set()
        for v in assigned:
            # a cursor (input position, output position) is legitimately carried: it is only ever advanced in the loop,
            # never set.  Anything that is *set* by one directive is per-directive state.
            def mentions(rhs, name):
                return rhs is not None and any(n.get('k') == 'var' and n['n'] == name for n in walk(rhs))

            def advance(ev, v=v):
                if ev.d['op'] in ('++', '+=', '--', '-='):
                    return True
                # v = g(v), or v = w with every in-loop definition of w computed from v  (format = p; p = strchrnul(format, '%'))
                if ev.d['op'] == '=' and mentions(ev.rhs, v):
                    return True
                ws = [n['n'] for n in walk(ev.rhs) if n.get('k') == 'var'] if ev.rhs is not None else []
                return ev.d['op'] == '=' and bool(ws) and all(w in assigned and all(mentions(x.rhs, v) for x in assigned[w]) for w in ws)
            if all(advance(ev) for ev in assigned[v]):
                continue
            # is there a read of v in the body reachable from the loop head without passing a plain assignment of v?
            def is_kill(ev, v=v):
                # a declaration starts a new object (the case blocks declare locals of the same name)
                return (ev.kind == 'STORE' and estr(ev.lhs) == v and ev.d['op'] == '=') or (ev.kind == 'DECL' and ev.d['var'] == v)

            def is_use(ev, v=v):
                if ev.kind == 'LOAD' and estr(ev.e) == v:
                    return True
                if ev.kind == 'STORE' and estr(ev.lhs) == v and ev.d['op'] != '=':
                    return True
                return False
            hits, _e2, _n = f.search(('block', hdr), goal=is_use, stop=is_kill, edge_filter=lambda fb, t, lab: t in body)
            hits = [h for h in hits if h[0].blk in body]
            if hits:
                exposed.add(v)
        ctx.check(rule, '%s:no-carried-directive-state' % f.name, not exposed, f,
                  'every per-directive local is (re)initialised before it is read in an iteration',
                  'state carried from one directive into the next: %s (e.g. %s)' % (sorted(exposed), example))


def r5(ctx):
    prog = ctx.prog
    f = prog.fn('_blackbox_vlogger')
    calls = list(f.calls('qb_vsnprintf_serialize'))
    if not calls:
        raise AnalysisBroken('_blackbox_vlogger: no serialize call')
    al = [st for st in f.events('STORE') if st.rhs is not None and callee_of(unwrap(st.rhs)) == 'qb_rb_chunk_alloc']
    if len(al) != 1:
        raise AnalysisBroken('_blackbox_vlogger: chunk reservations = %d' % len(al))
    sz = unwrap(unwrap(al[0].rhs)['args'][1])
    srcs, entry = value_sources(f, sz, al[0])
    addends = set()
    for s_ in srcs:
        if s_.get('k') == 'bin' and s_['op'] == '+':
            addends |= {estr(unwrap(s_['l'])), estr(unwrap(s_['r']))}

    def within_line_limit(e):
        # max_line_length itself, or min(max_line_length, x) - possibly through a local
        u = unwrap(e)
        if field_is(u, 'max_line_length'):
            return True
        if u.get('k') == 'cond':
            return any(field_is(unwrap(x), 'max_line_length') for x in (u['t'], u['f'])) and \
                any(field_is(n, 'max_line_length') for n in walk(u['c']))
        if u.get('k') == 'var' and u.get('sc') == 'l':
            ss, en = value_sources(f, u, al[0])
            ss = [x for x in ss if x.get('k') != 'update']
            return bool(ss) and not en and all(x is not u and within_line_limit(x) for x in ss)
        return False
    for ev in calls:
        cap = unwrap(ev.args[1])
        ctx.check('R5', 'serialize-capacity<=reserved', estr(cap) in addends and within_line_limit(cap), ev,
                  'the encoder is given %s: what was added to the header size in the reservation, and at most max_line_length' % estr(cap),
                  'the encoder is given %s, which is not the message room that was reserved from the ring (header + %s)' % (estr(cap), ' / '.join(sorted(addends))))
    ok = any(within_line_limit({'k': 'var', 'n': a_, 'sc': 'l'}) or 'max_line_length' in a_ for a_ in addends)
    ctx.check('R5', 'reservation=header+max_line_length', ok, al[0], 'the reserved chunk is header + the message room (at most max_line_length)',
              'the reserved chunk size is not header + a message room bounded by max_line_length')
    # every copy into the reserved chunk and the committed length stay inside the reservation, fitting message or not (= C11.R3)
    from rules import c11
    sub = type(ctx)(prog, ctx.prop, ctx.tier, ctx.depth)
    c11.r3(sub)
    for r in sub.results:
        r['rule'] = 'R5'
        ctx.results.append(r)


def r6(ctx, e):
    sp = e.params[0]['n']
    # pointers into the stored format: locals assigned from a search in it
    ptrs = set()
    for st in e.events('STORE'):
        if st.rhs is not None and unwrap(st.lhs).get('k') == 'var':
            for n in walk(st.rhs):
                if n.get('k') == 'call' and callee_of(n) in ('strchr', 'strrchr', 'strchrnul', 'memchr') and n.get('args') and estr(unwrap(n['args'][0])) == sp:
                    ptrs.add(unwrap(st.lhs)['n'])
    from rules.common import const_leaves
    cuts = [st for st in e.events('STORE') if unwrap(st.lhs).get('k') == 'deref' and 0 in (const_leaves(st.rhs) or []) and
            root_var(st.lhs) is not None and root_var(st.lhs)['n'] in ptrs]
    cuts += [st for st in e.events('STORE') if unwrap(st.lhs).get('k') == 'idx' and estr(unwrap(st.lhs)['b']) == sp and cval(unwrap(st.rhs)) == 0 and False]
    # the argument cursor: the variable that indexes the stored buffer
    cur = None
    for ev in e.events():
        for root in (ev.e, ev.lhs, ev.rhs):
            if root is None:
                continue
            for n in walk(root):
                if n.get('k') == 'idx' and estr(n['b']) == sp and unwrap(n['i']).get('k') == 'var':
                    cur = unwrap(n['i'])['n']
    if cur is None:
        raise AnalysisBroken('qb_vsnprintf_serialize: argument cursor not found')
    if not cuts:
        ctx.ok('R6', 'encoder:shortening-moves-cursor', e, 'the encoder never shortens the stored format')
        return
    bad = []
    for st in cuts:
        ok, _p = e.must_pass(('after', st), lambda ev: ev.kind == 'STORE' and estr(ev.lhs) == cur and ev.d['op'] in ('--', '-='))
        # must_pass to the function exit is too strong if the function returns first; require it before the first use of the cursor as an index
        hits, _e2, _n2 = e.search(('after', st), goal=lambda ev: ev.kind in ('STORE', 'CALL', 'LOAD') and any(
            n.get('k') == 'idx' and estr(n['b']) == sp and estr(n['i']) == cur for root in (ev.e, ev.lhs, ev.rhs) if root is not None for n in walk(root)),
            stop=lambda ev: ev.kind == 'STORE' and estr(ev.lhs) == cur and ev.d['op'] in ('--', '-='))
        if hits:
            bad.append(st)
    ctx.check('R6', 'encoder:shortening-moves-cursor', not bad, bad[0] if bad else cuts[0],
              'where the stored format is shortened the argument cursor moves back before it is used',
              'the stored format is shortened (NUL stored through %s) without the argument cursor %s being moved back: the decoder, which looks for the arguments behind the stored '
              'format\'s terminator, reads every argument one byte early' % (estr(bad[0].lhs) if bad else '', cur))


def r7(ctx, d):
    prog = ctx.prog
    sw = _switch_block(d)
    tg = _case_targets(d, sw)
    if '*' not in tg:
        raise AnalysisBroken('%s: no case for *' % d.name)
    arrs = {ev.d['var']: prog.type_info(ev.d['ty']).get('n') for ev in d.events('DECL') if prog.type_info(ev.d.get('ty', '')).get('kind') == 'array'}
    if len(arrs) != 1:
        raise AnalysisBroken('%s: directive buffers = %s' % (d.name, sorted(arrs)))
    fbuf, cap = list(arrs.items())[0]
    # R7: the formatted '*' value
    pastes = []
    for ev in d.events('CALL'):
        if ev.callee in ('snprintf', 'sprintf') and ev.args and fbuf in estr(ev.args[0]):
            pastes.append(ev)
    if not pastes:
        raise AnalysisBroken('%s: the * value is not formatted into %s' % (d.name, fbuf))
    for ev in pastes:
        val = estr(unwrap(ev.args[-1]))
        curs = {unwrap(n['i'])['n'] for n in walk(ev.args[0]) if n.get('k') == 'idx' and unwrap(n['i']).get('k') == 'var'}

        def harmless(a, fb, val=val, curs=curs):
            l = unwrap(a.l)
            if a.ls == val and a.op == '>=' and a.rc == 0:
                return True
            if l.get('k') == 'idx' and estr(unwrap(l['b'])) == fbuf and a.op == '!=' and a.rc == ord('.'):
                return True
            return l.get('k') == 'var' and l['n'] in curs and a.op in ('<=', '<') and a.rc is not None and a.rc <= 1
        ctx.check('R7', 'star-value-not-a-negative-precision', d.uncut_path(ev, harmless) is None, ev,
                  'the * value is pasted only where it is >= 0 or does not follow the dot',
                  'a negative \'*\' precision is pasted into the directive ("%.*d" with -1 becomes "%.-1d", which printf does not take: the dump shows '
                  '"%.0-1d" instead of the number)')
    # R8
    mods = set()
    loops = d.natural_loops()
    hs = [h for h in loops if sw.id in loops[h]]
    outer = max(hs, key=lambda h: len(loops[h]))
    for c, start in tg.items():
        seen, work, reached = set(), [start], set()
        while work:
            b = work.pop()
            if b in seen:
                continue
            seen.add(b)
            if (b in hs or b == sw.id) and b != start:
                reached.add(b)
                continue
            blk = d.blocks[b]
            if blk.noreturn or b == d.exit:
                continue
            work.extend(t for (t, _l) in blk.succs)
        if reached and outer not in reached:
            mods.add(c)
    LENGTH = set('hlztjLq')
    flags = {c for c in mods if not c.isdigit() and c not in '.*' and c not in LENGTH}
    need = 1 + len(flags) + 11 + 1 + 11 + 2 + 1 + 1
    ctx.check('R8', 'directive-buffer-holds-a-whole-directive', cap is not None and cap >= need, d,
              '%s[%s] >= %d (%% + %d flags + two * values + dot + length modifier + conversion + NUL)' % (fbuf, cap, need, len(flags)),
              '%s[%s] is smaller than the longest directive without repeated flags (%d): the decoder ends the message where such a directive starts, '
              'silently ("%%-*.*lld" with two large values)' % (fbuf, cap, need))


def r9(ctx, e):
    sw = _switch_block(e)
    tg = _case_targets(e, sw)
    if '.' not in tg or 's' not in tg or '*' not in tg:
        raise AnalysisBroken('%s: cases for . * s not all present' % e.name)
    loops = e.natural_loops()
    barrier = {h for h in loops if sw.id in loops[h]} | {sw.id}
    # the precision flag: the local the '.' case sets to a non-zero constant
    visits, _t = abstract_run(e, {}, tracked=set(), start=tg['.'], barrier=barrier)
    flags = {estr(ev.lhs) for (ev, _env) in visits if ev.kind == 'STORE' and unwrap(ev.lhs).get('k') == 'var' and cval(unwrap(ev.rhs)) not in (0, None)}
    if len(flags) != 1:
        raise AnalysisBroken('%s: the . case sets %s (expected one precision flag)' % (e.name, sorted(flags)))
    flag = flags.pop()
    # the string argument: the char * local the 's' case takes from the argument list
    visits, _t = abstract_run(e, {}, tracked=set(), start=tg['s'], barrier=barrier)
    UNBOUNDED = ('strlen', 'my_strlcpy', 'my_strlcat', 'strlcpy', 'strlcat', 'strcpy', 'strcat', 'strdup')
    svars = {estr(ev.lhs) for (ev, _env) in visits if ev.kind == 'STORE' and unwrap(ev.lhs).get('k') == 'var' and
             str(unwrap(ev.lhs).get('ty', '')).replace('const ', '') == 'char *' and ev.rhs is not None and unwrap(ev.rhs).get('k') in ('va_arg', 'vaarg', 'call', 'other', None)}
    uses = []
    seen = set()
    for (ev, _env) in visits:
        if ev.kind != 'CALL' and not (ev.kind in ('STORE', 'DECL')):
            continue
        nodes = []
        if ev.kind == 'CALL':
            nodes = [ev.d.get('e')]
        else:
            rhs = ev.rhs if ev.kind == 'STORE' else ev.d.get('init')
            nodes = [n for n in walk(rhs)] if rhs is not None else []
        for n in nodes:
            n = unwrap(n) if n else {}
            if n.get('k') == 'call' and callee_of(n) in UNBOUNDED and any(estr(unwrap(a)) in svars for a in n.get('args', [])):
                key = (ev.d.get('id'), n.get('id'))
                if key not in seen:
                    seen.add(key)
                    uses.append((ev, callee_of(n)))
    if not svars:
        raise AnalysisBroken('%s: the string argument of the s case was not found' % e.name)

    def no_precision(a, fb):
        return a.ls == flag and a.op == '==' and a.rc == 0
    n = 0
    for (ev, cn) in uses:
        n += 1
        ctx.check('R9', 'precision-bounds-the-read:%s' % cn, e.uncut_path(ev, no_precision) is None, ev, '%s measures the argument only when no precision was given' % cn,
                  '%s measures the whole string argument although the directive has a precision: "%%.3s" on an array that is not terminated reads past '
                  'its end while the message is logged (printf looks at three bytes)' % cn)
    ctx.check('R9', 'star-precision-known', any(ev.kind == 'STORE' and estr(ev.lhs) != flag and unwrap(ev.lhs).get('k') == 'var' and flag in [a.ls for (a, _e) in e.guards(ev)]
                                                 for (ev, _env) in abstract_run(e, {}, tracked=set(), start=tg['*'], barrier=barrier)[0]), e,
              'a precision given through * is recorded for the string case', 'the * case does not record the value as the precision of a following s: "%.*s" is copied in full')
    if n < 1:
        raise AnalysisBroken('%s: no unbounded measurement of the string argument found (the no-precision path must have one)' % e.name)


def r10(ctx, d):
    prog = ctx.prog
    out = d.params[0]['n']
    CAT = ('strcat', 'strncat', 'strlcat', 'my_strlcat')

    def reaches_cat(name, depth=2):
        if name in CAT:
            return True
        if depth == 0 or not prog.has_fn(name):
            return False
        return any(ev.callee and (ev.callee in CAT or reaches_cat(ev.callee, depth - 1)) for g in prog.fns.get(name, []) for ev in g.events('CALL'))
    bad = [ev for ev in d.events('CALL') if ev.callee and reaches_cat(ev.callee) and ev.args and estr(unwrap(ev.args[0])) == out]
    bad += [ev for ev in d.events() if ev.kind in ('STORE', 'RETURN', 'DECL') and any(
        nn.get('k') == 'call' and callee_of(nn) and reaches_cat(callee_of(nn)) and nn.get('args') and estr(unwrap(nn['args'][0])) == out
        for nn in walk(ev.d.get('rhs') or ev.d.get('e') or ev.d.get('init') or {}))]
    ctx.check('R10', 'decoder-appends-at-its-position', not bad, bad[0] if bad else d, 'the output is only written at &%s[position]' % out,
              'the decoder appends to the output with %s, which starts at the first NUL of the output: after a "%%c" argument of 0 the rest of the message is written over '
              'what follows that NUL ("a%%cb%%dc" with 0, 5 decodes to "ac")' % (bad[0].callee if bad and bad[0].kind == 'CALL' else 'a strcat-like call'))


def r11(ctx, e):
    sw = _switch_block(e)
    loops = e.natural_loops()
    hs = [h for h in loops if sw.id in loops[h]]
    if not hs:
        raise AnalysisBroken('%s: directive loop not found' % e.name)
    outer = max(hs, key=lambda h: len(loops[h]))
    others = [(t, lab) for (t, lab) in sw.succs if not (isinstance(lab, tuple) and lab[0] == 'case')]
    if not others:
        raise AnalysisBroken('%s: the switch has no edge for "no case matched"' % e.name)
    back = False
    for (t, lab) in others:
        seen, work = set(), [t]
        while work:
            b = work.pop()
            if b in seen:
                continue
            seen.add(b)
            if b == outer or b == sw.id:
                back = True
                break
            blk = e.blocks[b]
            if blk.noreturn or b == e.exit:
                continue
            work.extend(x for (x, _l) in blk.succs)
    ctx.check('R11', 'unknown-conversion-ends-the-arguments', not back, '%s:%d (%s)' % (e.file, sw.term_ln, e.name),
              'when no case matches the encoder returns',
              'a conversion the encoder does not know is skipped without taking its argument and the scan goes on: every later directive gets the argument of its '
              'predecessor - "%Lf ... %s" makes strlen run on part of the long double (SIGSEGV while logging with the blackbox enabled)')


def r12(ctx, d):
    sw = _switch_block(d)
    tg = _case_targets(d, sw)
    if 's' not in tg:
        raise AnalysisBroken('%s: no s case' % d.name)
    # the data position: the variable the fixed-width cases advance by a sizeof
    adv = {}
    for st in d.events('STORE'):
        if st.d['op'] == '+=' and unwrap(st.lhs).get('k') == 'var' and unwrap(st.rhs).get('k') == 'sizeof':
            adv[estr(st.lhs)] = adv.get(estr(st.lhs), 0) + 1
    if not adv:
        raise AnalysisBroken('%s: data position not found' % d.name)
    cur = max(adv, key=adv.get)
    loops = d.natural_loops()
    barrier = {h for h in loops if sw.id in loops[h]} | {sw.id}
    # blocks of the s case: from its target to the way back into the scanning loop
    seen, work = set(), [tg['s']]
    while work:
        x = work.pop()
        if x in seen or x in barrier:
            continue
        seen.add(x)
        work += [t for (t, _l) in d.blocks[x].succs]
    others = {t for c_, t in tg.items() if c_ != 's'}
    steps = [st for b_ in sorted(seen) for st in d.blocks[b_].events if st.kind == 'STORE' and estr(st.lhs) == cur and b_ not in others]
    if not steps:
        raise AnalysisBroken('%s: the s case does not move the data position' % d.name)
    for st in steps:
        calls = [n for n in walk(st.rhs) if n.get('k') == 'call']
        ok = any(callee_of(n) in ('strlen', 'strnlen') and any(m.get('k') == 'var' and m.get('n') == cur for a in n.get('args', []) for m in walk(a)) for n in calls)
        ctx.check('R12', 'string-argument-stepped-over-by-its-stored-length', ok, st,
                  'behind a string argument the data position advances by strlen(stored bytes) + 1',
                  'behind a string argument the data position advances by %s, not by the length of the stored string: with a field width (or a precision) the printed length differs from the stored one and every later argument is read from the wrong place'
                  % estr(st.rhs))


def r13(ctx):
    prog = ctx.prog
    if not prog.has_fn('strlcpy'):
        ctx.ok('R13', 'strlcpy:from-the-C-library', 'lib/strlcpy.c', 'this configuration takes strlcpy from the C library')
        return
    h = prog.fn('strlcpy')
    dest, cap = h.params[0]['n'], h.params[2]['n']
    an = Analysis(prog, h, {dest: Lin.term(cap)}, init=[]).run()
    n = 0
    for (ev, key, text, ok) in an.obligations:
        n += 1
        ctx.check('R13', 'strlcpy:%s' % key, ok, ev, 'entailed', text + ' - the bounded copy writes behind its bound: a format, a string argument or a decoded text of exactly the size of its destination puts a NUL one byte behind the reserved record space / the text buffer')
    if n < 2:
        raise AnalysisBroken('strlcpy: only %d write obligations found' % n)
