"""C20 - handle database: stale handles rejected, destructor exactly once."""
from engine.qb import (AnalysisBroken, atoms_of, estr, unwrap, cval, walk, last_field, fields_of, callee_of, mentions_var)
from rules.common import field_is, derives, some_source, has_call, refcount_op, dec_and_test_atom, value_sources

UNITS = ['lib/hdb.c']
DECIDES = ('Decides that range test, slot lookup and check comparison cut every path to an entry access in get/put/destroy/refcount_get, '
           'that get needs ACTIVE, that the destructor has one guarded site followed by free+zeroing, that iteration goes through get, '
           'and that handle packing/unpacking constants agree; does not decide behaviour over call histories.')
RULES = {
    'R1': 'get/put/destroy/refcount_get: slot-range test, qb_array_index()==0 and the check comparison cut every path to an entry store / refcount operation / destructor / free',
    'R2': 'get: the refcount increment needs state == ACTIVE; destroy stores PENDINGREMOVAL before its put',
    'R3': 'hdb->destructor is invoked at one site, under dec_and_test(&ref_count), followed on every path by free(instance) and zeroing the entry',
    'R4': 'qb_hdb_iterator_next obtains instances only through qb_hdb_handle_get',
    'R5': 'create hands out a handle only after setting ref_count to exactly 1 (absolute store), or else every decrement is refused for EMPTY slots',
    'R6': 'a handle is destroyed once: destroy drops the creation reference only for an ACTIVE object (a second destroy on an object pending removal would drop a reference that belongs to a get)',
    'R7': 'an EMPTY slot accepts no handle: put, destroy and refcount_get cut every reference-count operation / destructor / count read with a state test that excludes EMPTY; a create that fails after claiming a slot gives the claim back',
    'R8': 'a reused slot gets a check value it has not had: the value create stores is computed from the slot\'s previous check (a generation) and the release path does not reset that field to a constant',
    'W1': 'handle packing: check << 32 | index when created; >> 32 and & UINT32_MAX when resolved; qb_handle_t is 64 bits',
    'R9': 'the destructor runs once: when the count reaches zero in qb_hdb_handle_put the slot is made non-ACTIVE before the destructor is called (so that a get from inside it is refused, as it is on the destroy path), and a put on a slot whose count is already below 1 is refused',
}
FLOORS = {'R1': 20, 'R2': 3, 'R3': 4, 'R4': 2, 'R5': 3, 'R6': 1, 'R7': 5, 'R8': 2, 'R9': 2, 'W1': 9}

PUBLIC = ['qb_hdb_handle_get', 'qb_hdb_handle_put', 'qb_hdb_handle_destroy', 'qb_hdb_handle_refcount_get']


def entry_var_of(f):
    """the local that receives the slot pointer from qb_array_index(.., &entry)"""
    names = set()
    for ev in f.calls('qb_array_index'):
        if len(ev.args) >= 3:
            a = unwrap(ev.args[2])
            if a.get('k') == 'addr' and unwrap(a['e']).get('k') == 'var':
                names.add(unwrap(a['e'])['n'])
    return names


def sensitive(f, evars):
    """events that touch the entry: stores to its fields, refcount operations,
    destructor call, free(entry->instance), memset(entry)"""
    out = []
    for ev in f.events():
        if ev.kind == 'STORE':
            lf = last_field(ev.lhs)
            if lf and lf[0] == 'qb_hdb_handle':
                out.append(('store:' + lf[1], ev))
        elif ev.kind == 'CALL':
            c = ev.callee
            if refcount_op(ev.e, 'qb_hdb_handle', 'ref_count'):
                out.append(('refcount-op:' + refcount_op(ev.e)[0], ev))
            elif c == 'qb_hdb::destructor':
                out.append(('destructor', ev))
            elif c == 'free' and ev.args and ('qb_hdb_handle', 'instance') in fields_of(ev.args[0]):
                out.append(('free-instance', ev))
            elif c in ('memset', 'memcpy') and ev.args and unwrap(ev.args[0]).get('k') == 'var' and unwrap(ev.args[0])['n'] in evars:
                out.append(('zero-entry', ev))
            elif c == 'qb_hdb_handle_put' and f.name == 'qb_hdb_handle_destroy':
                out.append(('put-from-destroy', ev))
        elif ev.kind == 'LOAD' and f.name == 'qb_hdb_handle_get':
            lf = last_field(ev.e)
            if lf == ('qb_hdb_handle', 'instance'):
                out.append(('load:instance', ev))
    return out


def run(ctx):
    prog = ctx.prog
    states = prog.enum('QB_HDB_HANDLE_STATE')
    ACTIVE = states['QB_HDB_HANDLE_STATE_ACTIVE']
    PENDING = states['QB_HDB_HANDLE_STATE_PENDINGREMOVAL']
    for name in PUBLIC:
        f = prog.fn(name)
        hparam = f.params[1]['n']
        evars = entry_var_of(f)
        if not evars:
            raise AnalysisBroken('%s: slot lookup through qb_array_index not found' % name)
        sens = sensitive(f, evars)
        if not sens:
            raise AnalysisBroken('%s: no entry access found' % name)

        def from_handle_low(x):
            return mentions_var(x, hparam) and any(n.get('k') == 'bin' and n['op'] == '&' for n in walk(x))

        def from_handle_high(x):
            return mentions_var(x, hparam) and any(n.get('k') == 'bin' and n['op'] == '>>' for n in walk(x))

        def from_count(x):
            return ('qb_hdb', 'handle_count') in fields_of(x)

        def range_atom(a, fb):
            at = f.end_of(fb.id)
            if a.op == '<':
                return derives(f, a.l, at, from_handle_low) and derives(f, a.r, at, from_count)
            if a.op == '>':
                return derives(f, a.r, at, from_handle_low) and derives(f, a.l, at, from_count)
            return False

        def lookup_atom(a, fb):
            return a.op == '==' and a.rc == 0 and callee_of(unwrap(a.l)) == 'qb_array_index'

        def check_atom(a, fb):
            at = f.end_of(fb.id)
            if a.op != '==':
                return False
            for (x, y) in ((a.l, a.r), (a.r, a.l)):
                if derives(f, x, at, from_handle_high):
                    if field_is(y, 'check', 'qb_hdb_handle'):
                        return True
                    c = cval(unwrap(y))
                    if c is not None and c & 0xFFFFFFFF == 0xFFFFFFFF:
                        return True   # the documented "nocheck" handle
            return False

        for (what, ev) in sens:
            for (cut, pred, msg) in (('range', range_atom, 'slot index < handle_count'),
                                     ('lookup', lookup_atom, 'qb_array_index() == 0'),
                                     ('check', check_atom, 'check == entry->check (or nocheck handle)')):
                path = f.uncut_path(ev, pred)
                ctx.check('R1', '%s:%s:%s' % (name, what, cut), path is None, ev,
                          '%s cuts every path to %s' % (msg, what),
                          '%s %r is reachable without %s having been established' % (what, ev, msg),
                          {'path': f.path_lines(path) if path else None})
        if name == 'qb_hdb_handle_get':
            def active_atom(a, fb):
                return a.op == '==' and a.rc == ACTIVE and field_is(a.l, 'state', 'qb_hdb_handle')
            incs = [ev for (w, ev) in sens if w == 'refcount-op:inc' or w == 'load:instance']
            if not incs:
                raise AnalysisBroken('qb_hdb_handle_get: no refcount increment')
            for ev in incs:
                path = f.uncut_path(ev, active_atom)
                ctx.check('R2', 'get:%s-needs-ACTIVE' % ('inc' if ev.kind == 'CALL' else 'instance'), path is None, ev,
                          'state == ACTIVE cuts every path to the reference being handed out',
                          'qb_hdb_handle_get hands out a reference without state == ACTIVE (a destroyed handle can be re-acquired)',
                          {'path': f.path_lines(path) if path else None})
        if name == 'qb_hdb_handle_destroy':
            puts = list(f.calls('qb_hdb_handle_put'))
            sts = [ev for ev in f.stores(field='state', rec='qb_hdb_handle')]
            ok = len(puts) == 1 and sts and all(cval(unwrap(s.rhs)) == PENDING for s in sts) and \
                any(f.ev_dominates(s, puts[0]) for s in sts)
            ctx.check('R2', 'destroy:pending-before-put', ok, puts[0] if puts else f,
                      'state = PENDINGREMOVAL dominates the final put',
                      'qb_hdb_handle_destroy does not mark the entry PENDINGREMOVAL before dropping the reference')
    r3(ctx)
    r4(ctx)
    r5(ctx)
    r6(ctx)
    r7(ctx)
    r8(ctx)
    r9(ctx)
    w1(ctx)


def r3(ctx):
    prog = ctx.prog
    sites = prog.callers().get('qb_hdb::destructor', [])
    ctx.check('R3', 'destructor-single-site', len(sites) == 1, sites[0][1] if sites else None,
              'hdb->destructor invoked at exactly one site', 'hdb->destructor invoked at %d sites' % len(sites))
    for (f, ev) in sites:
        def dec_atom(a, fb):
            return dec_and_test_atom(a, 'qb_hdb_handle', 'ref_count')
        path = f.uncut_path(ev, dec_atom)
        ctx.check('R3', 'destructor-under-dec_and_test', path is None, ev,
                  'the destructor call is cut by dec_and_test(&ref_count) being true',
                  'the destructor can run without the reference count having reached zero')
    # from the edge on which the count reached zero: free + entry invalidated on every path
    put = prog.fn('qb_hdb_handle_put')
    EMPTY = prog.enum('QB_HDB_HANDLE_STATE')['QB_HDB_HANDLE_STATE_EMPTY']
    edges = []
    for b in put.blocks.values():
        if b.cond is None:
            continue
        for (t, lab) in b.succs:
            if lab in (True, False) and any(dec_and_test_atom(a, 'qb_hdb_handle', 'ref_count') for a in atoms_of(b.cond, lab)):
                edges.append((b, t))
    if not edges:
        raise AnalysisBroken('qb_hdb_handle_put: no dec_and_test edge')
    size = prog.record('qb_hdb_handle')['size']
    for (b, t) in edges:
        st = ('edge', b.id, t)
        ok1, p1 = put.must_pass(st, lambda x: x.kind == 'CALL' and x.callee == 'free' and x.args and
                                ('qb_hdb_handle', 'instance') in fields_of(x.args[0]))
        ctx.check('R3', 'free-on-last-put', ok1, '%s:%d (qb_hdb_handle_put)' % (put.file, b.term_ln),
                  'free(entry->instance) on every path after the count reached zero',
                  'a path after the last put does not free the instance', {'path': put.path_lines(p1) if p1 else None})

        def zero_all(x):
            return x.kind == 'CALL' and x.callee == 'memset' and cval(unwrap(x.args[1])) == 0 and cval(unwrap(x.args[2])) == size
        ok2, p2 = put.must_pass(st, zero_all)
        if not ok2:
            # alternative shape: state = EMPTY and check = 0 stored individually on every path
            oka, _pa = put.must_pass(st, lambda x: x.kind == 'STORE' and field_is(x.lhs, 'state', 'qb_hdb_handle') and cval(unwrap(x.rhs)) == EMPTY)
            okb, _pb = put.must_pass(st, lambda x: x.kind == 'STORE' and field_is(x.lhs, 'check', 'qb_hdb_handle') and cval(unwrap(x.rhs)) == 0)
            # ... or the check value is kept on purpose (generation) and EMPTY alone invalidates: then every public entry point
            # must refuse an EMPTY slot (R7 checks that; here only that it holds)
            okc = _all_refuse_empty(prog, EMPTY)
            ok2 = oka and (okb or okc)
        ctx.check('R3', 'invalidate-on-last-put', ok2, '%s:%d (qb_hdb_handle_put)' % (put.file, b.term_ln),
                  'the entry is invalidated (zeroed: state EMPTY, check 0) on every path after the count reached zero',
                  'a path after the last put leaves the entry state/check intact (stale handles would still resolve)',
                  {'path': put.path_lines(p2) if p2 else None})
    # every free of an instance is under dec_and_test as well
    for f in prog.all_fns(files={'lib/hdb.c'}):
        for ev in f.calls('free'):
            if ev.args and ('qb_hdb_handle', 'instance') in fields_of(ev.args[0]):
                def dec_atom2(a, fb):
                    return dec_and_test_atom(a, 'qb_hdb_handle', 'ref_count')
                path = f.uncut_path(ev, dec_atom2)
                ctx.check('R3', 'free-under-dec_and_test:%s' % f.name, path is None, ev,
                          'instance freed only when the count reached zero', 'instance freed without dec_and_test')


def r4(ctx):
    f = ctx.prog.fn('qb_hdb_iterator_next')
    ip = f.params[1]['n']
    gets = list(f.calls('qb_hdb_handle_get'))
    ctx.check('R4', 'iterator-uses-get', len(gets) >= 1 and all(estr(g.args[2]) == ip for g in gets), gets[0] if gets else f,
              'iterator_next obtains the instance through qb_hdb_handle_get', 'iterator_next does not call qb_hdb_handle_get for the instance')
    direct = [ev for ev in f.events('STORE') if unwrap(ev.lhs).get('k') == 'deref' and estr(unwrap(ev.lhs)['e']) == ip]
    direct += [ev for ev in f.events('LOAD') if last_field(ev.e) == ('qb_hdb_handle', 'instance')]
    ctx.check('R4', 'iterator-no-direct-instance', not direct, direct[0] if direct else f,
              'iterator_next never reads entry->instance / writes *instance itself',
              'iterator_next hands out an instance without going through the ACTIVE/refcount gate')


def r5(ctx):
    prog = ctx.prog
    c = prog.fn('qb_hdb_handle_create')
    EMPTY = prog.enum('QB_HDB_HANDLE_STATE')['QB_HDB_HANDLE_STATE_EMPTY']
    ACTIVE = prog.enum('QB_HDB_HANDLE_STATE')['QB_HDB_HANDLE_STATE_ACTIVE']
    outs = [ev for ev in c.events('STORE') if unwrap(ev.lhs).get('k') == 'deref' and estr(unwrap(ev.lhs)['e']) == c.params[2]['n']]
    if not outs:
        raise AnalysisBroken('qb_hdb_handle_create: handle is not handed out through the out parameter')
    # alternative (b): every decrement in put is refused for EMPTY slots
    put = prog.fn('qb_hdb_handle_put')
    decs = [ev for ev in put.events('CALL') if (refcount_op(ev.e, 'qb_hdb_handle', 'ref_count') or ('', ''))[0] == 'dec']

    def nonempty_atom(a, fb):
        return field_is(a.l, 'state', 'qb_hdb_handle') and ((a.op == '!=' and a.rc == EMPTY) or (a.op == '==' and a.rc not in (None, EMPTY)))
    alt_b = bool(decs) and all(put.uncut_path(ev, nonempty_atom) is None for ev in decs)
    for ev in outs:
        sets = [st for st in c.stores(field='ref_count', rec='qb_hdb_handle')
                if st.d['op'] == '=' and cval(unwrap(st.rhs)) == 1 and c.ev_dominates(st, ev)]
        later = [x for x in c.events('CALL') if refcount_op(x.e, 'qb_hdb_handle', 'ref_count') and
                 refcount_op(x.e)[0] in ('inc', 'dec', 'add', 'set') and any(c.may_follow(st, x) for st in sets)]
        ok = (bool(sets) and not later) or alt_b
        ctx.check('R5', 'create:count-is-one', ok, ev,
                  'the handle is handed out only after ref_count = 1 was stored absolutely' if sets else 'EMPTY slots refuse decrements, relative count is sound',
                  'a new object\'s reference count is relative to whatever a free slot was left with (a put on a free slot skews it): '
                  'count != 1 + gets - puts, early destructor')
    # a slot is taken over only when it is EMPTY (a count of zero is not that: inside a running destructor the count is already
    # zero and the slot still holds the dying object)
    loops = c.natural_loops()
    search = [body for h, body in loops.items() if any(ev.kind == 'CALL' and ev.callee == 'qb_array_index' for b_ in body for ev in c.blocks[b_].events) or
              any(c.blocks[b_].cond is not None and has_call(c.blocks[b_].cond, 'qb_array_index') for b_ in body)]
    if not search:
        raise AnalysisBroken('qb_hdb_handle_create: the search for a free slot was not found')
    body = min(search, key=len)
    # what the loop does with a slot it has looked up: the events behind a branch of the loop on the result of that lookup (a block that
    # leaves the loop with break is not part of the natural loop)
    def in_search(ev):
        return any(fb in body and has_call(c.blocks[fb].cond, 'qb_array_index') for (_a, (fb, _t, _l)) in c.guards(ev))
    takes = [ev for ev in c.events('STORE') if unwrap(ev.lhs).get('k') == 'var' and ev.d['op'] == '=' and cval(unwrap(ev.rhs)) == 1 and in_search(ev)]
    takes += [ev for ev in c.events('CALL') if refcount_op(ev.e, 'qb_hdb_handle', 'ref_count') and in_search(ev)]
    if not takes:
        raise AnalysisBroken('qb_hdb_handle_create: nothing marks a slot as found in the search loop')

    def empty_atom(a, fb):
        return field_is(a.l, 'state', 'qb_hdb_handle') and a.op == '==' and a.rc == EMPTY
    bad = [ev for ev in takes if not any(empty_atom(a, None) for (a, _e) in c.guards(ev))]
    ctx.check('R5', 'create:takes-over-only-empty-slots', not bad, bad[0] if bad else takes[0],
              'the search takes a slot over only under state == EMPTY',
              'the search for a free slot takes one over without state == EMPTY having been tested: inside a running destructor the dying object\'s slot has a count of zero and is not free - a create from the destructor gets that slot, and the end of the destructor frees the new object and marks the slot empty')
    sts = [st for st in c.stores(field='state', rec='qb_hdb_handle')]
    ctx.check('R5', 'create:state-active', bool(sts) and all(cval(unwrap(st.rhs)) == ACTIVE for st in sts) and
              all(any(c.ev_dominates(st, ev) for st in sts) for ev in outs), sts[0] if sts else c,
              'state = ACTIVE stored before the handle is handed out', 'handle handed out without the slot being ACTIVE')


def w1(ctx):
    prog = ctx.prog
    ti = prog.type_info('unsigned long')
    # qb_handle_t width from the parameter type of handle_get
    g = prog.fn('qb_hdb_handle_get')
    hty = g.params[1]['ty']
    ctx.check('W1', 'handle-64-bit', prog.type_info(hty).get('bits') == 64, g, 'qb_handle_t is 64 bits wide (%s)' % hty,
              'qb_handle_t is %s bits' % prog.type_info(hty).get('bits'))
    c = prog.fn('qb_hdb_handle_create')
    packs = [ev for ev in c.events('STORE') if unwrap(ev.lhs).get('k') == 'deref' and estr(unwrap(ev.lhs)['e']) == c.params[2]['n']]
    okp = False
    for ev in packs:
        r = unwrap(ev.rhs)
        if r.get('k') == 'bin' and r['op'] == '|':
            sh = [n for n in walk(r) if n.get('k') == 'bin' and n['op'] == '<<' and cval(unwrap(n['r'])) == 32]
            okp = bool(sh) and any(mentions_var(sh[0]['l'], v) for v in ('check',)) or bool(sh)
    ctx.check('W1', 'create-packs-check-high', okp, packs[0] if packs else c,
              'handle = check << 32 | index', 'handle_create no longer packs the check into the upper 32 bits')
    for name in PUBLIC:
        f = prog.fn(name)
        hp = f.params[1]['n']
        shifts = [n for ev in f.events() for t in (ev.rhs, ev.d.get('init')) if t for n in walk(t)
                  if n.get('k') == 'bin' and n['op'] == '>>' and mentions_var(n['l'], hp)]
        masks = [n for ev in f.events() for t in (ev.rhs, ev.d.get('init')) if t for n in walk(t)
                 if n.get('k') == 'bin' and n['op'] == '&' and mentions_var(n['l'], hp)]
        ctx.check('W1', '%s:unpack-shift' % name, bool(shifts) and all(cval(unwrap(n['r'])) == 32 for n in shifts), f,
                  'check = handle >> 32', 'check is not taken from the upper 32 bits')
        ctx.check('W1', '%s:unpack-mask' % name, bool(masks) and all(cval(unwrap(n['r'])) == 0xFFFFFFFF for n in masks), f,
                  'index = handle & UINT32_MAX', 'index is not the lower 32 bits')


def _nonempty(EMPTY):
    def pred(a, fb):
        return field_is(a.l, 'state', 'qb_hdb_handle') and ((a.op == '!=' and a.rc == EMPTY) or (a.op == '==' and a.rc not in (None, EMPTY)))
    return pred


def _sensitive(f):
    """events of a public entry point that act on the entry: reference-count operations, destructor, free, count read, state store"""
    out = []
    for ev in f.events():
        if ev.kind == 'CALL' and (refcount_op(ev.e, 'qb_hdb_handle', 'ref_count') or ev.callee == 'qb_hdb::destructor' or ev.callee == 'qb_hdb_handle_put'):
            out.append(ev)
        elif ev.kind == 'STORE' and last_field(ev.lhs) and last_field(ev.lhs)[0] == 'qb_hdb_handle':
            out.append(ev)
    return out


def _all_refuse_empty(prog, EMPTY):
    pred = _nonempty(EMPTY)
    for name in PUBLIC:
        f = prog.fn(name)
        sens = _sensitive(f)
        if not sens or any(f.uncut_path(ev, pred) is not None for ev in sens):
            return False
    return True


def r6(ctx):
    prog = ctx.prog
    st = prog.enum('QB_HDB_HANDLE_STATE')
    ACTIVE, PENDING = st['QB_HDB_HANDLE_STATE_ACTIVE'], st['QB_HDB_HANDLE_STATE_PENDINGREMOVAL']
    d = prog.fn('qb_hdb_handle_destroy')
    puts = list(d.calls('qb_hdb_handle_put'))
    marks = [ev for ev in d.stores(field='state', rec='qb_hdb_handle') if cval(unwrap(ev.rhs)) == PENDING]
    if not puts or not marks:
        raise AnalysisBroken('qb_hdb_handle_destroy: put / PENDINGREMOVAL store not found')

    def active(a, fb):
        return field_is(a.l, 'state', 'qb_hdb_handle') and a.op == '==' and a.rc == ACTIVE
    ok = all(d.uncut_path(ev, active) is None for ev in puts + marks)
    ctx.check('R6', 'destroy-needs-ACTIVE', ok, puts[0], 'destroy gives up the creation reference only for an ACTIVE object',
              'qb_hdb_handle_destroy does not look at the state: a second destroy on an object that is pending removal drops a reference held by a caller of get '
              '(the destructor runs and the instance is freed while in use; the matching put is then refused)')


def r7(ctx):
    prog = ctx.prog
    EMPTY = prog.enum('QB_HDB_HANDLE_STATE')['QB_HDB_HANDLE_STATE_EMPTY']
    pred = _nonempty(EMPTY)
    for name in PUBLIC:
        f = prog.fn(name)
        sens = _sensitive(f)
        if not sens:
            raise AnalysisBroken('%s: nothing acts on the entry' % name)
        bad = [ev for ev in sens if f.uncut_path(ev, pred) is not None]
        ctx.check('R7', '%s:refuses-empty-slot' % name, not bad, bad[0] if bad else sens[0],
                  '%s acts on an entry only after a state test that excludes EMPTY' % name,
                  '%s accepts a handle whose slot is EMPTY when the check value matches what a released slot holds (the all-zero handle, a nocheck handle, a stale copy): '
                  'it reads / changes the count of a slot that holds no object' % name)
    # the slots of the table come zero-filled from the array (calloc): a slot nobody has written yet must read as EMPTY
    ctx.check('R7', 'a-zero-filled-slot-is-empty', EMPTY == 0, 'lib/hdb.c (enum QB_HDB_HANDLE_STATE)',
              'QB_HDB_HANDLE_STATE_EMPTY is 0: a slot as the array hands it out holds no object',
              'QB_HDB_HANDLE_STATE_EMPTY is %s, not 0: the table\'s slots come zero-filled from qb_array (calloc), so a slot that was counted in handle_count but never written - a create that failed while extending the table - reads as %s: a never-issued handle (check 0) is accepted, with no object behind it'
              % (EMPTY, [k for k, v in prog.enum('QB_HDB_HANDLE_STATE').items() if v == 0]))
    c = prog.fn('qb_hdb_handle_create')
    claims = [ev for ev in c.events('CALL') if (refcount_op(ev.e, 'qb_hdb_handle', 'ref_count') or ('', ''))[0] == 'inc']
    fails = [r for r in c.returns() if r.e is not None and cval(unwrap(r.e)) is not None and cval(unwrap(r.e)) < 0 and any(c.may_follow(cl, r) for cl in claims)]
    if claims:
        ok = True
        for r in fails:
            hits, _e, _n = c.search(('after', claims[0]), goal=lambda ev, r=r: ev.d is r.d,
                                    stop=lambda ev: (ev.kind == 'STORE' and last_field(ev.lhs) == ('qb_hdb_handle', 'ref_count')) or
                                    (ev.kind == 'CALL' and ev.callee == 'memset' and cval(unwrap(ev.args[1])) == 0) or
                                    (ev.kind == 'CALL' and (refcount_op(ev.e, 'qb_hdb_handle', 'ref_count') or ('', ''))[0] == 'dec'))
            ok = ok and not hits
        ctx.check('R7', 'create:failed-create-gives-claim-back', ok and bool(fails), fails[0] if fails else c,
                  'a create that fails after claiming a free slot resets the slot\'s count',
                  'a create that fails to allocate the instance leaves its claim (count 1) on the empty slot: the next object there starts at 2 / a put on the empty slot runs the destructor')
    else:
        ctx.ok('R7', 'create:failed-create-gives-claim-back', c, 'create does not claim a slot by incrementing its count')


def r8(ctx):
    prog = ctx.prog
    c = prog.fn('qb_hdb_handle_create')
    sts = [ev for ev in c.stores(field='check', rec='qb_hdb_handle')]
    if len(sts) != 1:
        raise AnalysisBroken('qb_hdb_handle_create: check stores = %d' % len(sts))
    srcs, entry = value_sources(c, sts[0].rhs, sts[0])
    from_prev = any(any(n.get('k') == 'mem' and n.get('f') == 'check' and n.get('rec') == 'qb_hdb_handle' for n in walk(x)) or
                    (x.get('k') == 'bin' and x['op'] == '+') for x in srcs)
    # one level more: locals the sources mention that are themselves loaded from entry->check
    if not from_prev:
        for x in srcs:
            for n in walk(x):
                if n.get('k') == 'var':
                    s2, _e = value_sources(c, n, sts[0])
                    if any(last_field(y) == ('qb_hdb_handle', 'check') for y in s2):
                        from_prev = True
    ctx.check('R8', 'check-continues-the-slot-generation', from_prev, sts[0],
              'the check value of a new object is computed from the check value its slot had before',
              'the check value is drawn afresh (random) for every object: sooner or later a slot is given a value it had before, and every stale copy of that old handle '
              'resolves to the new object (the default random() sequence repeats a value after about 15000 uses of one slot)')
    # the value the slot has now may be stored back only for a slot that has never held an object (its check is still 0)
    vu = unwrap(sts[0].rhs)
    same = None
    if vu.get('k') == 'var':
        vn = vu['n']
        plain = [ev for ev in c.events() if (ev.kind == 'STORE' and estr(ev.lhs) == vn and ev.d['op'] == '=' and last_field(unwrap(ev.rhs)) == ('qb_hdb_handle', 'check')) or
                 (ev.kind == 'DECL' and ev.d['var'] == vn and ev.d.get('init') is not None and last_field(unwrap(ev.d['init'])) == ('qb_hdb_handle', 'check'))]

        def unused(a, fb):
            return a.ls == vn and ((a.op == '<=' and a.rc == 0) or (a.op == '<' and a.rc == 1) or (a.op == '==' and a.rc == 0))
        for d in plain:
            pth = c.uncut_path(sts[0], unused, start=('after', d),
                               also_stop=lambda x, d=d: x is not d and x.kind == 'STORE' and estr(x.lhs) == vn)
            if pth is not None:
                same = (d, pth)
    elif last_field(vu) == ('qb_hdb_handle', 'check'):
        same = (sts[0], None)
    ctx.check('R8', 'check-never-the-value-the-slot-has', same is None, sts[0],
              'the slot\'s present check value is stored back unchanged only for a slot that has never been used (value 0)',
              'for a slot that has been used before there is a path on which the value stored is the check value it already has: the object created in the reused slot gets '
              'the handle of the one before it, and a stale copy of that handle resolves to the new object', {'path': c.path_lines(same[1]) if same and same[1] else None})
    resets = []
    for f in prog.all_fns(files={'lib/hdb.c'}):
        if f.name == 'qb_hdb_handle_create':
            continue
        for ev in f.stores(field='check', rec='qb_hdb_handle'):
            resets.append(ev)
        for ev in f.calls('memset'):
            a0 = unwrap(ev.args[0])
            if a0.get('ty', '').startswith('struct qb_hdb_handle'):
                resets.append(ev)
    # ... create itself does not wipe it either (the give-back of a failed create is about the count, not the whole slot)
    entv = estr(unwrap(sts[0].lhs)['b']) if unwrap(sts[0].lhs).get('k') == 'mem' else None
    for ev in c.calls('memset'):
        if entv is not None and estr(unwrap(ev.args[0])) == entv and cval(unwrap(ev.args[1])) == 0:
            resets.append(ev)
    ctx.check('R8', 'generation-never-reset', not resets or not from_prev, resets[0] if resets else c,
              'no other function overwrites a slot\'s check value',
              'the slot\'s check value is reset when the object is released: the generation restarts and handle values repeat')


def r9(ctx):
    from rules.common import dec_and_test_atom
    prog = ctx.prog
    states = prog.enum('QB_HDB_HANDLE_STATE')
    ACTIVE = states['QB_HDB_HANDLE_STATE_ACTIVE']
    f = prog.fn('qb_hdb_handle_put')
    dtor = [ev for ev in f.events('CALL') if ev.callee in ('qb_hdb::destructor',) or (ev.callee or '').endswith('::destructor')]
    if len(dtor) != 1:
        raise AnalysisBroken('qb_hdb_handle_put: destructor call sites = %d' % len(dtor))
    # from the count-reached-zero edge to the destructor a store of a non-ACTIVE state is passed
    zero = []
    for b in f.blocks.values():
        if b.cond is None:
            continue
        for (t, lab) in b.succs:
            if lab in (True, False) and any(dec_and_test_atom(a, 'qb_hdb_handle', 'ref_count') for a in atoms_of(b.cond, lab)):
                zero.append((b.id, t))
    if not zero:
        raise AnalysisBroken('qb_hdb_handle_put: the count-reached-zero edge was not found')

    def retire(ev):
        return ev.kind == 'STORE' and last_field(ev.lhs) == ('qb_hdb_handle', 'state') and cval(unwrap(ev.rhs)) not in (None, ACTIVE)
    bad = False
    for (b, t) in zero:
        hits, _e, _n = f.search(('edge', b, t), goal=lambda ev: ev is dtor[0], stop=retire)
        bad = bad or bool(hits)
    ctx.check('R9', 'slot-retired-before-destructor', not bad, dtor[0], 'the slot is non-ACTIVE when the destructor runs',
              'qb_hdb_handle_put calls the destructor with the slot still ACTIVE: a get of the dying handle from inside the destructor succeeds and the put that goes with it '
              'takes the count to zero again - the destructor runs a second time')
    # a count below 1 is refused before it is decremented
    decs = [ev for ev in f.events() if any(n.get('k') == 'call' and (refcount_op(n, 'qb_hdb_handle', 'ref_count') or (None,))[0] == 'dec'
                                           for n in walk(ev.d.get('e') or ev.d.get('rhs') or {}))]
    dblk = [b for b in f.blocks.values() if b.cond is not None and any(dec_and_test_atom(a, 'qb_hdb_handle', 'ref_count') for a in atoms_of(b.cond, True))]

    def positive(a, fb):
        l = unwrap(a.l)
        op = refcount_op(l, 'qb_hdb_handle', 'ref_count') if l.get('k') == 'call' else None
        isget = (op and op[0] == 'get') or last_field(a.l) == ('qb_hdb_handle', 'ref_count')
        return isget and ((a.op == '>=' and a.rc is not None and a.rc >= 1) or (a.op == '>' and a.rc is not None and a.rc >= 0))
    ok = bool(dblk)
    for b in dblk:
        # is the block with the decrement reachable without an edge that says the count is >= 1?
        seen, work, reach = set(), [f.entry], False
        while work:
            x = work.pop()
            if x in seen:
                continue
            seen.add(x)
            if x == b.id:
                reach = True
                break
            blk = f.blocks[x]
            for (t, lab) in blk.succs:
                if blk.cond is not None and lab in (True, False) and any(positive(a, blk) for a in atoms_of(blk.cond, lab)):
                    continue
                work.append(t)
        ok = ok and not reach
    ctx.check('R9', 'put-needs-a-count', ok, dtor[0], 'a put is refused unless the count is at least 1',
              'qb_hdb_handle_put decrements a count that may already be 0: from inside the destructor (or on a slot pending removal) it goes negative or back to zero')
