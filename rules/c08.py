"""C08 - event loop runs every job, timer and fd callback exactly as registered."""
from engine.qb import (AnalysisBroken, abstract_run, estr, unwrap, cval, walk, last_field, fields_of, callee_of,
                       mentions_var, atoms_of, root_var)
from rules.common import field_is, has_call, value_sources, derives, macro_named

UNITS = ['lib/loop.c', 'lib/loop_job.c', 'lib/loop_timerlist.c', 'lib/loop_poll.c', 'lib/loop_poll_epoll.c']
ALT_CONFIGS = [{'name': 'poll2-driver', 'config_undef': ['HAVE_EPOLL_CREATE1', 'HAVE_EPOLL_CREATE'],
                'units': ['lib/loop.c', 'lib/loop_job.c', 'lib/loop_timerlist.c', 'lib/loop_poll.c', 'lib/loop_poll_poll.c'],
                'rules': ['R5'], 'optional': True}]
DECIDES = ('Decides unlink-before-dispatch, one-shot jobs, timer and poll slot state machines (by finite evaluation over the slot '
           'state), stale-handle checks before any slot access, tombstone discipline, signal clone purge on delete and the stop '
           're-test; exactly-once over arbitrary add/mod/del histories is not decided.')
# what the handler may call: the pipe write, errno, and functions POSIX.1-2016 lists as async-signal-safe that have no
# side effect on shared state (string/memory primitives)
AS_SAFE = {'write', '__errno_location', 'strlen', 'memcpy', 'memmove', 'memset', 'memcmp', 'strcmp', 'strncmp', 'strcpy', 'strncpy',
           'getpid', 'abort', '_exit'}
RULES = {
    'R1': 'run_level unlinks and re-initialises the item before dispatch; level_item_del only unlinks/decrements a linked item',
    'R2': 'job_dispatch calls the user function once, frees the job on every path, never re-adds; jobs enter the wait list only in qb_loop_job_add',
    'R3': 'timer_dispatch clears check before the user call and stores EMPTY after; public timer functions validate the handle before touching the slot; qb_loop_timer_del per slot state',
    'R4': 'poll tombstones: del per slot state; dispatch never revives a DELETED entry; negative result -> tombstone; tombstones recycled only in qb_poll_fds_usage_check_',
    'R5': 'in every driver poll implementation add_to_jobs is unreachable for DELETED / JOBLIST / stale-handle entries',
    'R6': 'signal handler only writes to the pipe; every delivery is cloned with cloned_from; after signal_del no queued clone remains (scans continue past a match, removal-safe) or at most one clone is ever queued',
    'R8': 'handle check values: a check computed from the slot\'s own previous check (generation counter) must never be reset by the invalidation stores; otherwise it comes from random()',
    'R7': 'qb_loop_run re-tests stop_requested after every level run',
    'R9': 'a run that follows a stop knows about the work already queued: before its first poll the pending-work count the timeout choice depends on is made up from the levels\' todo counters',
    'R10': 'signal_del purges queued deliveries at every priority (they are queued at the priority the registration had then, which signal_mod can change), or the priority cannot change while deliveries are queued',
    'R11': 'an entry is findable by descriptor number only while it stands for a registration: a refused add leaves the slot without a number and check (as an emptied slot), and a successful add retires an entry that is being dispatched right now under the same number (the descriptor was closed and its number reused inside its own callback)',
    'R12': 'every signal number qb_loop_signal_add accepts can get the library\'s handler: the installation loop covers all numbers below NSIG, and installs the handler for every number that is registered - under no further condition (signal_del and signal_mod reset a number to SIG_DFL first and rely on it)',
    'R13': 'a descriptor whose callback asks to be removed (negative return) leaves the polling driver as well: on that edge the driver\'s del is called (unless the callback has deleted the entry itself) before the entry is marked deleted - a descriptor that stays open would stay in the kernel\'s set, be reported in every iteration and be refused when added again',
    'R14': 'a signal callback may delete its own registration: the delivery being dispatched is noted, qb_loop_signal_del detaches it (clears its cloned_from), and after the callback the registration is dereferenced only where it is still attached',
    'R15': 'a full table is an error, not an abort: where an add asks a helper for a free slot and the helper can hand back the (negative) result of the failed table growth, that result is tested before it is used as a slot index - in the descriptor add and in the timer add (the table holds 65536 entries; slots of deleted descriptors come back only at the next poll)',
    'R16': 'jobs of one priority run in the order they were added (= C10.R3): items are appended at the tail of their level, waiting jobs are spliced to the tail, the dispatcher takes from the head',
    'R17': 'a delivered signal reaches every registration for its number: in _qb_signal_add_to_jobs_ the walk over the registrations goes on after a match (the loop head is reachable again from the place where a job was queued)',
}
FLOORS = {'R17': 1, 'R16': 4, 'R1': 6, 'R2': 6, 'R3': 12, 'R4': 9, 'R5': 3, 'R6': 7, 'R7': 1, 'R8': 2, 'R9': 1, 'R10': 1, 'R11': 2, 'R12': 2, 'R13': 1, 'R14': 3, 'R15': 2}


def run(ctx):
    prog = ctx.prog
    st = prog.enum('qb_poll_entry_state')
    r1(ctx)
    r2(ctx)
    r3(ctx, st)
    r4(ctx, st)
    r5(ctx, st)
    r6(ctx)
    r7(ctx)
    r8(ctx)
    r9(ctx)
    r10(ctx)
    r11(ctx, st)
    r12(ctx)
    r13(ctx, st)
    r14(ctx)
    todo_accounting(ctx, 'R1')
    r15(ctx)
    r17(ctx)
    # R16 = C10.R3: jobs of one priority run in the order they were added - appended at the tail, promoted to the tail, taken from the head
    from rules import c10
    pr = ctx.prog.enum('qb_loop_priority')
    sub = type(ctx)(ctx.prog, ctx.prop, ctx.tier, ctx.depth)
    c10.r3(sub, [pr['QB_LOOP_LOW'], pr['QB_LOOP_MED'], pr['QB_LOOP_HIGH']])
    for r in sub.results:
        r['rule'] = 'R16'
        ctx.results.append(r)


def r1(ctx):
    prog = ctx.prog
    f = prog.fn('qb_loop_run_level')
    disp = list(f.calls('qb_loop_source::dispatch_and_take_back'))
    if len(disp) != 1:
        raise AnalysisBroken('qb_loop_run_level: dispatch sites = %d' % len(disp))
    d = disp[0]
    job = estr(d.args[0])
    dels = [ev for ev in f.calls('qb_list_del') if root_var(ev.args[0]) and root_var(ev.args[0])['n'] == job]
    inits = [ev for ev in f.calls('qb_list_init') if root_var(ev.args[0]) and root_var(ev.args[0])['n'] == job]
    ctx.check('R1', 'unlink-before-dispatch', any(f.ev_dominates(x, d) for x in dels), d,
              'the item is unlinked from the job list before its callback runs',
              'the callback runs while the item is still linked (a delete from inside the callback corrupts the list / double run)')
    ctx.check('R1', 'reinit-before-dispatch', any(f.ev_dominates(x, d) for x in inits) and
              all(any(f.ev_dominates(dl, x) for dl in dels) for x in inits if f.ev_dominates(x, d)), d,
              'the item\'s list node is re-initialised (reads as "not queued") before its callback runs',
              'the list node is not re-initialised before dispatch: qb_loop_level_item_del from the callback would unlink a stale node and decrement todo twice')
    g = prog.fn('qb_loop_level_item_del')
    jobp = g.params[1]['n']

    def linked(a, fb):
        return a.op == '==' and a.rc == 0 and callee_of(unwrap(a.l)) == 'qb_list_empty' and mentions_var(a.l, jobp)
    for ev in list(g.calls('qb_list_del')) + [s for s in g.stores(field='todo')]:
        path = g.uncut_path(ev, linked)
        what = 'unlink' if ev.kind == 'CALL' else 'todo decrement'
        ctx.check('R1', 'item_del:%s-needs-linked' % what.replace(' ', '-'), path is None, ev,
                  '%s only for an item that is still queued' % what,
                  '%s happens even if the item is not queued (double decrement when deleting during dispatch)' % what)


def r2(ctx):
    prog = ctx.prog
    f = prog.fn('job_dispatch')
    user = list(f.calls('qb_loop_job::dispatch_fn'))
    loops = f.natural_loops()
    inloop = any(u.blk in body for u in user for body in loops.values())
    ctx.check('R2', 'dispatch-once', len(user) == 1 and not inloop, user[0] if user else f,
              'the job function is called exactly once per dispatch', 'the job function is called %d times / in a loop' % len(user))
    if user:
        ok, p = f.must_pass(('entry',), lambda ev: ev.kind == 'CALL' and ev.callee == 'free')
        ctx.check('R2', 'job-freed', ok, f, 'the job is freed on every path', 'a path does not free the job', {'path': f.path_lines(p) if p else None})
        frees = list(f.calls('free'))
        ctx.check('R2', 'free-after-call', all(f.ev_dominates(user[0], fr) for fr in frees), frees[0] if frees else f,
                  'the job is freed after its function ran', 'the job is freed before its function runs')
    readd = [ev for ev in f.events('CALL') if ev.callee in ('qb_loop_job_add', 'qb_list_add', 'qb_list_add_tail', 'qb_loop_level_item_add')]
    ctx.check('R2', 'one-shot', not readd, readd[0] if readd else f, 'a dispatched job is never re-queued by the library', 'job_dispatch re-queues the job')
    # who links into wait_head
    bad = []
    n = 0
    for g in prog.all_fns():
        for ev in g.events('CALL'):
            if ev.callee in ('qb_list_add', 'qb_list_add_tail', 'qb_list_splice', 'qb_list_splice_tail') and len(ev.args) == 2 and \
                    field_is(ev.args[1], 'wait_head'):
                n += 1
                if g.name != 'qb_loop_job_add':
                    bad.append(ev)
    ctx.check('R2', 'wait-list-writers', n >= 1 and not bad, bad[0] if bad else 'lib/loop_job.c',
              'only qb_loop_job_add links items into a wait list', 'another function links items into a wait list')
    # job_del removes from both lists and frees; returns 0 only for a match
    jd = prog.fn('qb_loop_job_del')
    frees = list(jd.calls('free'))
    dels = list(jd.calls('qb_list_del')) + list(jd.calls('qb_loop_level_item_del'))
    ctx.check('R2', 'job_del-unlinks-before-free', bool(frees) and all(any(jd.ev_dominates(d, fr) for d in dels) for fr in frees),
              frees[0] if frees else jd, 'qb_loop_job_del unlinks a job before freeing it', 'qb_loop_job_del frees a job that is still linked')
    # the job lists of a level hold items of every source (jobs, timers, descriptors, signal deliveries): an item taken from one
    # is a job only if its type says so
    JOB = prog.econst('QB_LOOP_JOB')

    def is_job(a, fb):
        return a.op == '==' and a.rc == JOB and field_is(a.l, 'type', 'qb_loop_item')
    jl = [ev for ev in jd.calls('qb_loop_level_item_del')]
    if not jl:
        raise AnalysisBroken('qb_loop_job_del: no removal from the job list')
    ctx.check('R2', 'job_del-type-checked-on-job-list', all(ctx.inl(jd, 2).uncut_path(ev, is_job) is None for ev in ctx.inl(jd, 2).calls('qb_loop_level_item_del')), jl[0],
              'an item found on a job list is removed as a job only if its type is QB_LOOP_JOB',
              'qb_loop_job_del treats whatever it finds on the job list as a job: a timer, descriptor or signal item whose bytes happen to match is unlinked and its callback never runs')


def _slot_accesses(f, rec, var):
    out = []
    for ev in f.events():
        e = ev.e if ev.kind == 'LOAD' else ev.lhs if ev.kind == 'STORE' else None
        if e is None:
            continue
        lf = last_field(e)
        rv = root_var(e)
        if lf and rv is not None and rv['n'] == var and any(n.get('k') == 'mem' and n.get('rec') in rec for n in walk(e)):
            out.append(ev)
    return out


def r3(ctx, st):
    prog = ctx.prog
    f = prog.fn('timer_dispatch')
    user = list(f.calls('qb_loop_timer::dispatch_fn'))
    if len(user) != 1:
        raise AnalysisBroken('timer_dispatch: user call sites = %d' % len(user))
    u = user[0]
    chk = [ev for ev in f.stores(field='check', rec='qb_loop_timer') if cval(unwrap(ev.rhs)) == 0]
    ctx.check('R3', 'dispatch:check-cleared-before-call', any(f.ev_dominates(c, u) for c in chk), u,
              'the handle is invalidated (check = 0) before the timer function runs',
              'the timer function runs with a still valid handle: a delete from the callback hits the firing slot')
    ok, p = f.must_pass(('after', u), lambda ev: ev.kind == 'STORE' and field_is(ev.lhs, 'state', 'qb_loop_timer') and
                        cval(unwrap(ev.rhs)) == st['QB_POLL_ENTRY_EMPTY'])
    ctx.check('R3', 'dispatch:empty-after-call', ok, u, 'the slot is released (EMPTY) after the timer function',
              'the slot is not released after a one-shot timer ran')
    revive = [ev for ev in f.stores(field='state', rec='qb_loop_timer') if cval(unwrap(ev.rhs)) in (st['QB_POLL_ENTRY_ACTIVE'], st['QB_POLL_ENTRY_JOBLIST'])]
    ctx.check('R3', 'dispatch:one-shot', not revive, revive[0] if revive else f, 'a fired timer is not re-armed by the library', 'timer_dispatch re-arms the timer')
    for name in ('qb_loop_timer_del', 'qb_loop_timer_expire_time_get', 'qb_loop_timer_expire_time_remaining'):
        g = prog.fn(name)
        look = list(g.calls('_timer_from_handle_'))
        if len(look) != 1:
            raise AnalysisBroken('%s: handle lookups = %d' % (name, len(look)))
        tv = unwrap(look[0].args[2])
        tvar = unwrap(tv['e'])['n'] if tv.get('k') == 'addr' else None
        acc = _slot_accesses(g, {'qb_loop_timer'}, tvar)
        if not acc:
            raise AnalysisBroken('%s: no slot access found' % name)

        def valid(a, fb, g=g):
            if not (a.op == '==' and a.rc == 0 and unwrap(a.l).get('k') == 'var'):
                return False
            defs, entry = g.reaching_defs(unwrap(a.l)['n'], g.end_of(fb.id))
            return bool(defs) and not entry and all(d.kind == 'STORE' and callee_of(unwrap(d.rhs)) == '_timer_from_handle_' for d in defs)
        bad = [ev for ev in acc if g.uncut_path(ev, valid) is not None]
        ctx.check('R3', '%s:handle-validated-first' % name, not bad, bad[0] if bad else look[0],
                  '%d slot accesses are all cut by _timer_from_handle_() == 0' % len(acc),
                  'the timer slot is accessed before/without the handle having been validated')
    # handle lookup compares index range (qb_array_index rc) and check
    th = prog.fn('_timer_from_handle_')
    outs = [ev for ev in th.events('STORE') if unwrap(ev.lhs).get('k') == 'deref' and estr(unwrap(ev.lhs)['e']) == th.params[2]['n']]
    for (what, pred) in (('index-valid', lambda a, fb: a.op == '==' and a.rc == 0 and unwrap(a.l).get('k') == 'var'),
                         ('check-equal', lambda a, fb: a.op == '==' and (field_is(a.l, 'check', 'qb_loop_timer') or field_is(a.r, 'check', 'qb_loop_timer'))),
                         ('nonzero-handle', lambda a, fb: a.op == '!=' and a.rc == 0 and a.ls == th.params[1]['n'])):
        ok = bool(outs) and all(th.uncut_path(ev, pred) is None for ev in outs)
        ctx.check('R3', 'from_handle:%s' % what, ok, outs[0] if outs else th, 'slot handed out only after %s' % what, 'slot handed out without %s' % what)
    # timer_del per state
    d = prog.fn('qb_loop_timer_del')
    look = list(d.calls('_timer_from_handle_'))[0]
    tvar = unwrap(unwrap(look.args[2])['e'])['n']
    sv = '%s->state' % tvar
    for name, val in st.items():
        visits, terms = abstract_run(d, {sv: val}, tracked={sv})
        calls = {ev.callee for (ev, env) in visits if ev.kind == 'CALL' and env.get(sv) == val or ev.kind == 'CALL'}
        # only consider events after the lookup (state is loaded later)
        calls = {ev.callee for (ev, env) in visits if ev.kind == 'CALL'}
        stores = [(ev, env) for (ev, env) in visits if ev.kind == 'STORE' and last_field(ev.lhs) and last_field(ev.lhs)[0] == 'qb_loop_timer']
        finals = {env.get(sv, 'TOP') for (ev, env) in visits if ev.kind == 'RETURN' and not ev.inl and ev.e is not None and cval(unwrap(ev.e)) == 0}
        rets = {cval(unwrap(ev.e)) for (ev, env) in visits if ev.kind == 'RETURN' and not ev.inl}
        short = name.replace('QB_POLL_ENTRY_', '')
        if short == 'EMPTY':
            ok = 'qb_loop_level_item_del' not in calls and 'timerlist_del' not in calls and not stores and 0 not in {r for r in rets if r is not None and r >= 0} - set()
            ok = 'qb_loop_level_item_del' not in calls and 'timerlist_del' not in calls and not stores
            ctx.check('R3', 'del:EMPTY-no-effect', ok, d, 'deleting an EMPTY (fired/deleted) slot changes nothing',
                      'deleting an EMPTY slot has effects: %s' % sorted(c for c in calls if c in ('qb_loop_level_item_del', 'timerlist_del')))
            errs = {r for r in rets if r is not None}
            ctx.check('R3', 'del:EMPTY-rejected', any(r < 0 for r in errs), d, 'a stale handle to an EMPTY slot is rejected', 'deleting an EMPTY slot reports success only')
        elif short == 'JOBLIST':
            ctx.check('R3', 'del:JOBLIST-dequeued', 'qb_loop_level_item_del' in calls, d, 'a timer already queued for dispatch is removed from the job list',
                      'deleting an expired-but-not-yet-dispatched timer leaves it queued: the callback still runs after delete')
            ctx.check('R3', 'del:JOBLIST-final-EMPTY', finals <= {st['QB_POLL_ENTRY_EMPTY'], 'TOP'} and st['QB_POLL_ENTRY_EMPTY'] in finals, d,
                      'slot released', 'slot not released after delete (final state %s)' % finals)
        elif short == 'ACTIVE':
            ctx.check('R3', 'del:ACTIVE-heap-removed', 'timerlist_del' in calls, d, 'a pending timer is removed from the timer heap',
                      'deleting a pending timer does not remove it from the heap')
            ctx.check('R3', 'del:ACTIVE-final-EMPTY', finals <= {st['QB_POLL_ENTRY_EMPTY'], 'TOP'} and st['QB_POLL_ENTRY_EMPTY'] in finals, d,
                      'slot released', 'slot not released after delete (final state %s)' % finals)


def r4(ctx, st):
    prog = ctx.prog
    EMPTY, JOBLIST, DELETED, ACTIVE = (st['QB_POLL_ENTRY_EMPTY'], st['QB_POLL_ENTRY_JOBLIST'], st['QB_POLL_ENTRY_DELETED'], st['QB_POLL_ENTRY_ACTIVE'])
    md = prog.fn('_poll_entry_mark_deleted_')
    sts = {(last_field(ev.lhs)[1] if last_field(ev.lhs) else None): cval(unwrap(ev.rhs)) for ev in md.events('STORE')}
    ctx.check('R4', 'tombstone-shape', sts.get('fd') == -1 and sts.get('state') == DELETED and sts.get('check') == 0, md,
              'tombstone = fd -1, DELETED, check 0', 'tombstone writes %s' % sts)
    d = ctx.inl(prog.fn('qb_loop_poll_del'), 1)
    pes = {root_var(ev.e)['n'] for ev in d.events('LOAD') if field_is(ev.e, 'state', 'qb_poll_entry') and root_var(ev.e) and not ev.inl}
    if len(pes) != 1:
        raise AnalysisBroken('qb_loop_poll_del: entry variable not identified')
    sv = '%s->state' % pes.pop()
    for name, val in st.items():
        short = name.replace('QB_POLL_ENTRY_', '')
        visits, terms = abstract_run(d, {sv: val}, tracked={sv})
        calls = {ev.callee for (ev, env) in visits if ev.kind == 'CALL' and env.get(sv, val) == val or ev.kind == 'CALL'}
        calls = {ev.callee for (ev, env) in visits if ev.kind == 'CALL'}
        stores = [ev for (ev, env) in visits if ev.kind == 'STORE' and last_field(ev.lhs) and last_field(ev.lhs)[0] in ('qb_poll_entry', 'pollfd')]
        if short in ('DELETED', 'EMPTY'):
            ctx.check('R4', 'del:%s-no-effect' % short, 'qb_loop_driver::del' not in calls and 'qb_loop_level_item_del' not in calls and not stores, d,
                      'deleting a %s entry changes nothing' % short, 'deleting a %s entry has effects' % short)
        else:
            if short == 'JOBLIST':
                ctx.check('R4', 'del:JOBLIST-dequeued', 'qb_loop_level_item_del' in calls, d, 'a queued entry is removed from the job list',
                          'deleting a descriptor that is already queued for dispatch leaves it queued: its callback runs after delete')
            ctx.check('R4', 'del:%s-driver-del' % short, 'qb_loop_driver::del' in calls, d, 'the descriptor is removed from the kernel set', 'driver del not called')
            tomb = any(field_is(ev.lhs, 'state', 'qb_poll_entry') and cval(unwrap(ev.rhs)) == DELETED for ev in stores)
            ctx.check('R4', 'del:%s-tombstoned' % short, tomb, d, 'the entry becomes a tombstone', 'the entry is not tombstoned')
    f = prog.fn('_poll_dispatch_and_take_back_')
    user = list(f.calls('qb_poll_entry::poll_dispatch_fn'))
    if len(user) != 1:
        raise AnalysisBroken('_poll_dispatch_and_take_back_: user call sites = %d' % len(user))
    act = [ev for ev in f.stores(field='state', rec='qb_poll_entry') if cval(unwrap(ev.rhs)) == ACTIVE]
    if not act:
        raise AnalysisBroken('_poll_dispatch_and_take_back_: entry is never re-armed')

    def not_deleted(a, fb):
        return field_is(a.l, 'state', 'qb_poll_entry') and ((a.op == '!=' and a.rc == DELETED) or (a.op == '==' and a.rc in (JOBLIST, ACTIVE)))
    for ev in act:
        ctx.check('R4', 'dispatch:no-revive', f.uncut_path(ev, not_deleted, start=('after', user[0])) is None and f.ev_dominates(user[0], ev), ev,
                  're-arming (ACTIVE) after the callback needs state != DELETED',
                  'an entry deleted from inside its own callback is re-armed: its callback keeps running after delete')
    # negative result -> tombstone
    neg_ok = False
    for b in f.blocks.values():
        if b.cond is None:
            continue
        for (t, lab) in b.succs:
            if lab in (True, False) and any(a.op == '<' and a.rc == 0 for a in atoms_of(b.cond, lab)):
                ok, _p = f.must_pass(('edge', b.id, t), lambda ev: ev.kind == 'CALL' and ev.callee == '_poll_entry_mark_deleted_')
                neg_ok = ok
    ctx.check('R4', 'dispatch:negative-result-tombstones', neg_ok, f, 'a negative callback result tombstones the entry', 'a negative callback result does not remove the entry')
    em = prog.callers_of('_poll_entry_empty_')
    # besides the recycler, the slot-taking function may reset the slot it has just taken when the driver refuses the descriptor
    # (that slot never stood for a registration): the reset is then only reachable through the failure edge of the driver add
    def rollback(g, ev):
        if g.name != '_poll_add_':
            return False
        adds = [x for x in g.events('CALL') if x.callee.endswith('::add')]
        if len(adds) != 1:
            return False
        rv = [estr(s_.lhs) for s_ in g.events('STORE') if s_.rhs is not None and any(n.get('id') == adds[0].e.get('id') for n in walk(s_.rhs))]
        if not rv:
            return False

        def succeeded(a, fb):
            return a.ls == rv[0] and ((a.op == '!=' and a.rc == 0) or (a.op == '<' and a.rc == 0))
        return g.ev_dominates(adds[0], ev) and g.uncut_path(ev, succeeded, start=('after', adds[0])) is None
    ok = bool(em) and all(g.name == 'qb_poll_fds_usage_check_' or rollback(g, ev) for (g, ev) in em)
    ctx.check('R4', 'recycle-site', ok, em[0][1] if em else None, 'slots are emptied only by the recycler (and when an add is refused, for the slot just taken)', 'tombstones are recycled elsewhere')
    for (g, ev) in em:
        if rollback(g, ev):
            continue

        def deleted(a, fb):
            return a.op == '==' and a.rc == DELETED and field_is(a.l, 'state', 'qb_poll_entry')
        ctx.check('R4', 'recycle-only-deleted', g.uncut_path(ev, deleted) is None, ev, 'only DELETED entries are recycled', 'a non-DELETED entry can be emptied')
    # _poll_add_ only takes EMPTY slots
    ge = prog.fn('_get_empty_array_position_', 'lib/loop_poll.c')
    found = [ev for ev in ge.events('STORE') if unwrap(ev.lhs).get('k') == 'var' and cval(unwrap(ev.rhs)) == 1]
    def isempty(a, fb):
        return a.op == '==' and a.rc == EMPTY and field_is(a.l, 'state', 'qb_poll_entry')
    fnd = [ev for ev in found if any(isempty(a, None) for (a, _e) in ge.guards(ev))]
    ctx.check('R4', 'reuse-only-empty', bool(fnd), ge, 'a slot is reused only when EMPTY', 'slot reuse does not require EMPTY')


def r5(ctx, st):
    prog = ctx.prog
    EMPTY, JOBLIST, DELETED, ACTIVE = (st['QB_POLL_ENTRY_EMPTY'], st['QB_POLL_ENTRY_JOBLIST'], st['QB_POLL_ENTRY_DELETED'], st['QB_POLL_ENTRY_ACTIVE'])
    impls = [n for n in prog.slots().get('qb_loop_source::poll', set()) if n not in ('get_more_jobs', 'expire_the_timers')]
    if not impls:
        raise AnalysisBroken('no fd poll driver in the slot table')
    for n in impls:
        f = prog.fn(n)
        adds = list(f.calls('qb_poll_entry::add_to_jobs'))
        if not adds:
            raise AnalysisBroken('%s: no add_to_jobs call' % n)
        for ev in adds:
            pe = root_var(unwrap(ev.e.get('ce')))
            sv = '%s->state' % pe['n']
            for (name, val) in (('DELETED', DELETED), ('JOBLIST', JOBLIST)):
                visits, _t = abstract_run(f, {sv: val}, tracked={sv})
                reach = any(v is ev or v.d is ev.d for (v, env) in visits if env.get(sv) == val)
                ctx.check('R5', '%s:no-add-for-%s' % (n, name), not reach, ev,
                          'add_to_jobs is unreachable for a %s entry' % name,
                          'a %s entry can be queued for dispatch again (callback after delete / queued twice)' % name)
            # stale handle: lookups by handle must be validated
            look = [c for c in f.events('CALL') if c.callee == '_poll_entry_from_handle_']
            if look:
                def valid(a, fb, f=f):
                    if not (a.op == '==' and a.rc == 0 and unwrap(a.l).get('k') == 'var'):
                        return False
                    defs, entry = f.reaching_defs(unwrap(a.l)['n'], f.end_of(fb.id))
                    return bool(defs) and all(d.kind == 'STORE' and callee_of(unwrap(d.rhs)) == '_poll_entry_from_handle_' for d in defs)
                ctx.check('R5', '%s:stale-handle-skipped' % n, f.uncut_path(ev, valid) is None, ev,
                          'events for a stale handle (slot reused) are dropped', 'an event for a stale handle reaches add_to_jobs of the slot\'s new owner')
    if prog.has_fn('_poll_entry_from_handle_'):
        th = prog.fn('_poll_entry_from_handle_')
        outs = [ev for ev in th.events('STORE') if unwrap(ev.lhs).get('k') == 'deref' and estr(unwrap(ev.lhs)['e']) == th.params[2]['n']]
        pred = lambda a, fb: a.op == '==' and (field_is(a.l, 'check', 'qb_poll_entry') or field_is(a.r, 'check', 'qb_poll_entry'))
        ok = bool(outs) and all(th.uncut_path(ev, pred) is None for ev in outs)
        ctx.check('R5', 'poll_entry_from_handle:check-equal', ok, outs[0] if outs else th, 'entry handed out only when the check matches', 'entry handed out without comparing the check')


def r6(ctx):
    prog = ctx.prog
    h = prog.fn('_handle_real_signal_')
    calls = {ev.callee for ev in h.events('CALL')}
    ctx.check('R6', 'handler-async-safe', calls <= AS_SAFE, h, 'the signal handler only writes to the pipe',
              'the signal handler calls %s' % sorted(calls - {'write', '__errno_location'}))
    # resetting a signal's disposition is followed by re-deriving the handlers from the registrations that remain
    # (another registration may share the signal number)
    for fn in ('qb_loop_signal_del', 'qb_loop_signal_mod'):
        g = prog.fn(fn)
        resets = [ev for ev in g.calls('signal') if len(ev.args) == 2 and (macro_named(ev.args[1], 'SIG_DFL') or cval(unwrap(ev.args[1])) == 0)]
        for ev in resets:
            ok, _p = g.must_pass(('after', ev), lambda x: x.kind == 'CALL' and x.callee == '_adjust_sigactions_')
            ctx.check('R6', '%s:handlers-rederived-after-reset' % fn, ok, ev,
                      'after signal(n, SIG_DFL) the handlers are re-installed for the registrations that remain',
                      '%s resets the disposition of the signal and does not re-derive the handlers: a second registration for the same signal number loses the '
                      'library\'s handler (its callback never runs again, the default action hits the process)' % fn)
    a = prog.fn('_qb_signal_add_to_jobs_')
    adds = list(a.calls('qb_loop_level_item_add'))
    cl = [ev for ev in a.stores(field='cloned_from')]
    ctx.check('R6', 'clone-tagged', bool(adds) and bool(cl) and all(any(a.ev_dominates(c, ad) for c in cl) for ad in adds), adds[0] if adds else a,
              'every queued delivery is a clone tagged with its registration', 'a delivery is queued without cloned_from being set')
    # at-most-one-clone alternative: clone creation guarded by a "no clone queued" test
    d = prog.fn('qb_loop_signal_del')
    loops = d.natural_loops()
    scans = []
    for hdr, body in loops.items():
        heads = set()
        for bid in body:
            trees = [ev.e for ev in d.blocks[bid].events if ev.kind == 'LOAD'] + ([d.blocks[bid].cond] if d.blocks[bid].cond else [])
            for tr in trees:
                for n in walk(tr):
                    if n.get('k') == 'mem' and n['f'] in ('wait_head', 'job_head'):
                        heads.add(n['f'])
        for hd in heads:
            scans.append((hd, hdr, body))
    if len(scans) < 2:
        raise AnalysisBroken('qb_loop_signal_del: expected scans of wait_head and job_head, found %s' % [s[0] for s in scans])
    guarded_single = False  # alternative shape not present today; detected if clone creation tests a per-registration flag
    for ev in adds:
        for (at, _e) in a.guards(ev):
            if at.op == '==' and at.rc == 0 and any(n.get('k') == 'mem' and n['f'] in ('queued', 'pending', 'clone_queued') for n in walk(at.l)):
                guarded_single = True
    for (hd, hdr, body) in scans:
        # the match edge: cloned_from == sig
        found = False
        for bid in body:
            b = d.blocks[bid]
            if b.cond is None:
                continue
            for (t, lab) in b.succs:
                if lab in (True, False) and any(at.op == '==' and (field_is(at.l, 'cloned_from') or field_is(at.r, 'cloned_from')) for at in atoms_of(b.cond, lab)):
                    found = True
                    hits, _e, _n = d.search(('edge', b.id, t), goal=lambda ev: ev.blk == hdr)
                    reaches_hdr = hdr in d._block_reach()[t] or t == hdr
                    # restrict to staying inside the loop
                    inside = _reaches_within(d, t, hdr, body)
                    ctx.check('R6', 'del:%s-scan-continues' % hd, inside or guarded_single, '%s:%d (qb_loop_signal_del)' % (d.file, b.term_ln),
                              'the %s scan continues past a matching clone (all clones purged)' % hd,
                              'the %s scan stops at the first matching clone: further queued deliveries of the deleted registration still run '
                              '(and use the freed registration)' % hd)
                    if inside:
                        # removal-safe: no load of ->next through the removed node after the removal
                        rem = [ev for bid2 in body for ev in d.blocks[bid2].events if ev.kind == 'CALL' and ev.callee in ('qb_list_del', 'qb_loop_level_item_del', 'free')]
                        unsafe = []
                        for r in rem:
                            rargs = r.args[1:] if r.callee == 'qb_loop_level_item_del' else r.args     # arg 0 is the level, not the node
                            removed = {root_var(x)['n'] for x in rargs if root_var(x)}
                            hits2, _e2, _n2 = d.search(('after', r), goal=lambda ev: ev.kind == 'LOAD' and last_field(ev.e) and last_field(ev.e)[1] == 'next' and
                                                       root_var(ev.e) and root_var(ev.e)['n'] in removed and ev.blk in body,
                                               stop=lambda ev: ev.kind == 'STORE' and unwrap(ev.lhs).get('k') == 'var' and unwrap(ev.lhs)['n'] in removed)
                            unsafe += hits2
                        ctx.check('R6', 'del:%s-scan-removal-safe' % hd, not unsafe, unsafe[0][0] if unsafe else '%s (qb_loop_signal_del)' % d.file,
                                  'the scan does not step through a node it just removed', 'the scan reads ->next of a node it has just removed/freed')
        if not found:
            raise AnalysisBroken('qb_loop_signal_del: no cloned_from comparison in the %s scan' % hd)
    # the registration is unlinked and freed only after the scans
    hp = d.params[1]['n']
    frees = []
    for ev in d.calls('free'):
        v = unwrap(ev.args[0])
        if v.get('k') == 'var' and derives(d, v, ev, lambda x: mentions_var(x, hp)):
            frees.append(ev)
    scan_events = [x for (_hd, _h, body) in scans for bid in body for x in d.blocks[bid].events]
    ctx.check('R6', 'del:registration-freed-after-scans', bool(frees) and not any(d.may_follow(fr, x) for fr in frees for x in scan_events),
              frees[0] if frees else d, 'the registration is freed after both scans', 'the registration is freed before the clone scans')


def _reaches_within(f, start, target, body):
    seen = set()
    st = [start]
    while st:
        n = st.pop()
        if n == target:
            return True
        if n in seen or n not in body:
            continue
        seen.add(n)
        st.extend(t for (t, _l) in f.blocks[n].succs)
    return False


def r7(ctx):
    f = ctx.prog.fn('qb_loop_run')
    runs = list(f.calls('qb_loop_run_level'))
    polls = [ev for ev in f.calls('qb_loop_source::poll')]
    for rl in runs:
        def stop_tested(fb, t, lab):
            return not (fb.cond is not None and any(n.get('k') == 'mem' and n['f'] == 'stop_requested' for n in walk(fb.cond)))
        hits, _e, _n = f.search(('after', rl), goal=lambda ev: ev.kind == 'CALL' and (ev.callee == 'qb_loop_run_level' or ev.callee == 'qb_loop_source::poll'),
                                edge_filter=stop_tested)
        ctx.check('R7', 'stop-retested-after-level', not hits, rl, 'stop_requested is tested after every level run before more work is started',
                  'after a level run more work can start without stop_requested being tested')


def r8(ctx):
    prog = ctx.prog
    for rec in ('qb_loop_timer', 'qb_poll_entry'):
        ws = prog.writers('check', rec)
        if not ws:
            raise AnalysisBroken('%s.check has no writers' % rec)
        resets = [(g, ev) for (g, ev) in ws if cval(unwrap(ev.rhs)) is not None]
        fresh = [(g, ev) for (g, ev) in ws if cval(unwrap(ev.rhs)) is None]
        if not fresh:
            raise AnalysisBroken('%s.check is never given a fresh value' % rec)
        for (g, ev) in fresh:
            selfref = any(n.get('k') == 'mem' and n['f'] == 'check' and n.get('rec') == rec for n in walk(ev.rhs)) or ev.d['op'] in ('++', '+=')
            rnd = any(n.get('k') == 'call' and callee_of(n) in ('random', 'rand', 'arc4random', 'lrand48') for n in walk(ev.rhs or {}))
            if selfref:
                ok = not resets
                ctx.check('R8', '%s.check:generation-never-reset' % rec, ok, ev,
                          'the generation counter is never reset',
                          'the new check is computed from the slot\'s previous check, but %s resets that field to %s: after a slot fired/was deleted its next '
                          'user gets the same handle value again (a stale handle deletes an unrelated registration)' % (
                              resets[0][0].name if resets else '', estr(resets[0][1].rhs) if resets else ''))
            else:
                ctx.check('R8', '%s.check:fresh-value-source' % rec, rnd, ev, 'a new handle check comes from the PRNG',
                          'a new handle check is %s: neither random nor a never-reset generation counter' % estr(ev.rhs))


def r9(ctx):
    prog = ctx.prog
    f = prog.fn('qb_loop_run')
    polls = [ev for ev in f.events('CALL') if ev.callee == 'qb_loop_source::poll' and 'fd_source' in estr(ev.e)]
    if not polls:
        raise AnalysisBroken('qb_loop_run: descriptor poll not found')
    # the count the "may block" decision tests: a local compared > 0 on the way to the timeout stores and accumulated from level[].todo
    accs = [st for st in f.events('STORE') if st.d['op'] == '+=' and st.rhs is not None and last_field(unwrap(st.rhs)) == ('qb_loop_level', 'todo') and unwrap(st.lhs).get('k') == 'var']
    if not accs:
        raise AnalysisBroken('qb_loop_run: no accumulation of level todo counters')
    rem = estr(accs[0].lhs)
    loops = f.natural_loops()
    main = [h for h, b in loops.items() if polls[0].blk in b]
    if not main:
        raise AnalysisBroken('qb_loop_run: the poll is not in a loop')
    body = max((loops[h] for h in main), key=len)
    pre = [st for st in accs if estr(st.lhs) == rem and st.blk not in body]
    ctx.check('R9', 'rerun-counts-queued-work', bool(pre), pre[0] if pre else polls[0],
              '%s is made up from the levels\' todo counters before the first poll' % rem,
              '%s starts at its initial value on every qb_loop_run(): items that were moved to the dispatch lists before a stop are not counted, and with no timer pending '
              'the re-run blocks in the poll for ever (a job added before the stop never runs)' % rem)


def r10(ctx):
    prog = ctx.prog
    f = prog.fn('qb_loop_signal_del')
    purges = [ev for ev in f.events('CALL') if ev.callee in ('qb_loop_level_item_del', 'qb_list_del') and any(
        n.get('k') == 'var' for n in walk(ev.args[-1] if ev.callee == 'qb_loop_level_item_del' else ev.args[0]))]
    # which level do the scans index?  the registration's own priority, or a loop variable covering all levels
    idxs = set()
    for ev in f.events():
        for root in (ev.e, ev.rhs, ev.lhs):
            if root is None:
                continue
            for n in walk(root):
                if n.get('k') == 'idx' and last_field(n['b']) == ('qb_loop', 'level'):
                    idxs.add(estr(n['i']))
    if not idxs:
        raise AnalysisBroken('qb_loop_signal_del: no level is scanned')
    own = [i for i in idxs if i.endswith('->p')]
    # a loop variable: assigned a constant and incremented, compared against the highest priority
    allp = []
    for i in idxs - set(own):
        sts = [st for st in f.events('STORE') if estr(st.lhs) == i]
        if any(st.d['op'] == '=' and cval(unwrap(st.rhs)) == prog.econst('QB_LOOP_LOW') for st in sts) and any(st.d['op'] in ('++',) for st in sts):
            allp.append(i)
    mod = prog.fn('qb_loop_signal_mod')
    mod_changes_p = any(last_field(st.lhs) == ('qb_loop_sig', 'p') for st in mod.events('STORE'))
    ok = (bool(allp) and not own) or not mod_changes_p
    ctx.check('R10', 'signal_del-purges-every-priority', ok, f,
              'queued deliveries are purged from every level' if allp else 'the priority of a registration never changes',
              'qb_loop_signal_del only scans the level of the registration\'s current priority (%s) but qb_loop_signal_mod can change it: a delivery queued under the old '
              'priority survives the delete and its callback runs after the delete returned success' % own)


def r11(ctx, st):
    prog = ctx.prog
    f = prog.fn('_poll_add_')
    adds = [ev for ev in f.events('CALL') if ev.callee == 'qb_poll_source_driver::add' or ev.callee.endswith('::add')]
    if len(adds) != 1:
        raise AnalysisBroken('_poll_add_: driver add calls = %d' % len(adds))
    add = adds[0]
    rv = None
    rv_st = None
    for s_ in f.events('STORE'):
        if s_.rhs is not None and any(n.get('id') == add.e.get('id') for n in walk(s_.rhs)):
            rv = estr(s_.lhs)
            rv_st = s_
    if rv is None:
        raise AnalysisBroken('_poll_add_: result of the driver add is not stored')
    # failure edge: the slot is emptied (as by _poll_entry_empty_: number and check gone), not just marked EMPTY
    EMPTY = st['QB_POLL_ENTRY_EMPTY']
    failed = []
    for b in f.blocks.values():
        if b.cond is None:
            continue
        for (t, lab) in b.succs:
            if lab in (True, False) and any(a.ls == rv and ((a.op == '!=' and a.rc == 0) or (a.op == '<' and a.rc == 0)) for a in atoms_of(b.cond, lab)):
                # a test of the driver's answer: the variable may hold other results before (the slot search)
                defs, _en = f.reaching_defs(rv, f.end_of(b.id))
                if any(d_.d is rv_st.d for d_ in defs):
                    failed.append((b, t))
    if not failed:
        raise AnalysisBroken('_poll_add_: no failure edge after the driver add')
    okf = True
    for (b, t) in failed:
        hits_empty, _e, _n = f.search(('edge', b.id, t), goal=lambda ev: ev.kind == 'CALL' and ev.callee == '_poll_entry_empty_')
        bare, _e2, _n2 = f.search(('edge', b.id, t), goal=lambda ev: ev.kind == 'RETURN', stop=lambda ev: (ev.kind == 'CALL' and ev.callee == '_poll_entry_empty_') or
                                  (ev.kind == 'STORE' and last_field(ev.lhs) == ('pollfd', 'fd')))
        okf = okf and bool(hits_empty) and not bare
    ctx.check('R11', 'refused-add-empties-slot', okf, add,
              'a refused add resets the slot completely (no descriptor number, no check)',
              'a refused add only marks the slot EMPTY: it keeps the descriptor number and a non-zero check, so a later poll_del/poll_mod by number matches the dead slot '
              '(delete returns success and removes nothing; modify re-points the kernel registration at it)')
    # success edge: an entry being dispatched under the same number is retired
    JOBLIST = st['QB_POLL_ENTRY_JOBLIST']
    retire = [ev for ev in f.calls('_poll_entry_mark_deleted_')]

    def same_number_in_dispatch(a, fb):
        return (a.op == '==' and field_is(a.l, 'state', 'qb_poll_entry') and a.rc == JOBLIST) or \
               (a.op == '==' and last_field(a.l) == ('pollfd', 'fd') and estr(a.r) == f.params[2]['n']) or \
               (a.op == '==' and last_field(a.r) == ('pollfd', 'fd') and estr(a.l) == f.params[2]['n'])
    ok = bool(retire) and all(any(same_number_in_dispatch(a, None) and last_field(a.l) == ('pollfd', 'fd') or last_field(a.r) == ('pollfd', 'fd') for (a, _e) in f.guards(ev)) and
                              any(field_is(a.l, 'state', 'qb_poll_entry') and a.rc == JOBLIST for (a, _e) in f.guards(ev)) for ev in retire)
    # alternative shape: poll_mod / poll_del disambiguate themselves (they do not stop at the first entry carrying the number)
    ctx.check('R11', 'number-reuse-inside-callback', ok, retire[0] if retire else add,
              'a successful add retires an entry that is being dispatched under the same descriptor number',
              'an entry whose callback is running stays findable under its descriptor number: if the callback closes the descriptor and registers a new one that got the '
              'same number, poll_mod/poll_del for the new descriptor are applied to the old entry (the new one is then never dispatched, or stays armed as a ghost)')


def r12(ctx):
    prog = ctx.prog
    f = prog.fn('_adjust_sigactions_')
    acts = list(f.calls('sigaction'))
    if not acts:
        raise AnalysisBroken('_adjust_sigactions_: no sigaction call')
    loops = f.natural_loops()
    hdrs = [h for h, b in loops.items() if acts[0].blk in b]
    if not hdrs:
        raise AnalysisBroken('_adjust_sigactions_: sigaction is not in a loop')
    body = max((loops[h] for h in hdrs), key=len)
    iv = estr(acts[0].args[0])
    bound = None
    for bid in body:
        b = f.blocks[bid]
        if b.cond is None:
            continue
        for (t, lab) in b.succs:
            if lab in (True, False) and t in body:
                for a in atoms_of(b.cond, lab):
                    if a.ls == iv and a.op in ('<', '<=') and a.rc is not None:
                        bound = a.rc if a.op == '<' else a.rc + 1
    # every number that is (still) registered gets the handler, whatever was installed before: signal_del / signal_mod have just
    # reset the number they gave up to SIG_DFL and count on this loop to put the handler back for a second registration of it
    adds_ = list(f.calls('sigaddset'))
    if not adds_:
        raise AnalysisBroken('_adjust_sigactions_: the registered numbers are not collected (sigaddset)')
    # by control dependence (every branch counts, also one whose condition is a disjunction)
    extra = sorted(set(f.controlling_blocks(acts[0].blk)) - set().union(*[set(f.controlling_blocks(a_.blk)) for a_ in adds_]))
    ctx.check('R12', 'handler-installed-for-every-registered-number', not extra, acts[0],
              'sigaction runs under the same conditions under which a number is taken into the set of registered signals',
              'the handler is installed only if also %s: a number whose handler signal_del / signal_mod has just reset to SIG_DFL, and which another registration still wants, stays at the default action (its callback never runs again; SIGINT, SIGUSR1 ... kill the process)'
              % ' and '.join(estr(f.blocks[x].cond) for x in extra))
    # the highest signal number of this platform: the constant evaluator's value of the bound must reach NSIG
    import signal as _signal
    nsig = getattr(_signal, 'NSIG', None)      # one more than the highest signal number of this platform
    if bound is None or nsig is None:
        raise AnalysisBroken('_adjust_sigactions_: loop bound %s / NSIG %s not determined' % (bound, nsig))
    ctx.check('R12', 'handler-loop-covers-all-signals', bound >= nsig, acts[0],
              'the handler installation loop runs over the signal numbers below %d = NSIG' % bound,
              'the handler installation loop stops at %d but signal numbers go up to %d (NSIG is %d): the highest signal is accepted by qb_loop_signal_add '
              'and never gets the handler - its delivery kills the process' % (bound, nsig - 1, nsig))


def todo_accounting(ctx, rule):
    """level->todo counts the items on job_head: qb_loop_level_item_del (which decrements it) may only be applied to items found
    on a job list, never to items that are still on a wait list (they were never counted)"""
    prog = ctx.prog
    n = 0
    for (g, ev) in prog.callers_of('qb_loop_level_item_del'):
        # the list scan the call sits in: the "not yet back at the list head" guard (&item->list != &level->X_head) that dominates it
        heads = set()
        for (at, _edge) in g.guards(ev):
            if at.op != '!=':
                continue
            for nd in list(walk(at.l)) + list(walk(at.r)):
                if nd.get('k') == 'mem' and nd.get('f') in ('wait_head', 'job_head') and nd.get('rec') == 'qb_loop_level':
                    heads.add(nd['f'])
        if not heads:
            continue
        n += 1
        ctx.check(rule, 'todo:item_del-only-on-job-list:%s' % g.name, heads == {'job_head'}, ev,
                  'the helper that decrements todo is applied to items found on the job list',
                  '%s removes an item it found on the %s with qb_loop_level_item_del: that helper decrements level->todo, which never counted this item - todo goes negative and '
                  'hides one undispatched item from qb_loop_run, which then sleeps on it' % (g.name, sorted(heads)))
    if n == 0:
        raise AnalysisBroken('no list scan applies qb_loop_level_item_del')


def r13(ctx, st):
    prog = ctx.prog
    f = prog.fn('_poll_dispatch_and_take_back_')
    cb = [ev for ev in f.events() if ev.kind == 'STORE' and ev.rhs is not None and callee_of(unwrap(ev.rhs)) == 'qb_poll_entry::poll_dispatch_fn']
    if len(cb) != 1:
        raise AnalysisBroken('_poll_dispatch_and_take_back_: callback result stores = %d' % len(cb))
    resv = estr(cb[0].lhs)
    DEL = st['QB_POLL_ENTRY_DELETED']
    marks = [ev for ev in f.events('CALL') if ev.callee == '_poll_entry_mark_deleted_'] + \
            [ev for ev in f.events('STORE') if last_field(ev.lhs) == ('qb_poll_entry', 'state') and cval(unwrap(ev.rhs)) == DEL]
    if not marks:
        raise AnalysisBroken('_poll_dispatch_and_take_back_: the entry is never marked deleted')

    def is_drvdel(ev):
        return ev.kind == 'CALL' and (ev.callee or '').endswith('::del') and 'driver' in estr((ev.d.get('e') or {}).get('ce') or {})

    def already_deleted(fb, t, lab):
        # do not follow the edge on which the callback is known to have deleted the entry itself
        if fb.cond is None or lab not in (True, False):
            return True
        return not any(last_field(a.l) == ('qb_poll_entry', 'state') and a.op == '==' and a.rc == DEL for a in atoms_of(fb.cond, lab))
    bad = False
    found = False
    for b in f.blocks.values():
        if b.cond is None:
            continue
        for (t, lab) in b.succs:
            if lab in (True, False) and any(a.ls == resv and a.op == '<' and a.rc == 0 for a in atoms_of(b.cond, lab)):
                found = True
                hits, _e, _n = f.search(('edge', b.id, t), goal=lambda ev: any(ev is m for m in marks), stop=is_drvdel, edge_filter=already_deleted)
                bad = bad or bool(hits)
    if not found:
        raise AnalysisBroken('_poll_dispatch_and_take_back_: negative-result edge not found')
    ctx.check('R13', 'negative-return-leaves-the-driver', not bad, marks[0], 'the driver is told before the entry is marked deleted',
              'a descriptor whose callback returns negative is only marked deleted: it stays in the kernel\'s set - if it also stays open, adding it again is refused '
              '(EEXIST), qb_loop_poll_del says EBADF and every iteration sleeps 100 ms on an event for an entry it no longer has')


def r14(ctx):
    prog = ctx.prog
    f = prog.fn('_signal_dispatch_and_take_back_')
    cbs = [ev for ev in f.events() if (ev.kind == 'STORE' and ev.rhs is not None and callee_of(unwrap(ev.rhs)) == 'qb_loop_sig::dispatch_fn') or
           (ev.kind == 'CALL' and ev.callee == 'qb_loop_sig::dispatch_fn')]
    if not cbs:
        raise AnalysisBroken('_signal_dispatch_and_take_back_: callback not found')
    cb = cbs[-1]
    # (a) the registration is dereferenced after the callback only where cloned_from was seen non-NULL
    derefs = []
    for ev in f.events():
        if not f.may_follow(cb, ev) or ev is cb:
            continue
        for r_ in (ev.d.get('e'), ev.d.get('rhs')) + tuple(ev.args if ev.kind == 'CALL' else ()):
            for nn in walk(r_ or {}):
                if nn.get('k') == 'mem' and nn.get('arrow') and last_field(nn.get('b')) == ('qb_loop_sig', 'cloned_from'):
                    derefs.append(ev)
    ok = all(any(last_field(a.l) == ('qb_loop_sig', 'cloned_from') and a.op == '!=' and a.rc == 0 for (a, _e) in f.guards(ev)) for ev in derefs)
    ctx.check('R14', 'registration-used-only-while-attached', ok, derefs[0] if derefs else cb, 'after the callback cloned_from is dereferenced only where it is non-NULL',
              'after the signal callback returned non-zero the loop deletes the registration through sig->cloned_from without knowing whether the callback has deleted '
              '(freed) it itself: use after free, and if the block was reused by a new registration that one is removed')
    # (b) the delivery is noted around the callback
    noted = [ev for ev in f.events('STORE') if unwrap(ev.rhs).get('k') == 'var' and unwrap(ev.rhs)['n'] == f.params[0]['n'] or
             (ev.kind == 'STORE' and estr(unwrap(ev.rhs)) in {estr(unwrap(x.lhs)) for x in f.events('STORE') if unwrap(x.rhs).get('k') == 'cast' or True} and False)]
    noted = [ev for ev in f.events('STORE') if f.ev_dominates(ev, cb) and unwrap(ev.lhs).get('k') in ('mem', 'var') and unwrap(ev.lhs).get('sc') != 'l' and
             any(nn.get('k') == 'var' and nn.get('sc') in ('l', 'p') for nn in walk(ev.rhs)) and cval(unwrap(ev.rhs)) is None]
    ctx.check('R14', 'delivery-noted-during-callback', bool(noted), cb, 'the delivery being dispatched is recorded before the callback runs',
              'the delivery being dispatched is on no list and is recorded nowhere: qb_loop_signal_del called from the callback cannot detach it')
    # (c) signal_del detaches it
    d = prog.fn('qb_loop_signal_del')
    det = [ev for ev in d.events('STORE') if last_field(ev.lhs) == ('qb_loop_sig', 'cloned_from') and cval(unwrap(ev.rhs)) == 0]
    fr = [ev for ev in d.calls('free') if estr(unwrap(ev.args[0])) in {estr(unwrap(x.lhs)) for x in d.events('STORE')} | {'sig'}]
    ctx.check('R14', 'signal_del-detaches-the-running-delivery', bool(det), det[0] if det else d,
              'qb_loop_signal_del clears cloned_from of the delivery whose callback is running',
              'qb_loop_signal_del frees the registration without detaching the delivery that is being dispatched')


def r15(ctx):
    prog = ctx.prog
    n = 0
    for unit in ('lib/loop_poll.c', 'lib/loop_timerlist.c'):
        fns = list(prog.all_fns(files={unit}))
        # helpers that find a slot and can fail: a static function that returns, on some path, a value stored from qb_array_grow
        finders = []
        for g in fns:
            if not g.static:
                continue
            grows = [st for st in g.events('STORE') if st.rhs is not None and callee_of(unwrap(st.rhs)) == 'qb_array_grow']
            if grows and any(ev.e is not None and estr(unwrap(ev.e)) == estr(grows[0].lhs) for ev in g.returns()):
                finders.append(g.name)
        if not finders:
            raise AnalysisBroken('R15: %s: no slot finder that passes on the result of qb_array_grow' % unit)
        for f in fns:
            for st in list(f.events('STORE')) + list(f.events('DECL')):
                rhs = st.rhs if st.kind == 'STORE' else st.d.get('init')
                if rhs is None or callee_of(unwrap(rhs)) not in finders:
                    continue
                v = estr(st.lhs) if st.kind == 'STORE' else st.d['var']
                vs = {v}
                for st2 in f.events('STORE'):
                    if st2.rhs is not None and unwrap(st2.lhs).get('k') == 'var' and unwrap(st2.rhs).get('k') == 'var' and estr(st2.rhs) in vs:
                        vs.add(estr(st2.lhs))
                uses = [ev for ev in f.calls('qb_array_index') if any(mentions_var(ev.args[1], x) for x in vs) and f.may_follow(st, ev)]
                if not uses:
                    raise AnalysisBroken('R15: %s: the slot found is not used as an index' % f.name)

                def tested(a, fb, vs=vs):
                    return a.ls in vs and a.rc is not None and ((a.op == '>=' and a.rc >= 0) or (a.op == '>' and a.rc >= -1))
                n += 1
                path = None
                for u in uses:
                    path = path or f.uncut_path(u, tested, start=('after', st))
                ctx.check('R15', '%s:slot-result-tested' % f.name, path is None, uses[0],
                          'the result of %s is tested for an error before it is used as a slot index' % callee_of(unwrap(rhs)),
                          'the result of %s is used as a slot index untested: when the table cannot grow (65536 entries) it is -EINVAL, the index lookup fails and the assertion around it aborts the process instead of the add returning an error'
                          % callee_of(unwrap(rhs)), {'path': f.path_lines(path) if path else None})
    if n < 2:
        raise AnalysisBroken('R15: %d call sites of slot finders (descriptor add and timer add expected)' % n)


def r17(ctx):
    f = ctx.prog.fn('_qb_signal_add_to_jobs_')
    adds = [ev for ev in f.events('CALL') if ev.callee == 'qb_loop_level_item_add']
    if not adds:
        raise AnalysisBroken('_qb_signal_add_to_jobs_: no job is queued')
    loops = f.natural_loops()
    if not loops:
        raise AnalysisBroken('_qb_signal_add_to_jobs_: no loop over the registrations')
    for ev in adds:
        # a block from which the loop's back edge can no longer be reached is not part of the natural loop: that is the `break`
        back = any(ev.blk in loops[h] for h in loops)
        ctx.check('R17', 'signal:every-registration-gets-its-job', bool(back), ev,
                  'after a job was queued for one registration the walk over the registrations goes on',
                  'the walk over the registrations stops at the first one that matches: with two registrations for the same signal only the first callback runs on delivery')
