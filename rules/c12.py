"""C12 - log routing: a message reaches exactly the enabled, selected targets."""
from engine import qb
from engine.qb import (AnalysisBroken, abstract_run, estr, unwrap, cval, walk, last_field, fields_of, callee_of,
                       mentions_var, atoms_of, root_var, lockset, Sym, TOP)
from rules.common import field_is, has_call, derives

UNITS = ['lib/log.c', 'lib/log_dcs.c', 'lib/log_file.c', 'lib/log_syslog.c', 'lib/log_blackbox.c', 'lib/log_thread.c']
DECIDES = ('Decides that a filter change is applied to every known call site, that the replay for new call sites covers every '
           'target that can hold filters (or an equivalent shape), that all delivery loops use the same selection predicate with one '
           'delivery per target, that every filter type and every filter command is interpreted; outcomes over configuration '
           'histories and regex semantics are not decided.')
RULES = {
    'R1': 'qb_log_filter_ctl2: after a successful store _log_filter_apply runs for every call-site section, under the list lock; _log_filter_apply visits every registered call site',
    'R2': 'the two replay sites reach _log_filter_apply* for every target state for which filter_ctl2 accepts ADD, over all target slots - unless enable re-applies filters or delivery evaluates them',
    'R3': 'delivery loops select by state == ENABLED and bit(cs->targets,pos); one of {mark threaded, vlogger, logger} per target; qb_log_thread_log_post once per call outside the loop',
    'R4': '_cs_matches_filter_ covers all filter types, behind the priority window; FILE/FUNCTION strcmp, FORMAT strstr, *_REGEX regexec on the matching call-site field',
    'R5': '_log_filter_store and _log_filter_apply_to_cs interpret every enum qb_log_filter_conf member and set/clear the bit of the target passed in',
    'W1': 'QB_LOG_TARGET_MAX <= number of bits of qb_log_callsite.targets',
    'R6': 'removing a filter (or clearing a tag filter) leaves the known call sites as the remaining stored filters select them: the remove path clears and then re-applies every stored filter of that target / every stored tag filter (what first-seen call sites get), it does not clear by the arguments of the remove call; closing a target clears its filters with arguments qb_log_filter_ctl accepts',
    'R8': 'what disable closes, enable opens again: _log_target_disable runs the target\'s close callback; for every close callback the library itself installs (file, syslog, blackbox) _log_target_enable calls a function of the same unit that knows that callback (installs it again, or tests for it before it re-opens) - otherwise the target is ENABLED, its filters select the call site and nothing is delivered',
    'R9': 'once per call also when the routing changes under a backlog: a queued record is routed when the logging thread writes it, so a change of a target\'s threaded switch, of the filters or tags of existing call sites, or a run of the custom filter function happens only with the queue written out and the thread kept out (= C16.R11) - otherwise a target that has written a line itself gets it again from the thread, or loses what was logged for it',
    'R10': 'stored filters are replayed in the order they were set (the last tag filter that selects a call site decides its tag, whether it is applied when it is set or replayed for a call site seen later or after a tag filter was cleared): _log_filter_store appends at the tail and every walk over the tag filter list goes forward (or both are the other way round)',
    'R11': 'the bound of the delivery loops covers every slot: the scan that stores conf_active_max looks at every target slot up to the last one (QB_LOG_TARGET_MAX - 1), so that an enabled target in the last slot is delivered to',
    'R7': 'names are compared whole: the matcher makes no bounded copy of a filter alternative; the dynamic call-site lookup compares the function name wherever it compares the file name',
    'R12': 'the re-entrancy latch is given back: in qb_log_real_va_ every return after the latch (in_logger) was taken passes the store that clears it - a return that leaves it set makes every later log call of the process return at once, for every target (the one exception, named in the rule: the return taken when the line buffer cannot be allocated; DESIGN 8.4)',
}
FLOORS = {'R12': 1, 'R1': 6, 'R2': 4, 'R3': 9, 'R4': 10, 'R5': 7, 'W1': 1, 'R6': 5, 'R7': 3, 'R8': 3, 'R9': 5, 'R10': 3, 'R11': 1}


def run(ctx):
    r1(ctx)
    r2(ctx)
    r3(ctx)
    r4(ctx)
    r5(ctx)
    r6(ctx)
    r7(ctx)
    r8(ctx)
    from rules import c16
    c16.routing_changes(ctx, 'R9')
    r10(ctx)
    r11(ctx)
    r_linezero(ctx)
    r_msgid(ctx)
    w1(ctx)
    r12(ctx)


def _loop_over(f, ev, field_or_var):
    """is the event inside a natural loop whose blocks mention field_or_var (in a cond or load)?"""
    for hdr, body in f.natural_loops().items():
        if ev.blk in body:
            for bid in body:
                b = f.blocks[bid]
                trees = [x.e for x in b.events if x.kind == 'LOAD'] + ([b.cond] if b.cond else [])
                for t in trees:
                    if field_or_var in estr(t):
                        return hdr, body
    return None, None


def r1(ctx):
    prog = ctx.prog
    f = filter_core(prog)
    store = list(f.calls('_log_filter_store'))
    app = list(f.calls('_log_filter_apply'))
    if len(store) != 1 or not app:
        raise AnalysisBroken('qb_log_filter_ctl2: store=%d apply=%d' % (len(store), len(app)))
    allapp = app
    hdr, body = _loop_over(f, app[-1], 'callsite_sections')
    app = [app[-1]]
    ctx.check('R1', 'apply-in-section-loop', hdr is not None, app[0], 'the new filter is applied inside a loop over callsite_sections',
              'the new filter is not applied in a loop over all call-site sections')
    if hdr is not None:
        exits = [(bid, t) for bid in body for (t, _l) in f.blocks[bid].succs if t not in body]
        ctx.check('R1', 'section-loop-no-early-exit', all(bid == hdr for (bid, t) in exits), app[0],
                  'the section loop ends only at the end of the list', 'the section loop can stop early: later sections keep their old selection')
        # the apply call is not conditional inside the loop body
        _h, exits2, _n = f.search(('block', hdr), stop=lambda ev: ev is app[0],
                                  edge_filter=lambda fb, t, lab: t in body)
        reach_hdr_wo = False
        seen = set()
        st = [t for (t, _l) in f.blocks[hdr].succs if t in body]
        while st:
            n = st.pop()
            if n in seen:
                continue
            seen.add(n)
            if any(any(x is a_ for a_ in allapp) for x in f.blocks[n].events):
                continue
            for (t, _l) in f.blocks[n].succs:
                if t == hdr:
                    reach_hdr_wo = True
                elif t in body:
                    st.append(t)
        ctx.check('R1', 'apply-every-section', not reach_hdr_wo, app[0], 'every iteration applies the filter', 'some sections are skipped')
    ok = f.ev_dominates(store[0], app[0])
    ctx.check('R1', 'store-before-apply', ok, app[0], 'the filter is stored before it is applied', 'apply is not ordered after the store')
    at, _IN = lockset(f)
    held = at.get((app[0].blk, app[0].idx), frozenset())
    ctx.check('R1', 'apply-under-list-lock', '_listlock' in held, app[0], 'call sites are updated under _listlock', 'call sites are updated without _listlock')
    a = prog.fn('_log_filter_apply')
    tocs = list(a.calls('_log_filter_apply_to_cs'))
    hdr2, body2 = (None, None)
    if tocs:
        hdr2, body2 = _loop_over(a, tocs[0], 'stop')
    ctx.check('R1', 'apply-visits-all-callsites', len(tocs) == 1 and hdr2 is not None, tocs[0] if tocs else a,
              '_log_filter_apply walks start..stop of the section', '_log_filter_apply does not walk the whole section')
    if tocs:
        # reachable from entry crossing only the walk bound (start/stop) and the registered test (lineno)
        def allowed(fb, t, lab):
            if fb.cond is None or lab is None:
                return True
            flds = {n['f'] for n in walk(fb.cond) if n.get('k') == 'mem'}
            if flds <= {'lineno', 'format', 'stop', 'start'} and bool(flds):
                return True
            # an "in use" predicate of the slot alone: a static function of the call site only (no filter argument)
            calls = [n for n in walk(fb.cond) if n.get('k') == 'call']
            for c_ in calls:
                nm = callee_of(c_)
                if nm and prog.has_fn(nm) and len(c_['args']) == 1:
                    h = prog.fn(nm)
                    if not any(unwrap(st.lhs).get('k') != 'var' for st in h.events('STORE')) and \
                            {n['f'] for e_ in h.returns() for n in walk(e_.e or {}) if n.get('k') == 'mem'} <= {'lineno', 'format', 'filename', 'function'}:
                        return True
            return False
        hits, _e, _n = a.search(('entry',), goal=lambda ev: ev is tocs[0], edge_filter=allowed)
        ctx.check('R1', 'apply-unconditional-per-callsite', bool(hits), tocs[0], 'every registered call site gets the filter applied',
                  'applying the filter to a registered call site depends on a further condition: some call sites keep a stale selection')


def r2(ctx):
    prog = ctx.prog
    st = prog.enum('qb_log_target_state')
    UNUSED = st['QB_LOG_STATE_UNUSED']
    TMAX = prog.econst('QB_LOG_TARGET_MAX')
    # alternative shapes (DESIGN 2.6)
    en = prog.fn('_log_target_enable')
    alt_enable = any(ev.callee in ('_log_filter_apply', '_log_filter_apply_to_cs') for ev in ctx.inl(en, 2).events('CALL'))
    dl = prog.fn('qb_log_real_va_')
    alt_delivery = any(ev.callee == '_cs_matches_filter_' for ev in ctx.inl(dl, 2).events('CALL'))
    # which states does filter_ctl2 accept for ADD?
    ctl = filter_core(prog)
    accepted = set()
    # the state expression and the operation parameter as this function spells them (no local names assumed)
    sexprs = {estr(ev.e) for ev in ctl.events('LOAD') if last_field(ev.e) == ('qb_log_target', 'state')}
    if len(sexprs) != 1:
        raise AnalysisBroken('qb_log_filter_ctl2: target state is read through %d different expressions' % len(sexprs))
    sx = sexprs.pop()
    cp = ctl.params[1]['n']
    for name, v in st.items():
        visits, _t = abstract_run(ctl, {sx: v, cp: prog.econst('QB_LOG_FILTER_ADD')}, tracked={sx, cp})
        if any(ev.kind == 'CALL' and ev.callee == '_log_filter_store' for (ev, env) in visits):
            accepted.add(v)
    if not accepted:
        raise AnalysisBroken('qb_log_filter_ctl2: no target state reaches _log_filter_store')
    for (fname, callee) in (('qb_log_callsite_get2', '_log_filter_apply_to_cs'), ('qb_log_callsites_register', '_log_filter_apply')):
        f = prog.fn(fname)
        sites = [ev for ev in f.calls(callee) if field_is(ev.args[1], 'pos', 'qb_log_target')]
        if len(sites) != 1:
            raise AnalysisBroken('%s: replay sites = %d' % (fname, len(sites)))
        site = sites[0]
        tv = root_var(site.args[1])['n']
        sv = '%s->state' % tv
        missing = []
        for name, v in st.items():
            if v not in accepted:
                continue
            visits, _t = abstract_run(f, {sv: v}, tracked={sv})
            if not any((ev is site or ev.d is site.d) for (ev, env) in visits):
                missing.append(name)
        ok = not missing or alt_enable or alt_delivery
        ctx.check('R2', '%s:replay-covers-filter-holding-states' % fname, ok, site,
                  'stored filters are replayed for a new call site for every target state that can hold filters' if not missing else
                  'replay skips %s but %s' % (missing, 'enable re-applies filters' if alt_enable else 'delivery evaluates filters'),
                  'stored filters are not replayed for targets in state %s: a call site first seen while such a target holds filters is never selected once it is enabled' % missing)
        # slot range of the replay loop
        hdr, body = _loop_over(f, site, 'conf')
        bound_ok = False
        bound = None
        if hdr is not None:
            for bid in body:
                b = f.blocks[bid]
                if b.cond is None:
                    continue
                for (t, lab) in b.succs:
                    if lab in (True, False) and t in body:
                        for a in atoms_of(b.cond, lab):
                            if a.op in ('<', '<=') and unwrap(a.l).get('k') == 'var' and root_var(site.args[1]) is not None:
                                if a.rc is not None and ((a.op == '<' and a.rc >= TMAX) or (a.op == '<=' and a.rc >= TMAX - 1)):
                                    bound_ok = True
                                bound = a.rs
        ok2 = bound_ok or alt_enable or alt_delivery
        ctx.check('R2', '%s:replay-covers-all-slots' % fname, ok2, site, 'the replay loop covers every target slot (bound %s)' % bound,
                  'the replay loop stops at %s: filter-holding targets beyond it are skipped' % bound)


def r_linezero(ctx):
    """every walk over the call sites of a section reaches every call site in use: a slot may be skipped as unused, but not because of
    its line number alone - 0 is a line number like any other (qb_log_from_external_source, qb_log_callsite_get)"""
    prog = ctx.prog
    n = 0
    for g in prog.all_fns(files={'lib/log.c'}):
        for b in g.blocks.values():
            if b.cond is None:
                continue
            flds = {nn.get('f') for nn in walk(b.cond) if nn.get('k') == 'mem' and nn.get('rec') == 'qb_log_callsite'}
            if 'lineno' not in flds:
                continue
            # a test of the line number against 0 that decides whether the call site is visited
            zero = any(last_field(a.l) == ('qb_log_callsite', 'lineno') and a.rc == 0 for lab in (True, False) for a in atoms_of(b.cond, lab))
            if not zero:
                continue
            n += 1
            # in use = line number > 0 OR something else: on the skipping edge another field must be known absent as well
            skip_needs_more = False
            for (t, lab) in b.succs:
                if lab in (True, False):
                    ats = atoms_of(b.cond, lab)
                    if any(last_field(a.l) == ('qb_log_callsite', 'lineno') and a.op in ('==', '<=') and a.rc == 0 for a in ats) and \
                            any(last_field(a.l) and last_field(a.l)[0] == 'qb_log_callsite' and last_field(a.l)[1] != 'lineno' and a.op == '==' and a.rc == 0 for a in ats):
                        skip_needs_more = True
            # when the condition is split over blocks (a || b), the lineno block's "false" edge leads to the other test
            if not skip_needs_more:
                for (t, lab) in b.succs:
                    tb = g.blocks[t]
                    trees = ([tb.cond] if tb.cond is not None else []) + [x for ev in tb.events for x in (ev.d.get('e'), ev.d.get('rhs')) if x is not None]
                    if lab is False and any(nn.get('k') == 'mem' and nn.get('rec') == 'qb_log_callsite' and nn.get('f') != 'lineno' for tr in trees for nn in walk(tr)):
                        skip_needs_more = True
            ctx.check('R1', '%s:line-0-call-sites-visited' % g.name, skip_needs_more, '%s:%d (%s)' % (g.file, b.term_ln, g.name),
                      'a slot is skipped as unused only if it has no line number and no format either',
                      '%s skips every call site whose line number is 0: filters added or removed after its first execution never reach it (a removed filter keeps '
                      'selecting it, a new one never does, and its bit survives the close of the target)' % g.name)
    return n


def r_msgid(ctx):
    """the stored call site's message id may be absent: it is handed to strcmp only where it was seen to be non-NULL"""
    prog = ctx.prog
    g = prog.fn('qb_log_dcs_get')
    n = 0
    for ev in g.calls('strcmp', 'strncmp', 'strcasecmp'):
        for a in ev.args[:2]:
            if last_field(a) == ('qb_log_callsite', 'message_id'):
                n += 1
                want = estr(unwrap(a))
                ok = any(at.ls == want and at.op == '!=' and at.rc == 0 for (at, _e) in g.guards(ev))
                ctx.check('R7', 'dcs:stored-message-id-present-before-compare', ok, ev, 'the stored message id is compared only where it exists',
                          'strcmp is handed %s without a test that the stored call site has a message id: qb_log2("ID", ...) on a position first used '
                          'without one crashes' % want)
    return n


def filter_core(prog):
    """the function that stores a filter and applies it to the call-site sections: qb_log_filter_ctl2, or the function it hands its
    parameters to (a wrapper that brackets the change for the logging thread)"""
    f = prog.fn('qb_log_filter_ctl2')
    for _ in range(3):
        if list(f.calls('_log_filter_store')):
            return f
        nxt = [ev.callee for ev in f.events('CALL') if ev.callee and prog.has_fn(ev.callee) and list(prog.fn(ev.callee).calls('_log_filter_store'))]
        if len(nxt) != 1:
            break
        f = prog.fn(nxt[0])
    return f


def r3(ctx):
    prog = ctx.prog
    ENABLED = prog.econst('QB_LOG_STATE_ENABLED')

    def enabled(a, fb):
        return a.op == '==' and a.rc == ENABLED and field_is(a.l, 'state', 'qb_log_target')

    def selected(a, fb):
        l = unwrap(a.l)
        return a.op == '!=' and a.rc == 0 and l.get('k') == 'bin' and l['op'] == '&' and field_is(l['l'], 'targets', 'qb_log_callsite')

    def threaded(a, fb):
        return a.op == '!=' and a.rc == 0 and field_is(a.l, 'threaded', 'qb_log_target')

    def unthreaded(a, fb):
        return a.op == '==' and a.rc == 0 and field_is(a.l, 'threaded', 'qb_log_target')
    # which properties of a target make the logging thread write it: the fields of qb_log_target (other than state) seen non-zero
    # in front of the logger call in qb_log_thread_log_write.  A target with all of them is the thread's, every other enabled and
    # selected target is written at the call: the two conditions must be each other's complement
    w0 = prog.fn('qb_log_thread_log_write')
    tl = [ev for ev in w0.events('CALL') if ev.callee == 'qb_log_target::logger']
    if not tl:
        raise AnalysisBroken('qb_log_thread_log_write: no logger call')
    tprops = set()
    for (a, _e) in w0.guards(tl[0]):
        lf = last_field(a.l)
        if a.op == '!=' and a.rc == 0 and lf is not None and lf[0] == 'qb_log_target' and lf[1] not in ('state', 'pos'):
            tprops.add(lf[1])
    if 'threaded' not in tprops:
        tprops.add('threaded')

    def not_the_threads(a, fb):
        lf = last_field(a.l)
        return a.op == '==' and a.rc == 0 and lf is not None and lf[0] == 'qb_log_target' and lf[1] in tprops
    unthreaded = not_the_threads
    f = prog.fn('qb_log_real_va_')
    deliver = [ev for ev in f.events('CALL') if ev.callee in ('qb_log_target::vlogger', 'qb_log_target::logger')]
    if len(deliver) < 2:
        raise AnalysisBroken('qb_log_real_va_: delivery sites = %d' % len(deliver))
    for ev in deliver:
        what = ev.callee.split('::')[1]
        ctx.check('R3', 'real:%s-needs-enabled' % what, f.uncut_path(ev, enabled) is None, ev, '%s only for ENABLED targets' % what,
                  'a target that is not ENABLED can receive the message')
        ctx.check('R3', 'real:%s-needs-selected' % what, f.uncut_path(ev, selected) is None, ev, '%s only when the call site\'s target bit is set' % what,
                  'a target whose filters do not select the call site can receive the message')
        ctx.check('R3', 'real:%s-needs-unthreaded' % what, f.uncut_path(ev, unthreaded) is None, ev,
                  'direct delivery only for targets the logging thread does not write (it writes those with %s)' % ' and '.join(sorted(tprops)),
                  'a target the logging thread writes (%s set) is also written directly (message delivered twice)' % ' and '.join(sorted(tprops)))
    # at most one of vlogger / logger per target iteration
    vl = [ev for ev in deliver if ev.callee.endswith('vlogger')]
    lg = [ev for ev in deliver if ev.callee.endswith('::logger')]
    both = False
    for a in vl:
        for b in lg:
            hdr, body = _loop_over(f, a, 'conf')
            if hdr is None:
                continue
            hits, _e, _n = f.search(('after', a), goal=lambda ev, b=b: ev is b, edge_filter=lambda fb, t, lab: t != hdr and t in body)
            both = both or bool(hits)
    ctx.check('R3', 'real:one-delivery-per-target', not both, deliver[0], 'per target either vlogger or logger is used', 'a target can get both vlogger and logger calls')
    posts = list(f.calls('qb_log_thread_log_post'))
    inloop = any(p.blk in body for p in posts for body in f.natural_loops().values())
    ctx.check('R3', 'real:post-once-outside-loop', len(posts) == 1 and not inloop, posts[0] if posts else f,
              'the message is posted to the logging thread at most once per call', 'the message is posted %d times / inside the target loop' % len(posts))
    # the post happens iff some threaded+enabled+selected target exists: the flag is set only under those guards
    if posts:
        flag = None
        for (a, _e) in f.guards(posts[0]):
            if a.op == '!=' and a.rc == 0 and unwrap(a.l).get('k') == 'var' and unwrap(a.l).get('sc') == 'l':
                flag = a.ls
        sets = [ev for ev in f.events('STORE') if flag and estr(ev.lhs) == flag and cval(unwrap(ev.rhs)) not in (0, None)]
        def has_prop(pn):
            def pred(a, fb):
                lf = last_field(a.l)
                return a.op == '!=' and a.rc == 0 and lf is not None and lf[0] == 'qb_log_target' and lf[1] == pn
            return pred
        ok = bool(sets) and all(f.uncut_path(s, enabled) is None and f.uncut_path(s, selected) is None and
                                all(f.uncut_path(s, has_prop(pn)) is None for pn in tprops) for s in sets)
        ctx.check('R3', 'real:post-needs-threaded-target', ok, posts[0], 'posting requires an ENABLED, selected target that the thread will write (%s)' % ' and '.join(sorted(tprops)),
                  'the message is left to the thread for a target the thread will not write (it wants %s): that target gets nothing' % ' and '.join(sorted(tprops)))
    w = prog.fn('qb_log_thread_log_write')
    lg2 = [ev for ev in w.events('CALL') if ev.callee == 'qb_log_target::logger']
    if not lg2:
        raise AnalysisBroken('qb_log_thread_log_write: no logger call')
    for ev in lg2:
        ctx.check('R3', 'thread:logger-needs-enabled', w.uncut_path(ev, enabled) is None, ev, 'thread delivery only for ENABLED targets',
                  'the logging thread writes to a target that is not ENABLED (e.g. just closed)')
        ctx.check('R3', 'thread:logger-needs-selected', w.uncut_path(ev, selected) is None, ev, 'thread delivery only when the target bit is set',
                  'the logging thread writes to targets that do not select the call site')
        ctx.check('R3', 'thread:logger-needs-threaded', w.uncut_path(ev, threaded) is None, ev, 'thread delivery only for threaded targets',
                  'the logging thread also writes to non-threaded targets (delivered twice)')


def r4(ctx):
    prog = ctx.prog
    f = prog.fn('_cs_matches_filter_')
    types = prog.enum('qb_log_filter_type')
    typ = f.params[1]['n']
    sw = [b for b in f.blocks.values() if b.term == 'SwitchStmt' and b.cond is not None and estr(b.cond) == typ]
    if len(sw) != 1:
        raise AnalysisBroken('_cs_matches_filter_: switch on the filter type not found')
    cases = set()
    for (t, lab) in sw[0].succs:
        if isinstance(lab, tuple) and lab[0] == 'case':
            cases |= set(range(lab[1], lab[2] + 1))
    missing = [n for n, v in types.items() if v not in cases]
    ctx.check('R4', 'all-types-have-a-case', not missing, '%s:%d (_cs_matches_filter_)' % (f.file, sw[0].term_ln),
              'every filter type has a matcher', 'filter types without a matcher (such filters never select anything): %s' % missing)
    # the priority window cuts the switch
    swev = qb.Pos(sw[0].id, 0)
    lowp, highp = f.params[5]['n'], f.params[4]['n']

    def below(a, fb):
        return field_is(a.l, 'priority') and a.op == '<=' and a.rs == lowp

    def above(a, fb):
        return field_is(a.l, 'priority') and a.op == '>=' and a.rs == highp
    pos_rets = [ev for ev in f.returns() if ev.e is not None and cval(unwrap(ev.e)) != 0]
    if not pos_rets:
        raise AnalysisBroken('_cs_matches_filter_: no positive return')
    for ev in pos_rets:
        ctx.check('R4', 'priority-window-first', f.uncut_path(ev, below) is None and f.uncut_path(ev, above) is None, ev,
                  'a match is only reported inside the priority window', 'a call site outside the priority window can match')
    star = [b for b in f.blocks.values() if b.cond is not None and has_call(b.cond, 'strcmp') and any(n.get('k') == 'str' and n.get('v') == '*' for n in walk(b.cond))]
    ctx.check('R4', 'star-matches-all', bool(star), f, '"*" selects every call site in the window', 'the "*" wildcard is no longer recognised')
    # locals handed to a matcher that are declared with a constant initialiser (the regex subject starts as NULL):
    # the evaluation starts at the switch, so they enter it with that constant
    env0 = {}
    for ev in f.events('CALL'):
        if ev.callee in ('regexec', 'strcmp', 'strstr'):
            for a in ev.args:
                au = unwrap(a)
                if au.get('k') == 'var' and au.get('sc') == 'l':
                    for dv in f.events('DECL'):
                        if dv.d['var'] == au['n'] and dv.d.get('init') is not None and cval(unwrap(dv.d['init'])) is not None:
                            sts = [st for st in f.events('STORE') if estr(st.lhs) == au['n'] and sw[0].id not in f.dom().get(st.blk, set())]
                            if not sts:
                                env0[au['n']] = cval(unwrap(dv.d['init']))
    qb.SYM_FIELDS[0] = True
    try:
        want = {'QB_LOG_FILTER_FILE': ('strcmp', 'filename'), 'QB_LOG_FILTER_FUNCTION': ('strcmp', 'function'),
                'QB_LOG_FILTER_FORMAT': ('strstr', 'format'), 'QB_LOG_FILTER_FILE_REGEX': ('regexec', 'filename'),
                'QB_LOG_FILTER_FUNCTION_REGEX': ('regexec', 'function'), 'QB_LOG_FILTER_FORMAT_REGEX': ('regexec', 'format')}
        for name, v in types.items():
            if name not in want:
                ctx.inconclusive('R4', 'type:%s' % name, f, 'unknown filter type (rule table needs confirming)')
                continue
            fn_, fld = want[name]
            # locals that are assigned one of the call site's strings (possibly chosen by the type) are followed too
            csvars = {estr(st_.lhs) for st_ in f.events('STORE') if unwrap(st_.lhs).get('k') == 'var' and st_.rhs is not None and
                      any(n_.get('k') == 'mem' and n_.get('rec') == 'qb_log_callsite' for n_ in walk(st_.rhs))}
            visits, _t = abstract_run(f, dict(env0, **{typ: v}), tracked={typ} | set(env0) | csvars, start=sw[0].id)
            used = set()
            for (ev, env) in visits:
                if ev.kind == 'CALL' and (ev.callee == fn_ or (fn_ == 'strcmp' and ev.callee == 'strncmp')):
                    for a in ev.args:
                        au = unwrap(a)
                        if au.get('k') == 'mem' and au.get('rec') == 'qb_log_callsite':
                            used.add(au['f'])
                        elif au.get('k') == 'var' and isinstance(env.get(au['n']), Sym):
                            used.add(str(env[au['n']]).split('->')[-1])
            ctx.check('R4', 'type:%s' % name, used == {fld}, f, '%s uses %s on cs->%s' % (name, fn_, fld),
                      '%s compares %s via %s (expected cs->%s)' % (name, sorted(used) or 'nothing', fn_, fld))
    finally:
        qb.SYM_FIELDS[0] = False


def r5(ctx):
    prog = ctx.prog
    confs = prog.enum('qb_log_filter_conf')
    s = prog.fn('_log_filter_store')
    cpar = s.params[1]['n']
    sw = [b for b in s.blocks.values() if b.term == 'SwitchStmt' and b.cond is not None and estr(b.cond) == cpar]
    if len(sw) != 1:
        raise AnalysisBroken('_log_filter_store: switch on the command not found')
    cases = set()
    for (t, lab) in sw[0].succs:
        if isinstance(lab, tuple) and lab[0] == 'case':
            cases |= set(range(lab[1], lab[2] + 1))
    missing = [n for n, v in confs.items() if v not in cases]
    ctx.check('R5', 'store:all-commands', not missing, s, 'every filter command selects a list', 'filter commands rejected by the store: %s' % missing)
    a = prog.fn('_log_filter_apply_to_cs')
    cp, tp = a.params[2]['n'], a.params[1]['n']
    expect = {'QB_LOG_FILTER_ADD': ('targets', '|='), 'QB_LOG_FILTER_REMOVE': ('targets', '&='), 'QB_LOG_FILTER_CLEAR_ALL': ('targets', '&='),
              'QB_LOG_TAG_SET': ('tags', '='), 'QB_LOG_TAG_CLEAR': ('tags', '='), 'QB_LOG_TAG_CLEAR_ALL': ('tags', '=')}
    for name, v in confs.items():
        if name not in expect:
            ctx.inconclusive('R5', 'apply:%s' % name, a, 'unknown filter command (rule table needs confirming)')
            continue
        fld, op = expect[name]
        visits, _t = abstract_run(a, {cp: v}, tracked={cp})
        sts = [(ev, env) for (ev, env) in visits if ev.kind == 'STORE' and last_field(ev.lhs) and last_field(ev.lhs)[0] == 'qb_log_callsite']
        good = [ev for (ev, env) in sts if last_field(ev.lhs)[1] == fld and ev.d['op'] == op]
        bad = [ev for (ev, env) in sts if ev not in good]
        ok = bool(good) and not bad
        if ok and fld == 'targets':
            ok = all(mentions_var(ev.rhs, tp) and any(n.get('k') == 'bin' and n['op'] == '<<' and cval(unwrap(n['l'])) == 1 for n in walk(ev.rhs)) for ev in good)
            if op == '&=':
                ok = ok and all(any(n.get('k') == 'un' and n['op'] == '~' for n in walk(ev.rhs)) for ev in good)
        if ok and name == 'QB_LOG_TAG_SET':
            ok = all(estr(ev.rhs) == tp for ev in good)
        if ok and name in ('QB_LOG_TAG_CLEAR', 'QB_LOG_TAG_CLEAR_ALL'):
            ok = all(cval(unwrap(ev.rhs)) == 0 for ev in good)
        ctx.check('R5', 'apply:%s' % name, ok, good[0] if good else a, '%s updates cs->%s with %s for the target/tag passed in' % (name, fld, op),
                  '%s does not (only) update cs->%s with %s of the value passed in' % (name, fld, op))
        # *_CLEAR_ALL must not depend on the matcher, the others must
        matcher = any(ev.kind == 'CALL' and ev.callee == '_cs_matches_filter_' for (ev, env) in visits)
        if name.endswith('CLEAR_ALL'):
            ctx.check('R5', 'apply:%s-unconditional' % name, all(not a.may_follow(m, g) for g in good for m in a.calls('_cs_matches_filter_')) or not matcher, a,
                      '%s ignores the matcher' % name, '%s depends on the matcher' % name)
        else:
            def matched(at_, fb):
                return at_.op == '!=' and at_.rc == 0 and callee_of(unwrap(at_.l)) == '_cs_matches_filter_'
            ctx.check('R5', 'apply:%s-needs-match' % name, all(a.uncut_path(g, matched) is None for g in good), a,
                      '%s only changes call sites the filter matches' % name, '%s changes call sites the filter does not match' % name)


def w1(ctx):
    prog = ctx.prog
    rec = prog.record('qb_log_callsite')
    tf = [f for f in rec['fields'] if f['n'] == 'targets']
    if not tf:
        raise AnalysisBroken('qb_log_callsite.targets not found')
    bits = tf[0]['bytes'] * 8
    tmax = prog.econst('QB_LOG_TARGET_MAX')
    ctx.check('W1', 'target-bits', tmax <= bits, 'include/qb/qblog.h', 'QB_LOG_TARGET_MAX (%d) <= %d bits of qb_log_callsite.targets' % (tmax, bits),
              'QB_LOG_TARGET_MAX (%d) exceeds the %d bits of the target mask' % (tmax, bits))


def r6(ctx):
    prog = ctx.prog
    f = filter_core(prog)
    cp = f.params[1]['n']
    REMOVE, TAGCLR = prog.econst('QB_LOG_FILTER_REMOVE'), prog.econst('QB_LOG_TAG_CLEAR')
    apps = list(f.calls('_log_filter_apply'))
    # replays: apply calls whose configuration argument is a stored filter's own (flt->conf), inside a loop over a filter list
    replays = [ev for ev in apps if last_field(unwrap(ev.args[2])) == ('qb_log_filter', 'conf')]
    for (what, val, lst) in (('filter-remove', REMOVE, 'filter_head'), ('tag-clear', TAGCLR, 'tags_head')):
        # evaluate the function for this command: which apply calls run, with which configuration argument?
        visits, _t = abstract_run(f, {cp: val}, tracked={cp})
        ran = [ev for (ev, env) in visits if ev.kind == 'CALL' and ev.callee == '_log_filter_apply']
        by_args = [ev for ev in ran if estr(unwrap(ev.args[2])) == cp]
        replay = [ev for ev in ran if any(ev.d is r.d for r in replays)]
        ctx.check('R6', '%s:recomputed-from-stored-filters' % what, bool(replay) and not by_args, (by_args or replay or apps)[0],
                  'on %s the known call sites are cleared and every stored filter is applied again' % what,
                  'on %s the known call sites are changed by the arguments of the call itself: a call site that another stored filter still selects loses its %s, '
                  'a remove that matches no stored filter still deselects, and a removed regex filter clears nothing' % (what, 'target bit' if val == REMOVE else 'tag'))
        if val == TAGCLR and replay:
            own = all(any(n.get('k') == 'mem' and n.get('f') == 'new_value' and n.get('rec') == 'qb_log_filter' for n in walk(ev.args[1])) for ev in replay)
            ctx.check('R6', 'tag-clear:each-filter-re-applied-with-its-own-tag', own, replay[0],
                      'after a tag filter is cleared the remaining tag filters are re-applied with the tag each of them stores',
                      'after a tag filter is cleared the remaining tag filters are re-applied with %s, the tag named in the clear call, not with their own: a call site already known gets the cleared filter\'s tag from the survivors, one first used afterwards gets the right one'
                      % estr(replay[0].args[1]))
    # a replay hands the stored filter to the matcher as it was stored: every matcher argument (type, text, compiled regex, priority
    # range) is that filter's own field.  A NULL or foreign regex makes _cs_matches_filter_ answer "no" for a regex filter, so
    # call sites already known lose what call sites first used afterwards still get.
    n_rep = 0
    for g in prog.all_fns(files={'lib/log.c'}):
        for ev in list(g.calls('_log_filter_apply')) + list(g.calls('_log_filter_apply_to_cs')):
            if last_field(unwrap(ev.args[2])) != ('qb_log_filter', 'conf'):
                continue
            n_rep += 1
            callee = prog.fn(ev.callee)
            base = estr(unwrap(unwrap(ev.args[2])['b'])) if unwrap(ev.args[2]).get('k') == 'mem' else None
            wrong = []
            used = []
            for i in range(3, len(ev.args)):
                pn = callee.params[i]['n']
                au = unwrap(ev.args[i])
                lf = last_field(au)
                if not (lf and lf[0] == 'qb_log_filter' and au.get('k') == 'mem' and estr(unwrap(au['b'])) == base) or lf[1] in used:
                    wrong.append('%s = %s' % (pn, estr(ev.args[i])))
                else:
                    used.append(lf[1])
            ctx.check('R6', 'replay:%s:matcher-arguments-are-the-stored-filter' % g.name, not wrong, ev,
                      'the stored filter is re-applied with its own type, text, regex and priority range',
                      'a stored filter is re-applied with %s instead of its own field: the matcher sees a different filter than the one installed (a regex filter '
                      'without its compiled regex matches nothing), so call sites already known are routed differently from ones first used afterwards' % ', '.join(wrong))
    if n_rep < 2:
        raise AnalysisBroken('log.c: %d replay sites of stored filters found' % n_rep)
    tf = prog.fn('qb_log_target_free')
    clr = [ev for ev in list(tf.calls('qb_log_filter_ctl')) + list(tf.calls('qb_log_filter_ctl2')) + list(tf.calls(filter_core(prog).name)) if cval(unwrap(ev.args[1])) == prog.econst('QB_LOG_FILTER_CLEAR_ALL')]
    ok = bool(clr) and all(cval(unwrap(ev.args[3])) != 0 or unwrap(ev.args[3]).get('k') == 'str' for ev in clr)
    UNUSED = prog.econst('QB_LOG_STATE_UNUSED')
    gone = [ev for ev in tf.events('CALL') if ev.callee == '_log_target_state_set' and len(ev.args) >= 2 and cval(unwrap(ev.args[1])) == UNUSED] + \
           [st for st in tf.events('STORE') if last_field(st.lhs) == ('qb_log_target', 'state') and cval(unwrap(st.rhs)) == UNUSED]
    early = [g_ for g_ in gone for c_ in clr if tf.may_follow(g_, c_)]
    ctx.check('R6', 'target_free-clears-filters-while-the-slot-is-in-use', bool(clr) and not early, early[0] if early else (clr[0] if clr else tf),
              'the filters are cleared before the slot is marked unused',
              'qb_log_target_free marks the slot UNUSED before it clears the filters: the filter core refuses operations on an unused slot (-EBADF, ignored here), so the closed target\'s filters and call-site bits stay and the next target opened in the slot gets messages none of its own filters select')
    ctx.check('R6', 'target_free-clears-filters', ok, clr[0] if clr else tf,
              'closing a target clears its filters with a text qb_log_filter_ctl2 accepts',
              'qb_log_target_free asks for CLEAR_ALL with a NULL text, which qb_log_filter_ctl2 refuses: the closed target\'s filters and call-site bits are inherited by the next target opened in the slot')


def r7(ctx):
    """identity and matching use whole strings"""
    prog = ctx.prog
    f = prog.fn('_cs_matches_filter_')
    arrs = [ev for ev in f.events('DECL') if prog.type_info(ev.d.get('ty', '')).get('kind') == 'array']
    copies = [ev for ev in f.events('CALL') if ev.callee in ('snprintf', 'strncpy', 'memcpy', 'strlcpy') and ev.args and
              unwrap(ev.args[0]).get('k') == 'var' and unwrap(ev.args[0])['n'] in {a.d['var'] for a in arrs}]
    ctx.check('R7', 'matcher:no-bounded-copy-of-names', not copies, copies[0] if copies else f,
              'file/function alternatives are compared in place',
              'a filter alternative is copied into a fixed-size buffer (%s) before it is compared: a name longer than the buffer never matches its own filter and a name equal to '
              'the cut prefix matches wrongly' % (arrs[0].d.get('ty') if arrs else ''))
    # a file / function alternative selects the call site whose name IS the alternative: a comparison of the first n characters only
    # is made under a test that the name is n characters long
    for ev in f.calls('strncmp'):
        names = [a for a in ev.args[:2] if unwrap(a).get('k') == 'var' or last_field(a)]
        ln = estr(unwrap(ev.args[2]))
        whole = False
        for (at, _e) in f.guards(ev):
            if at.op != '==':
                continue
            for (x, y) in ((at.l, at.r), (at.r, at.l)):
                if isinstance(x, dict) and isinstance(y, dict) and callee_of(unwrap(x)) == 'strlen' and estr(unwrap(y)) == ln and \
                        any(estr(unwrap(unwrap(x)['args'][0])) == estr(unwrap(a)) for a in ev.args[:2]):
                    whole = True
        ctx.check('R4', 'matcher:alternative-compared-as-a-whole', whole, ev,
                  'the first %s characters are compared only where the name is %s characters long' % (ln, ln),
                  'strncmp(%s) is not preceded by a test that the name is exactly %s characters long: the alternative matches every name it is a prefix of '
                  '(a filter for "send" also selects "sendmsg_retry")' % (', '.join(estr(a) for a in ev.args), ln))
    try:
        d = prog.fn('qb_log_dcs_get')
    except Exception:
        return
    # every event that is reached because the file name compared equal is also guarded by the function name comparing equal
    def eq_on(at, fld):
        return at.op == '==' and at.rc == 0 and callee_of(unwrap(at.l)) == 'strcmp' and any(
            nd.get('k') == 'mem' and nd.get('rec') == 'qb_log_callsite' and nd.get('f') == fld for nd in walk(at.l))
    n = 0
    bad = []
    for ev in d.events():
        if ev.kind not in ('RETURN', 'STORE'):
            continue
        gs = [at for (at, _e) in d.guards(ev)]
        if any(eq_on(at, 'filename') for at in gs):
            n += 1
            if not any(eq_on(at, 'function') for at in gs):
                bad.append(d.blocks[ev.blk])
    # a caller-supplied line number cannot abort the process: the slot index is reduced to the lookup array's range
    lp = None
    for prm in d.params:
        if prm.get('ty', '').startswith('unsigned int') and prm['n'] != d.params[0]['n']:
            lp = prm['n']
    look = [ev for ev in d.calls('qb_array_index') if 'lookup' in estr(ev.args[0])]
    if look:
        ixs = unwrap(look[0].args[1])
        reduced = ixs.get('k') == 'bin' and ixs['op'] in ('%', '&') and cval(unwrap(ixs['r'])) is not None
        ctx.check('R7', 'dcs:line-number-reduced-to-table-range', reduced, look[0],
                  'the lookup slot is the line number reduced to the table size (%s)' % estr(ixs),
                  'the lookup table is indexed by the raw line number (%s): a log call from a line >= 65536 (any value can come through qb_log_from_external_source) '
                  'fails the assert on qb_array_index and aborts the process' % estr(ixs))
    if n == 0:
        raise AnalysisBroken('qb_log_dcs_get: no identity comparison on the file name')
    # ... and by the line, the priority and the format: the filters' priority window is applied to the call site's stored priority
    def eq_field(at, fld):
        return at.op == '==' and any(nd.get('k') == 'mem' and nd.get('rec') == 'qb_log_callsite' and nd.get('f') == fld
                                     for side in (at.l, at.r) if isinstance(side, dict) for nd in walk(side))
    for fld in ('lineno', 'priority', 'format'):
        miss = []
        for ev in d.events():
            if ev.kind not in ('RETURN', 'STORE'):
                continue
            gs = [at for (at, _e) in d.guards(ev)]
            if any(eq_on(at, 'filename') for at in gs) and not any(eq_field(at, fld) or eq_on(at, fld) for at in gs):
                miss.append(ev)
        ctx.check('R7', 'dcs:identity-includes-%s' % fld, not miss, miss[0] if miss else d,
                  'a dynamic call site is found again only if its %s is the same' % fld,
                  'a dynamic call site is looked up without comparing the %s: two log calls that differ in it share the first one\'s call site, so the second is '
                  'routed (priority window, format filters) and printed as if it were the first' % fld)
    ctx.check('R7', 'dcs:identity-includes-function', not bad, '%s:%d (qb_log_dcs_get)' % (d.file, bad[0].term_ln if bad else d.line),
              'a dynamic call site is identified by file, function, line, priority and format',
              'a dynamic call site is looked up without comparing the function name: two log calls that differ in the function only share one call site (function filters see the first)')


def _ev_trees(ev):
    return [t for t in (ev.d.get('e'), ev.d.get('lhs'), ev.d.get('rhs'), ev.d.get('init'), ev.d.get('cond')) if isinstance(t, dict)] + \
           [a for a in (ev.args if ev.kind == 'CALL' else []) if isinstance(a, dict)]


def _mentions_fn(g, name):
    for b in g.blocks.values():
        if b.cond is not None and any(n.get('k') in ('fn', 'ref') and n.get('n') == name for n in walk(b.cond)):
            return True
        for ev in b.events:
            for t in _ev_trees(ev):
                if any(n.get('k') in ('fn', 'ref') and n.get('n') == name for n in walk(t)):
                    return True
    return False


def r8(ctx):
    prog = ctx.prog
    dis = prog.fn('_log_target_disable')
    if not any(ev.callee == 'qb_log_target::close' for ev in dis.events('CALL')):
        raise AnalysisBroken('_log_target_disable does not run the close callback')
    closers = {}
    for f in prog.all_fns():
        for st in f.events('STORE'):
            if last_field(st.lhs) == ('qb_log_target', 'close'):
                r = unwrap(st.rhs)
                if r.get('k') in ('fn', 'ref') and prog.has_fn(r['n']):
                    closers.setdefault(r['n'], st)
    if len(closers) < 3:
        raise AnalysisBroken('R8: %d close callbacks installed by the library (file, syslog, blackbox expected)' % len(closers))
    en = prog.fn('_log_target_enable')
    called = sorted({ev.callee for ev in en.events('CALL') if prog.has_fn(ev.callee)})
    for name, st in sorted(closers.items()):
        unit = prog.fn(name).file
        openers = [g for g in called if prog.fn(g).file == unit and _mentions_fn(prog.fn(g), name)]
        ctx.check('R8', 'enable-reopens:%s' % name, bool(openers), st,
                  'a target closed by %s at disable is opened again at enable (%s)' % (name, ', '.join(openers)),
                  '_log_target_disable runs %s, but _log_target_enable calls nothing in %s that knows it (calls: %s): a target of that kind that was disabled and enabled again reports ENABLED and receives nothing'
                  % (name, unit, ', '.join(called) or 'none'))


def r10(ctx):
    prog = ctx.prog
    st_fn = prog.fn('_log_filter_store')
    ins = [ev for ev in st_fn.events('CALL') if ev.callee in ('qb_list_add_tail', 'qb_list_add')]
    if len(ins) != 1:
        raise AnalysisBroken('_log_filter_store: list insertions = %d' % len(ins))
    want = 'next' if ins[0].callee == 'qb_list_add_tail' else 'prev'
    walks = []
    for g in prog.all_fns(files={'lib/log.c'}):
        # local aliases of the tag filter list
        alias = {'tags_head'}
        for st in g.events('STORE'):
            if st.rhs is not None and unwrap(st.lhs).get('k') == 'var' and any(n.get('k') == 'var' and n.get('n') == 'tags_head' for n in walk(st.rhs)):
                alias.add(estr(st.lhs))
        for ev in list(g.events('STORE')) + list(g.events('DECL')):
            rhs = ev.rhs if ev.kind == 'STORE' else ev.d.get('init')
            if not isinstance(rhs, dict):
                continue
            for n in walk(rhs):
                if n.get('k') == 'mem' and n.get('f') in ('next', 'prev') and any(m.get('k') == 'var' and m.get('n') in alias for m in walk(n['b'])):
                    walks.append((g, ev, n['f']))
    if len(walks) < 2:
        raise AnalysisBroken('R10: %d walks over the tag filter list found' % len(walks))
    ctx.check('R10', 'filters-appended', True, ins[0], 'a new filter is %s the list' % ('appended to' if want == 'next' else 'put at the head of'), '')
    seen = set()
    for (g, ev, d) in walks:
        if (g.name, d == want) in seen:
            continue
        seen.add((g.name, d == want))
        ctx.check('R10', '%s:replay-in-order-set' % g.name, d == want, ev,
                  '%s walks the tag filter list in the order the filters were set' % g.name,
                  '%s walks the tag filter list by %s while _log_filter_store inserts with %s: the stored filters are replayed in the reverse of the order they were applied in when they were set - where two tag filters select one call site its tag depends on whether it was first used before or after they were set, and flips when an unrelated tag filter is cleared'
                  % (g.name, d, ins[0].callee))


def r11(ctx):
    prog = ctx.prog
    TMAX = prog.econst('QB_LOG_TARGET_MAX')
    n = 0
    for f in prog.all_fns(files={'lib/log.c'}):
        sts = [st for st in f.events('STORE') if unwrap(st.lhs).get('k') == 'var' and unwrap(st.lhs).get('sc') == 'g' and unwrap(st.lhs)['n'] == 'conf_active_max' and cval(unwrap(st.rhs)) is None]
        if not sts:
            continue
        loops = f.natural_loops()
        for st in sts:
            inl = [(h, b) for (h, b) in loops.items() if st.blk in b]
            if not inl:
                # a block that leaves the loop with break is not part of the natural loop: the loop whose header dominates it and
                # whose body branches to it
                inl = [(h, b) for (h, b) in loops.items() if h in f.dom().get(st.blk, set()) and
                       any(st.blk == t_ or st.blk in f._block_reach().get(t_, set()) for b_ in b for (t_, _l) in f.blocks[b_].succs if t_ not in b)]
            if not inl:
                continue
            h, body = min(inl, key=lambda x: len(x[1]))
            # the loop variable: the one the index of conf[] in the body is built from
            ixs = [n_['i'] for b_ in body for ev in f.blocks[b_].events for t in ([ev.d.get('e'), ev.d.get('lhs'), ev.d.get('rhs')]) if isinstance(t, dict)
                   for n_ in walk(t) if n_.get('k') == 'idx' and unwrap(n_['b']).get('k') == 'var' and unwrap(n_['b'])['n'] == 'conf']
            ixs += [n_['i'] for b_ in body if f.blocks[b_].cond is not None for n_ in walk(f.blocks[b_].cond)
                    if n_.get('k') == 'idx' and unwrap(n_['b']).get('k') == 'var' and unwrap(n_['b'])['n'] == 'conf']
            if not ixs:
                raise AnalysisBroken('%s: the scan that stores conf_active_max does not index conf[]' % f.name)
            ix = unwrap(ixs[0])
            k = 0
            v = ix
            if ix.get('k') == 'bin' and ix['op'] in ('-', '+') and cval(unwrap(ix['r'])) is not None:
                k = cval(unwrap(ix['r'])) * (-1 if ix['op'] == '-' else 1)
                v = unwrap(ix['l'])
            if v.get('k') != 'var':
                raise AnalysisBroken('%s: index %s of the scan not understood' % (f.name, estr(ix)))
            lv = v['n']
            inits = [cval(unwrap(e.rhs)) for e in f.events('STORE') if estr(e.lhs) == lv and e.d['op'] == '=' and e.blk not in body]
            steps = {e.d['op'] for e in f.events('STORE') if estr(e.lhs) == lv and e.blk in body}
            bounds = [a for (t_, lab) in f.blocks[h].succs if lab in (True, False) and t_ in body for a in atoms_of(f.blocks[h].cond, lab) if a.ls == lv and a.rc is not None]
            top = None
            if steps <= {'--', '-='} and inits and None not in inits:
                top = max(inits) + k
            elif steps <= {'++', '+='} and bounds:
                a = bounds[0]
                top = (a.rc - 1 if a.op == '<' else a.rc) + k
            n += 1
            ctx.check('R11', '%s:scan-reaches-the-last-slot' % f.name, top is not None and top >= TMAX - 1, st,
                      'the scan for the highest enabled slot looks at slots up to %s (the last is %d)' % (top, TMAX - 1),
                      'the scan that stores conf_active_max looks at slots up to %s only, the last slot is %d: a target opened when all the others are in use is enabled, selected, and never delivered to (the delivery loops stop at conf_active_max)'
                      % (top, TMAX - 1))
    if n == 0:
        raise AnalysisBroken('R11: no scan stores conf_active_max')


def r12(ctx):
    prog = ctx.prog
    f = prog.fn('qb_log_real_va_')

    def is_latch(n):
        return n.get('k') == 'call' and callee_of(n) == 'qb_atomic_int_compare_and_exchange' and 'in_logger' in estr(n['args'][0])
    takes = [b for b in f.blocks.values() if b.cond is not None and any(is_latch(n) for n in walk(b.cond))]
    if not takes:
        raise AnalysisBroken('qb_log_real_va_: the in_logger latch is not taken in a condition')
    clears = [ev for ev in f.calls('qb_atomic_int_set') if 'in_logger' in estr(ev.args[0]) and cval(unwrap(ev.args[1])) == 0]
    if not clears:
        ctx.viol('R12', 'latch-given-back-on-every-return', f, 'qb_log_real_va_ never clears in_logger: the first log call is the last one delivered')
        return

    def alloc_failed(ev):
        for (at, _e) in f.guards(ev):
            if at.op == '==' and at.rc == 0 and unwrap(at.l).get('k') == 'var':
                defs, entry = f.reaching_defs(unwrap(at.l)['n'], ev)
                if defs and not entry and any(d.kind == 'STORE' and callee_of(unwrap(d.rhs)) in ('malloc', 'calloc', 'realloc') for d in defs):
                    return True
        return False
    bad = []
    for ev in f.returns():
        # reachable from the function entry without passing a clear, and after the latch was taken (= not the return of the latch test itself)
        hits, _e, _n = f.search(('entry',), goal=lambda x, ev=ev: x is ev, stop=lambda x: any(x is c for c in clears))
        if not hits:
            continue
        if ev.blk in {t for b in takes for (t, lab) in b.succs} and len(f.blocks[ev.blk].events) <= 1:
            continue        # the return of the latch test: nothing was taken (or cs == NULL, see below)
        if alloc_failed(ev):
            continue
        bad.append(ev)
    ctx.check('R12', 'latch-given-back-on-every-return', not bad, bad[0] if bad else clears[0],
              'every return after the latch was taken clears in_logger (allocation failure excepted)',
              'qb_log_real_va_ returns with in_logger still set: every later log call of the process finds the latch taken and returns at once - no target gets anything any more')
