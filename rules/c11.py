"""C11 - overwrite ring / blackbox keeps the newest records, intact."""
from engine.qb import (AnalysisBroken, abstract_run, estr, unwrap, cval, walk, last_field, fields_of, callee_of,
                       mentions_var, atoms_of, root_var)
from engine.bounds import Analysis, Lin, State
from rules.common import field_is, has_call, derives, value_sources, shared_store, is_marker_get, macro_named
from rules import c01, c07, c13, c14, c15

UNITS = ['lib/ringbuffer.c', 'lib/log_blackbox.c', 'lib/log_format.c', 'lib/log.c']
TECHNIQUE = ('static analysis: CFG loop/cut-set rules for the make-room loop, abstract interpretation over linear inequalities for '
             'reserve >= commit in the blackbox writer, constant agreement of writer/reader layouts')
DECIDES = ('Decides that in overwrite mode room is made by reclaiming published chunks in a loop on the same margin comparison '
           'before the new header is written, that an emptied overwrite ring is not taken for a full one, that the stepped index '
           'stays below word_size, that the blackbox writer never commits more than it reserved and stays inside the '
           'reservation with every copy, and that writer and reader agree on the record layout; "exactly the newest k chunks" over all '
           'length sequences is not decided.')
RULES = {
    'R1': 'make room, then write: under OVERWRITE the allocation loops on space_free < len + K (same K as normal mode), reclaims in the loop body, gives up with NULL when reclaim fails, and writes the header only after the loop exit',
    'R2': 'the writer-side reclaim only consumes a published chunk (C01.R2 for _rb_chunk_reclaim)',
    'R3': 'reserve >= commit: every copy of _blackbox_vlogger lies inside the reserved chunk and the committed length is at most the reserved length; the reservation itself is entailed not to exceed the longest chunk the ring holds (the value of the ring function qb_rb_chunk_alloc compares lengths with), so that a small record is never refused - and the blackbox given up - because of the room asked for a message of the full line length',
    'R4': 'writer/reader record layout agree (C15.R5)',
    'R6': 'an overwrite ring that the writer has just emptied is writable: at write_pt == read_pt the "full" verdict that depends on the wake-up count is not reachable in overwrite mode, or the writer-side reclaim takes the count of the chunk it drops back (timedwait/reclaim callback in the make-room loop)',
    'R5': 'ring index arithmetic the overwrite path relies on (= C07.R2 chunk_step: skips the header, rounds up, result in [0, word_size - 1]; C07.R6 space_free: three index cases, an empty ring offers word_size)',
    'R7': 'a write that is refused drops nothing: in overwrite mode the make-room loop is entered only after the requested length (plus the margin) was compared with the size of the whole ring, so a chunk that can never fit does not cost every stored chunk before it is refused',
    'R8': 'the dump ends with the last record: the two words behind a chunk - what the reader takes for the next header - are overwritten behind the committed length, in commit (= C07.R7; the blackbox reserves more than it commits, so marks put behind the reserved length leave stale payload right behind the newest record)',
}
FLOORS = {'R1': 5, 'R2': 3, 'R3': 9, 'R4': 2, 'R5': 8, 'R6': 1, 'R7': 1, 'R8': 3}


def run(ctx):
    prog = ctx.prog
    r1(ctx)
    # R2 = C01.R2 restricted to the reclaim function
    sub = type(ctx)(prog, ctx.prop, ctx.tier, ctx.depth)
    c01.r2(sub, c01._magic_consts(prog))
    for r in sub.results:
        if r['key'].startswith('_rb_chunk_reclaim'):
            r['rule'] = 'R2'
            ctx.results.append(r)
    r3(ctx)
    r6(ctx)
    sub = type(ctx)(prog, ctx.prop, ctx.tier, ctx.depth)
    c15.r5(sub)
    for r in sub.results:
        if r['key'].startswith('record:') or r['key'] == 'ring-modulus-matches-writer':
            r['rule'] = 'R4'
            ctx.results.append(r)
    sub = type(ctx)(prog, ctx.prop, ctx.tier, ctx.depth)
    H = c07.r2(sub)
    c07.r6(sub)
    c07.r1(sub, H)
    for r in sub.results:
        # open-margin: "every write of at most the requested size succeeds" needs a ring that has room for it
        if r['key'].startswith('step-') or r['key'].startswith('space_free:') or r['key'] in ('length-at-offset-0', 'open-margin'):
            r['rule'] = 'R5'
            ctx.results.append(r)
    r7(ctx)
    sub = type(ctx)(prog, ctx.prop, ctx.tier, ctx.depth)
    c07.r7(sub)
    for r in sub.results:
        r['rule'] = 'R8'
        ctx.results.append(r)


def r1(ctx):
    prog = ctx.prog
    f = prog.fn('qb_rb_chunk_alloc')
    lenp = f.params[1]['n']
    loops = f.natural_loops()
    rec = list(f.calls('_rb_chunk_reclaim'))
    if len(rec) != 1:
        raise AnalysisBroken('qb_rb_chunk_alloc: reclaim calls=%d' % len(rec))
    lp = [(h, b) for (h, b) in loops.items() if rec[0].blk in b]
    ctx.check('R1', 'reclaim-in-loop', bool(lp), rec[0], 'room is made in a loop (several old chunks may have to go)',
              'room is made by a single reclaim: a new chunk larger than the oldest one overwrites unread data / is refused')
    body = max(lp, key=lambda x: len(x[1]))[1] if lp else set()
    # the loop condition: space_free < len + K
    allc = [b for b in f.blocks.values() if b.cond is not None and has_call(b.cond, 'qb_rb_space_free')]
    if lp and not any(b.id in body for b in allc):
        ctx.check('R1', 'loop-on-margin-comparison', False, rec[0], '',
                  'the make-room loop does not measure the free space in its condition (it works from a value taken before the loop): what the dropped chunks give back is not what a tally of their lengths says - lengths are rounded up to words, and an emptied ring is free as a whole - so a write that has to drop everything gives up with the ring already emptied')
        return
    if len(allc) != 2:
        raise AnalysisBroken('qb_rb_chunk_alloc: %d space_free comparisons (expected overwrite + normal mode)' % len(allc))

    def single_def(name):
        ds = [ev for ev in list(f.events('STORE')) + list(f.events('DECL'))
              if (ev.kind == 'DECL' and ev.d['var'] == name) or (ev.kind == 'STORE' and estr(ev.lhs) == name)]
        ds = [ev for ev in ds if (ev.rhs if ev.kind == 'STORE' else ev.d.get('init')) is not None]
        if len(ds) == 1 and (ds[0].kind == 'DECL' or ds[0].d['op'] == '='):
            return ds[0].rhs if ds[0].kind == 'STORE' else ds[0].d['init']
        return None

    def margin(blk):
        c = unwrap(blk.cond)
        if c.get('k') == 'bin' and c['op'] in ('<', '>') :
            l, r = (c['l'], c['r']) if c['op'] == '<' else (c['r'], c['l'])
            if has_call(l, 'qb_rb_space_free'):
                ru = unwrap(r)
                if ru.get('k') == 'var' and ru['n'] != lenp and single_def(ru['n']) is not None:
                    r = single_def(ru['n'])     # need = len + MARGIN; while (free < need)
                return c07._plus_const(r, lambda v: estr(v) == lenp)
        return None
    conds = [b for b in allc if b.id in body]
    ok = len(conds) == 1
    K = None
    if ok:
        K = margin(conds[0])
        # the staying edge is the "too small" one
        stay = [(t, lab) for (t, lab) in conds[0].succs if t in body]
        ok = K is not None and len(stay) == 1 and stay[0][1] is True
    ctx.check('R1', 'loop-on-margin-comparison', ok, '%s:%d (qb_rb_chunk_alloc)' % (f.file, conds[0].term_ln if conds else rec[0].ln),
              'the loop continues while space_free < len + %s' % K, 'there is no make-room loop that continues on space_free < len + margin')
    # same K in both modes
    Ks = [margin(b) for b in allc]
    if None in Ks:
        ctx.inconclusive('R1', 'same-margin-both-modes', f, 'a free-space comparison is not of the form space_free < len + K: %s' % [estr(b.cond) for b in allc])
    else:
        ctx.check('R1', 'same-margin-both-modes', len(set(Ks)) == 1 and Ks[0] > 0, f, 'overwrite and normal mode use the same margin (%s)' % Ks[0],
                  'the two modes compare the free space against different margins: %s' % Ks)
    # reclaim failure gives up with NULL, no header store
    rcv = None
    for st in list(f.events('STORE')) + list(f.events('DECL')):
        rhs = st.rhs if st.kind == 'STORE' else st.d.get('init')
        if rhs is not None and callee_of(unwrap(rhs)) == '_rb_chunk_reclaim':
            rcv = estr(st.lhs) if st.kind == 'STORE' else st.d['var']
    gave_up = False
    for b in f.blocks.values():
        if b.cond is None:
            continue
        for (t, lab) in b.succs:
            if lab in (True, False) and any(a.ls == rcv and a.op == '!=' and a.rc == 0 for a in atoms_of(b.cond, lab)):
                rets, _e, _n = f.search(('edge', b.id, t), goal=lambda ev: ev.kind == 'RETURN')
                hits, _e2, _n2 = f.search(('edge', b.id, t), goal=lambda ev: shared_store(ev))
                gave_up = bool(rets) and all(cval(unwrap(ev.e)) == 0 for (ev, _p) in rets) and not hits
    ctx.check('R1', 'reclaim-failure-gives-up', gave_up, rec[0], 'a failing reclaim ends the allocation with NULL and no header store',
              'a failing reclaim does not end the allocation cleanly (the header is written over an unreclaimable chunk)')
    # header stores only after the loop exit
    hs = [ev for ev in f.events() if shared_store(ev)]
    if not hs:
        raise AnalysisBroken('qb_rb_chunk_alloc: no chunk header store')
    ok = bool(lp) and all(ev.blk not in body for ev in hs)
    ctx.check('R1', 'header-after-loop', ok, hs[0], 'the new chunk header is written after the make-room loop',
              'the chunk header is written inside the make-room loop' if lp else 'there is no make-room loop before the header store')


RING_MEASURES = set()


class VlogAnalysis(c14.EncAnalysis):
    """the chunk handed out by qb_rb_chunk_alloc(rb, n) is a buffer of n bytes named CHUNK"""

    def transfer(self, ev, st):
        if ev.kind == 'STORE' and ev.rhs is not None and callee_of(unwrap(ev.rhs)) == 'qb_rb_chunk_alloc' and unwrap(ev.lhs).get('k') == 'var':
            name = unwrap(ev.lhs)['n']
            n = self.lin(unwrap(ev.rhs)['args'][1], st)
            # the reservation is no more than the ring can give to one chunk (RINGMAX = the value of the function of the ring that
            # was asked for it); a request above that is refused - and the caller then gives the blackbox up
            self.oblige(ev, 'reservation<=ring-can-give', (n - Lin.term('RINGMAX')) if n is not None else None, st,
                        'the reserved size %s is not entailed to be <= the longest chunk the ring holds' % estr(unwrap(ev.rhs)['args'][1]))
            st.forget(name)
            st.forget('CHUNK')
            if n is not None:
                st.forget('CHUNK_CAP')
                st.add_eq(Lin.term('CHUNK_CAP'), n)
            st.add_eq(Lin.term(name), Lin.term('CHUNK'))
            return
        if ev.kind == 'STORE' and ev.rhs is not None and callee_of(unwrap(ev.rhs)) == 'qb_vsnprintf_serialize' and unwrap(ev.lhs).get('k') == 'var':
            call = unwrap(ev.rhs)
            n = self.lin(call['args'][1], st)
            if n is not None:
                self.check_write(ev, call['args'][0], n, st, 'qb_vsnprintf_serialize(%s, %s, ..)' % (estr(call['args'][0]), estr(call['args'][1])))
            name = unwrap(ev.lhs)['n']
            st.forget(name)
            st.add_le(0, Lin.term(name))
            if n is not None:
                st.add_le(Lin.term(name), n)       # encoder returns <= max_len (C14.R1 serialize:returns<=max_len)
            return
        if ev.kind in ('STORE', 'DECL'):
            rhs = ev.rhs if ev.kind == 'STORE' else ev.d.get('init')
            r_ = unwrap(rhs) if rhs is not None else {}
            lhs_var = ev.d['var'] if ev.kind == 'DECL' else (unwrap(ev.lhs)['n'] if unwrap(ev.lhs).get('k') == 'var' else None)
            if lhs_var and r_.get('k') == 'call' and callee_of(r_) in RING_MEASURES:
                st.forget(lhs_var)
                st.forget('RINGMAX')
                st.add_eq(Lin.term(lhs_var), Lin.term('RINGMAX'))
                st.add_le(0, Lin.term('RINGMAX'))
                return
            if lhs_var and r_.get('k') == 'cond':
                mm = self.minmax(rhs)
                if mm and mm[0] == 'min':
                    a_, b_ = self.lin(mm[1], st), self.lin(mm[2], st)
                    st.forget(lhs_var)
                    self._typefacts(st, lhs_var)
                    for x in (a_, b_):
                        if x is not None and lhs_var not in x.t:
                            st.add_le(Lin.term(lhs_var), x)
                    return
        if ev.kind == 'CALL' and ev.callee == 'qb_rb_chunk_commit':
            n = self.lin(ev.args[1], st)
            self.oblige(ev, 'commit<=reserved', (n - Lin.term('CHUNK_CAP')) if n is not None else None, st,
                        'the committed length %s is not entailed to be <= the reserved length' % estr(ev.args[1]))
            return
        super().transfer(ev, st)


def r3(ctx):
    prog = ctx.prog
    lo, hi = 4, 4096
    try:
        sub = type(ctx)(prog, ctx.prop, ctx.tier, ctx.depth)
        lo, hi = c13.line_limit_invariant(sub)
    except AnalysisBroken:
        pass
    f = prog.fn('_blackbox_vlogger')
    # functions of the ring alone that are computed from its word_size and are what qb_rb_chunk_alloc compares the length with
    RING_MEASURES.clear()
    c07.PROG[0] = prog
    al = prog.fn('qb_rb_chunk_alloc')
    for g in prog.all_fns(files={'lib/ringbuffer.c'}):
        if len(g.params) == 1 and g.returns() and not list(g.events('STORE')) and any(c_.callee == g.name for c_ in al.events() if c_.kind == 'CALL') or \
                (len(g.params) == 1 and any(n_.get('k') == 'call' and callee_of(n_) == g.name for b_ in al.blocks.values() for ev_ in b_.events
                                             for n_ in walk(ev_.d.get('rhs') or ev_.d.get('e') or ev_.d.get('init') or {}))):
            if all(r_.e is not None and any(n_.get('k') == 'mem' and n_.get('f') == 'word_size' for n_ in walk(r_.e)) for r_ in g.returns()):
                RING_MEASURES.add(g.name)
    inv = [Lin(lo) - Lin.term(c13.MLL), Lin.term(c13.MLL) - Lin(hi)]
    an = VlogAnalysis(prog, f, {'CHUNK': Lin.term('CHUNK_CAP')}, init=inv)
    an.extra_nonneg = ('strlen',)
    an.run()
    n = 0
    for (ev, key, text, ok) in an.obligations:
        n += 1
        ctx.check('R3', 'vlogger:%s' % key, ok, ev, 'entailed', text)
    if n < 9:
        raise AnalysisBroken('_blackbox_vlogger: only %d obligations (copies into the chunk / commit) were recognised' % n)
    commits = [k for (_e, k, _t, _o) in an.obligations if k == 'commit<=reserved']
    if not commits:
        raise AnalysisBroken('_blackbox_vlogger: commit not analysed')


def r6(ctx):
    """the count consulted at write_pt == read_pt is posted by every commit but, in overwrite mode, not taken back when the writer
    drops a chunk: after the make-room loop has emptied the ring the count is > 0 and the ring would look full for ever"""
    prog = ctx.prog
    sf = prog.fn('qb_rb_space_free')
    # the stores of "no space" (constant 0) made under a q_len-dependent condition
    full = []
    for st in sf.events('STORE'):
        if unwrap(st.lhs).get('k') == 'var' and st.d['op'] == '=' and cval(unwrap(st.rhs)) == 0:
            gs = [a for (a, _e) in sf.guards(st)]
            if any(callee_of(unwrap(a.l)) == 'qb_rb_notifier::q_len_fn' or has_call(a.l, 'qb_rb_notifier::q_len_fn') for a in gs):
                full.append(st)
    al = prog.fn('qb_rb_chunk_alloc')
    loops = al.natural_loops()
    rec = list(al.calls('_rb_chunk_reclaim'))
    body = set()
    for h, b in loops.items():
        if rec and rec[0].blk in b:
            body |= b
    takes_back = any(ev.kind == 'CALL' and ev.callee in ('qb_rb_notifier::timedwait_fn', 'qb_rb_notifier::reclaim_fn') and ev.blk in body for ev in al.events('CALL'))
    if not takes_back:
        # or inside the writer-side reclaim itself, with a callback that is actually installed for semaphore rings
        rc = prog.fn('_rb_chunk_reclaim')
        installed = prog.slots().get('qb_rb_notifier::reclaim_fn', set())
        takes_back = bool(installed) and any(ev.callee == 'qb_rb_notifier::reclaim_fn' for ev in rc.events('CALL'))
    if not full:
        ctx.ok('R6', 'emptied-overwrite-ring-is-writable', sf, 'qb_rb_space_free has no count-dependent "full" verdict')
        return

    def not_overwrite(a, fb):
        # (flags & OVERWRITE) == 0
        l = unwrap(a.l)
        return a.op == '==' and a.rc == 0 and l.get('k') == 'bin' and l['op'] == '&' and field_is(l['l'], 'flags') and macro_named(l['r'], 'QB_RB_FLAG_OVERWRITE')
    guarded = all(sf.uncut_path(st, not_overwrite) is None for st in full)
    ctx.check('R6', 'emptied-overwrite-ring-is-writable', guarded or takes_back, full[0],
              'the count-dependent "full" verdict is %s' % ('not reachable in overwrite mode' if guarded else 'kept exact: the make-room loop takes the dropped chunk\'s count back'),
              'at write_pt == read_pt qb_rb_space_free reports "full" whenever the wake-up count is > 0, but the overwrite writer drops chunks without taking their count back: '
              'once it has emptied the ring (a chunk larger than half the ring), every later write fails with EINVAL and the ring stays empty')


def r7(ctx):
    prog = ctx.prog
    f = prog.fn('qb_rb_chunk_alloc')
    lenp = f.params[1]['n']
    rec = list(f.calls('_rb_chunk_reclaim'))
    if len(rec) != 1:
        raise AnalysisBroken('qb_rb_chunk_alloc: reclaim calls=%d' % len(rec))

    c07.PROG[0] = prog
    can_fit = c07.len_bounded_pred(f, lenp)
    ctx.check('R7', 'never-fitting-write-refused-before-reclaim', f.uncut_path(rec[0], can_fit) is None, rec[0],
              'old chunks are dropped only for a chunk that the empty ring could hold',
              'the make-room loop drops chunk after chunk for a request larger than the whole ring and fails only when none is left: '
              'a write that is refused (EINVAL) has emptied the ring')
