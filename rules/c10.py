"""C10 - event loop priorities are weak: no level is starved.

Finite abstract evaluation of qb_loop_run's do-while body over
p_stop in {LOW, MED, HIGH} (values read from enum qb_loop_priority)."""
from engine.qb import (cmp_forms, AnalysisBroken, abstract_run, atoms_of, estr, unwrap, cval, walk, last_field, fields_of,
                       callee_of, mentions_var, _eval, TOP)
from rules.common import value_sources, field_is, has_call, const_leaves

UNITS = ['lib/loop.c', 'lib/loop_job.c', 'lib/loop_poll_epoll.c']
DECIDES = ('Decides, by finite abstract evaluation of the loop body over p_stop, that the rotation is a single 3-cycle serving '
           'every level with HIGH >= MED >= LOW >= 1 dispatch opportunities, that each level run dispatches at least one pending item '
           'from the list head while items are appended at the tail, and that the loop does not block while work is pending.')
RULES = {
    'R1': 'the successor function of p_stop over one loop iteration is a single 3-cycle over {LOW,MED,HIGH}',
    'R2': 'levels run in each phase are upward closed; over the cycle every level runs, HIGH >= MED >= LOW >= 1',
    'R3': 'a level run dispatches >= 1 item when its list is non-empty (to_process constant >= 1, single writer), takes the first entry; items are appended at the tail',
    'R5': 'queued jobs are promoted to the run list on every iteration for every level, depending only on the wait list being non-empty; job/timer sources are polled in every iteration',
    'R4': 'ms_timeout is non-zero only when remaining_todo <= 0 and timer_todo <= 0; remaining_todo sums todo of all levels',
    'R6': 'a ready descriptor is handed to its level in the iteration in which it is ready, however many others are: the epoll driver repeats its bounded batch (without waiting) while the batch came back full, or asks for as many events as there are entries',
}
FLOORS = {'R1': 3, 'R2': 6, 'R3': 8, 'R4': 7, 'R5': 4, 'R6': 1}


def run(ctx):
    prog = ctx.prog
    pr = prog.enum('qb_loop_priority')
    LOW, MED, HIGH = pr['QB_LOOP_LOW'], pr['QB_LOOP_MED'], pr['QB_LOOP_HIGH']
    levels = [LOW, MED, HIGH]
    ctx.check('R1', 'three-levels', sorted(levels) == [LOW, LOW + 1, LOW + 2] and LOW < MED < HIGH,
              'include/qb/qbloop.h (enum qb_loop_priority)',
              'LOW < MED < HIGH are consecutive (%s)' % levels, 'priority constants are not consecutive: %s' % levels)
    f = prog.fn('qb_loop_run')
    # the rotation variable: the local compared with the level index in the guard of qb_loop_run_level
    runs = list(f.calls('qb_loop_run_level'))
    if not runs:
        raise AnalysisBroken('qb_loop_run: no call of qb_loop_run_level')
    rl = runs[0]
    ix = None
    for n in walk(rl.args[0]):
        if n.get('k') == 'idx' and field_is(n['b'], 'level'):
            ix = estr(n['i'])
    if ix is None:
        raise AnalysisBroken('qb_loop_run: level index expression not found')
    rot = None
    for (a, _e) in f.guards(rl):
        if a.ls == ix and a.op in ('>=', '>') and unwrap(a.r).get('k') == 'var':
            rot = a.rs
        elif a.rs == ix and a.op in ('<=', '<') and unwrap(a.l).get('k') == 'var':
            rot = a.ls
    if rot is None:
        raise AnalysisBroken('qb_loop_run: the level call is not guarded by a comparison of the level index with a rotation variable')
    # outer loop header: the natural loop containing the fd poll call
    polls = [ev for ev in f.calls('qb_loop_source::poll') if 'fd_source' in estr(ev.e)]
    if len(polls) != 1:
        raise AnalysisBroken('qb_loop_run: fd_source->poll call sites = %d' % len(polls))
    loops = f.natural_loops()
    cands = [(h, body) for (h, body) in loops.items() if polls[0].blk in body and rl.blk in body]
    if not cands:
        raise AnalysisBroken('qb_loop_run: outer loop not found')
    hdr, body = max(cands, key=lambda x: len(x[1]))
    # initial value
    inits = [ev for ev in f.events() if (ev.kind == 'DECL' and ev.d['var'] == rot and 'init' in ev.d) or
             (ev.kind == 'STORE' and estr(ev.lhs) == rot and ev.blk not in body)]
    init_vals = {cval(unwrap(ev.d['init'] if ev.kind == 'DECL' else ev.rhs)) for ev in inits}
    ctx.check('R1', 'initial-in-domain', bool(init_vals) and init_vals <= set(levels), inits[0] if inits else f,
              'rotation variable starts at %s' % sorted(init_vals), 'rotation variable starts outside {LOW,MED,HIGH}: %s' % init_vals)
    succ = {}
    served = {}
    summed = {}
    for v in levels:
        visits, terms = abstract_run(f, {rot: v}, tracked={rot, ix}, start=hdr, barrier={hdr})
        nxt = set()
        for t in terms:
            if t[0] == 'barrier':
                nxt.add(t[1].get(rot, 'TOP'))
        succ[v] = nxt
        s = set()
        sm = set()
        for (ev, env) in visits:
            if ev.kind == 'CALL' and ev.callee == 'qb_loop_run_level':
                s.add(env.get(ix, 'TOP'))
            if ev.kind == 'STORE' and ev.d['op'] == '+=' and ('qb_loop_level', 'todo') in fields_of(ev.rhs):
                sm.add(env.get(ix, 'TOP'))
        served[v] = s
        summed[v] = sm
    ok_fn = all(len(succ[v]) == 1 and next(iter(succ[v])) in levels for v in levels)
    ctx.check('R1', 'successor-deterministic', ok_fn, f,
              'one iteration maps p_stop %s' % {v: sorted(succ[v], key=str) for v in levels},
              'p_stop successor is not a function on {LOW,MED,HIGH}: %s' % {v: sorted(succ[v], key=str) for v in levels})
    if ok_fn:
        nx = {v: next(iter(succ[v])) for v in levels}
        cyc = {LOW}
        x = nx[LOW]
        while x not in cyc:
            cyc.add(x)
            x = nx[x]
        ctx.check('R1', 'single-3-cycle', len(cyc) == 3 and x == LOW, f,
                  'p_stop rotates through all three values: %s' % nx,
                  'p_stop does not rotate through all three values (cycle %s of %s): some level is never the stop level' % (sorted(cyc), nx))
    for v in levels:
        s = served[v]
        closed = 'TOP' not in s and all((q in s) for p in s for q in levels if q > p)
        ctx.check('R2', 'upward-closed:p_stop=%d' % v, closed and HIGH in s, f,
                  'phase p_stop=%d runs levels %s' % (v, sorted(s, key=str)),
                  'phase p_stop=%d runs levels %s: not upward closed / HIGH missing' % (v, sorted(s, key=str)))
    # "may be run" above is "is run": inside the pass over the levels, whether a level is run depends on its index and the rotation only
    inner = min((b_ for (h_, b_) in loops.items() if rl.blk in b_), key=len)
    extra = []
    ihdr = [h_ for (h_, b_) in loops.items() if b_ is inner or b_ == inner][0]

    def can_avoid(b0):
        # from block b0, can this turn of the pass end (next level / pass over) without the call?
        seen_, work_ = set(), [b0]
        while work_:
            x = work_.pop()
            if x == rl.blk or x in seen_:
                continue
            if x == ihdr or x not in inner:
                return True
            seen_.add(x)
            work_ += [t_ for (t_, _l) in f.blocks[x].succs]
        return False
    for fb in sorted(inner):
        blk = f.blocks[fb]
        # every branch of the pass whose arms differ in whether the call is certain
        if blk.cond is None or fb == rl.blk or fb == ihdr:
            continue
        arms = {can_avoid(t_) for (t_, _l) in blk.succs}
        if len(arms) < 2:
            continue
        names = {n['n'] for n in walk(blk.cond) if n.get('k') == 'var'} | {estr(n) for n in walk(blk.cond) if n.get('k') == 'mem'}
        if not names <= {ix, rot}:
            extra.append(estr(blk.cond))
    ctx.check('R2', 'service-depends-on-rotation-only', not extra, rl,
              'in the pass over the levels a level is run iff its index is at or above the rotation position',
              'whether a level is run also depends on %s: the rotation moves on regardless, so a turn that is skipped is lost, not postponed - under sustained load at a higher level the lower ones are never run (strict, not weak priorities)'
              % ' and '.join(extra))
    cnt = {L: sum(1 for v in levels if L in served[v]) for L in levels}
    ctx.check('R2', 'every-level-served', all(cnt[L] >= 1 for L in levels), f,
              'opportunities per 3 iterations: %s' % cnt, 'a level is never run in a full rotation: %s' % cnt)
    ctx.check('R2', 'monotone-service', cnt[HIGH] >= cnt[MED] >= cnt[LOW], f,
              'HIGH >= MED >= LOW opportunities (%s)' % cnt, 'a lower level gets more opportunities than a higher one: %s' % cnt)
    r3(ctx, levels)
    r4(ctx, f, rot, ix, levels, summed, polls[0], body)
    r5(ctx, f, levels, polls[0], hdr)
    r6(ctx)


def r3(ctx, levels):
    prog = ctx.prog
    f = prog.fn('qb_loop_run_level')
    disp = list(f.calls('qb_loop_source::dispatch_and_take_back'))
    if len(disp) != 1:
        raise AnalysisBroken('qb_loop_run_level: dispatch sites = %d' % len(disp))
    d = disp[0]

    def only_nonempty(fb, t, lab):
        # allow unlabelled edges and the edges of the list-empty test
        if fb.cond is None or lab is None:
            return True
        return has_call(fb.cond, 'qb_list_empty')
    hits, _e, _n = f.search(('entry',), goal=lambda ev: ev is d, edge_filter=only_nonempty)
    ctx.check('R3', 'first-dispatch-only-needs-nonempty', bool(hits), d,
              'the first dispatch of a level run depends only on the job list being non-empty',
              'the first dispatch is guarded by something other than the non-empty test (a non-empty level may dispatch nothing)')
    # the job taken is the first entry: derived from job_head.next
    job = unwrap(d.args[0])
    first_ok = False
    if job.get('k') == 'var':
        defs, entry = f.reaching_defs(job['n'], d)
        first_ok = bool(defs) and not entry and all(
            any(n.get('k') == 'mem' and n['f'] == 'next' and field_is(n['b'], 'job_head') for n in walk(x.rhs if x.kind == 'STORE' else x.d.get('init')))
            for x in defs)
    ctx.check('R3', 'takes-first-entry', first_ok, d, 'the dispatched item is job_head.next (the oldest)',
              'the dispatched item is not the first entry of job_head')
    # to_process: single writer, constant >= 1
    ws = prog.writers('to_process', 'qb_loop_level')
    ctx.check('R3', 'to_process-writers', bool(ws) and all(fn.name == 'qb_loop_create' and const_leaves(ev.rhs) and min(const_leaves(ev.rhs)) >= 1 and ev.d['op'] == '='
                                                         for (fn, ev) in ws), ws[0][1] if ws else f,
              'to_process written only in qb_loop_create with a constant >= 1',
              'to_process has another writer or a value < 1: %s' % [(fn.name, estr(ev.rhs)) for (fn, ev) in ws])
    # the create loop covers every level
    cr = prog.fn('qb_loop_create')
    st = [ev for ev in cr.stores(field='to_process')]
    if st:
        ixs = [estr(n['i']) for n in walk(st[0].lhs) if n.get('k') == 'idx']
        covered = set()
        if ixs:
            visits, _t = abstract_run(cr, {}, tracked={ixs[0]})
            for (ev, env) in visits:
                if ev is st[0] or ev.d is st[0].d:
                    covered.add(env.get(ixs[0], 'TOP'))
        ctx.check('R3', 'to_process-all-levels', covered == set(levels), st[0],
                  'to_process initialised for levels %s' % sorted(covered, key=str),
                  'to_process initialised only for levels %s' % sorted(covered, key=str))
    # tail insertion
    add = prog.fn('qb_loop_level_item_add')
    tails = [ev for ev in add.calls('qb_list_add_tail') if len(ev.args) == 2 and field_is(unwrap(ev.args[1]).get('e', {}), 'job_head')]
    heads = [ev for ev in add.calls('qb_list_add') if len(ev.args) == 2]
    ctx.check('R3', 'item-add-at-tail', len(tails) == 1 and not heads, tails[0] if tails else add,
              'qb_loop_level_item_add appends at the tail of job_head', 'qb_loop_level_item_add does not append at the tail (FIFO lost)')
    jf = prog.fn('qb_loop_job_add')
    jt = [ev for ev in jf.calls('qb_list_add_tail') if len(ev.args) == 2 and field_is(unwrap(ev.args[1]).get('e', {}), 'wait_head')]
    jh = list(jf.calls('qb_list_add'))
    ctx.check('R3', 'job-add-at-tail', len(jt) == 1 and not jh, jt[0] if jt else jf,
              'qb_loop_job_add appends at the tail of wait_head', 'qb_loop_job_add does not append at the tail')
    gm = prog.fn('get_more_jobs')
    sp = [ev for ev in gm.calls('qb_list_splice_tail') if field_is(unwrap(ev.args[0]).get('e', {}), 'wait_head') and
          field_is(unwrap(ev.args[1]).get('e', {}), 'job_head')]
    ctx.check('R3', 'wait-list-spliced-at-tail', len(sp) == 1 and not list(gm.calls('qb_list_splice')), sp[0] if sp else gm,
              'waiting jobs are spliced to the tail of job_head in order', 'waiting jobs are not spliced at the tail of job_head')
    # the list primitive means what its name says
    lt = prog.fn('qb_list_add_tail')
    el, hd = lt.params[0]['n'], lt.params[1]['n']
    sts = {(estr(ev.lhs), estr(ev.rhs)) for ev in lt.events('STORE')}
    want = {('%s->prev->next' % hd, el), ('%s->next' % el, hd), ('%s->prev' % el, '%s->prev' % hd), ('%s->prev' % hd, el)}
    ctx.check('R3', 'qb_list_add_tail-links', want <= sts, lt, 'qb_list_add_tail links the element before the head',
              'qb_list_add_tail no longer links the element before the head: %s' % sorted(sts))


def r4(ctx, f, rot, ix, levels, summed, poll, body):
    tmo = unwrap(poll.args[1])
    if tmo.get('k') != 'var':
        raise AnalysisBroken('qb_loop_run: poll timeout is not a local variable')
    tv = tmo['n']
    stores = [ev for ev in f.stores(var=tv)]
    if not stores:
        raise AnalysisBroken('qb_loop_run: no store to the timeout variable')
    nonzero = [ev for ev in stores if cval(unwrap(ev.rhs if ev.kind == 'STORE' else ev.d.get('init'))) != 0]
    # the two "work pending" counters: compared > 0 on the edge leading to ms_timeout = 0
    zero = [ev for ev in stores if cval(unwrap(ev.rhs if ev.kind == 'STORE' else ev.d.get('init'))) == 0]
    if not zero or not nonzero:
        raise AnalysisBroken('qb_loop_run: expected both zero and non-zero timeout assignments')
    # identify counters: the variable accumulated from level[].todo and the one assigned from timer_source->poll
    rem = None
    for ev in f.events('STORE'):
        if ev.d['op'] == '+=' and ('qb_loop_level', 'todo') in fields_of(ev.rhs):
            rem = estr(ev.lhs)
    tim = None
    for ev in f.calls('qb_loop_source::poll'):
        if 'timer_source' in estr(ev.e):
            # rc = poll(); timer_todo = rc under rc > 0
            for st in f.events('STORE'):
                if st.d['op'] == '=' and unwrap(st.lhs).get('k') == 'var' and f.ev_dominates(ev, st) and \
                        unwrap(st.rhs).get('k') == 'var' and any(a.ls == estr(st.rhs) and a.op == '>' and a.rc == 0 for (a, _e) in f.guards(st)):
                    defs, _en = f.reaching_defs(unwrap(st.rhs)['n'], st)
                    if any(d.kind == 'STORE' and callee_of(unwrap(d.rhs)) == 'qb_loop_source::poll' and 'timer_source' in estr(d.rhs) for d in defs):
                        tim = estr(st.lhs)
    if rem is None or tim is None:
        raise AnalysisBroken('qb_loop_run: pending-work counters not identified (remaining=%s timer=%s)' % (rem, tim))
    for ev in nonzero:
        for (name, var) in (('remaining_todo', rem), ('timer_todo', tim)):
            path = f.uncut_path(ev, lambda a, fb, var=var: a.ls == var and ((a.op == '<=' and a.rc == 0) or (a.op == '<' and a.rc == 1) or (a.op == '==' and a.rc == 0)))
            ctx.check('R4', 'nonzero-timeout-needs-%s<=0' % name, path is None, ev,
                      'a non-zero poll timeout is only chosen when %s <= 0' % name,
                      'the loop may block (timeout %s) while %s > 0' % (estr(ev.rhs), name), {'path': f.path_lines(path) if path else None})
    for v in levels:
        ctx.check('R4', 'remaining-sums-all-levels:p_stop=%d' % v, summed[v] == set(levels), f,
                  'remaining_todo adds todo of levels %s' % sorted(summed[v], key=str),
                  'remaining_todo only counts levels %s in phase p_stop=%d' % (sorted(summed[v], key=str), v))
    # remaining_todo is reset in every iteration before being accumulated (no stale carry-over that hides work is fine; stale >0 only spins)


def r5(ctx, f, levels, fdpoll, hdr):
    prog = ctx.prog
    gm = prog.fn('get_more_jobs')
    sp = [ev for ev in gm.calls('qb_list_splice_tail')]
    if len(sp) != 1:
        raise AnalysisBroken('get_more_jobs: splice sites = %d' % len(sp))
    sp = sp[0]
    # index variable of the level loop
    ixs = [estr(n['i']) for n in walk(sp.args[0]) if n.get('k') == 'idx' and field_is(n['b'], 'level')]
    if not ixs:
        raise AnalysisBroken('get_more_jobs: level index not found')
    iv = ixs[0]

    def allowed(fb, t, lab):
        if fb.cond is None or lab is None:
            return True
        c = fb.cond
        if has_call(c, 'qb_list_empty') and any(field_is(a, 'wait_head') for n in walk(c) if n.get('k') == 'call' for a in n.get('args', [])):
            return True
        # the loop bound on the level index
        return any(estr(l) == iv and cval(unwrap(r)) is not None for (l, _o, r) in cmp_forms(c))
    hits, _e, _n = gm.search(('entry',), goal=lambda ev: ev is sp, edge_filter=allowed)
    ctx.check('R5', 'promotion-only-needs-waiting-jobs', bool(hits), sp,
              'waiting jobs are spliced to the run list whenever the wait list is non-empty',
              'promotion of waiting jobs depends on something other than the wait list being non-empty (a busy level can starve its queued jobs)')
    visits, _t = abstract_run(gm, {}, tracked={iv})
    cov = {env.get(iv, 'TOP') for (ev, env) in visits if ev is sp or ev.d is sp.d}
    ctx.check('R5', 'promotion-covers-all-levels', cov == set(levels), sp, 'promotion loop visits levels %s' % sorted(cov, key=str),
              'promotion loop only visits levels %s' % sorted(cov, key=str))
    # both sources polled in every iteration before the fd poll, only optional-slot guards
    for src in ('job_source', 'timer_source'):
        calls = [ev for ev in f.calls('qb_loop_source::poll') if src in estr(ev.e)]
        ok = len(calls) == 1
        if ok:
            def not_null_edge(fb, t, lab, src=src):
                if fb.cond is None or lab not in (True, False):
                    return True
                return not any(a.op == '==' and a.rc == 0 and src in a.ls for a in atoms_of(fb.cond, lab))
            h2, _e2, _n2 = f.search(('block', hdr), goal=lambda ev: ev is fdpoll, edge_filter=not_null_edge, stop=lambda ev: ev is calls[0])
            ok = not h2
        ctx.check('R5', 'every-iteration-polls-%s' % src, ok, calls[0] if calls else f,
                  '%s->poll runs in every iteration (guarded only by the slot being set)' % src,
                  '%s->poll is skipped in some iterations' % src)
    # the descriptor poll itself is never skipped: with a zero timeout it is what moves ready descriptors (and signal deliveries)
    # into the levels while jobs and timers keep the loop busy
    runs = list(f.calls('qb_loop_run_level'))
    if not runs:
        raise AnalysisBroken('qb_loop_run: no level dispatch')
    h3, _e3, _n3 = f.search(('block', hdr), goal=lambda ev: any(ev.d is r.d for r in runs), stop=lambda ev: ev is fdpoll or ev.d is fdpoll.d)
    ctx.check('R5', 'every-iteration-polls-fd_source', not h3, fdpoll,
              'every iteration polls the descriptors before it dispatches a level',
              'an iteration can dispatch without having polled the descriptors: while jobs or timers keep the loop busy, ready descriptors and signals are never looked at (starved)')


def r6(ctx):
    prog = ctx.prog
    f = prog.fn('_poll_and_add_to_jobs_')
    waits = list(f.calls('epoll_wait'))
    if len(waits) != 1:
        raise AnalysisBroken('_poll_and_add_to_jobs_: epoll_wait calls = %d' % len(waits))
    w = waits[0]
    cap = unwrap(w.args[2])
    capc = cval(cap)
    # (a) capacity follows the number of entries
    follows = any(n.get('k') == 'mem' and n.get('f') == 'poll_entry_count' for n in walk(cap))
    if not follows and cap.get('k') == 'var':
        srcs, _e = value_sources(f, cap, w)
        follows = any(any(n.get('k') == 'mem' and n.get('f') == 'poll_entry_count' for n in walk(x)) for x in srcs)
    # (b) the call is repeated while the batch was full: an edge "result == capacity" (or >=) leads back to the call, with a zero timeout
    loops_back = False
    extra_conds = []
    for b in f.blocks.values():
        if b.cond is None:
            continue
        for (t, lab) in b.succs:
            if lab not in (True, False):
                continue
            if any(a.op in ('==', '>=') and a.rc is not None and a.rc == capc for a in atoms_of(b.cond, lab)):
                hits, _e2, _n2 = f.search(('edge', b.id, t), goal=lambda ev: ev.d is w.d)
                zero = [st for st in f.events('STORE') if estr(st.lhs) == estr(w.args[3]) and cval(unwrap(st.rhs)) == 0]
                if hits and zero and any(f.may_follow(z, w) for z in zero):
                    loops_back = True
                    # going round depends on the batch having been full and on a bound of the number of rounds - on nothing else
                    # (what a batch brought says nothing about the descriptors the kernel has not handed out yet)
                    resv = [estr(st.lhs) for st in f.events('STORE') if st.rhs is not None and any(n.get('id') == w.e.get('id') for n in walk(st.rhs))]
                    counters = {estr(st.lhs) for st in f.events('STORE') if st.d['op'] in ('--', '-=') and unwrap(st.lhs).get('k') == 'var'}
                    zs = [z for z in zero if f.may_follow(z, w)]
                    conds = list(atoms_of(b.cond, lab))
                    for z in zs:
                        # the rest of an && chain sits in blocks of its own, dominated by this one
                        conds += [a for (a, (fb, _t, _l)) in f.guards(z) if fb != b.id and b.id in f.dom().get(fb, set())]
                    for a in conds:
                        if (a.ls in resv and a.rc == capc) or a.ls in counters:
                            continue
                        if not any(repr(a) == repr(x) for (_b, x) in extra_conds):
                            extra_conds.append((b, a))
    if loops_back and not follows:
        # the bound on the number of rounds is enough for every entry to be handed out once: entries / batch + k, k >= 1
        counters = {estr(st.lhs) for st in f.events('STORE') if st.d['op'] in ('--', '-=') and unwrap(st.lhs).get('k') == 'var'}
        used = {a.ls for b_ in f.blocks.values() if b_.cond is not None for lab_ in (True, False) for a in atoms_of(b_.cond, lab_) if a.ls in counters}
        for cn in sorted(used):
            for d in [st for st in f.events('STORE') if estr(st.lhs) == cn and st.d['op'] == '=']:
                r = unwrap(d.rhs)
                enough = False
                if r.get('k') == 'bin' and r['op'] == '+':
                    for (x, y) in ((r['l'], r['r']), (r['r'], r['l'])):
                        xu = unwrap(x)
                        if xu.get('k') == 'bin' and xu['op'] == '/' and cval(unwrap(xu['r'])) == capc and \
                                any(n.get('k') == 'mem' and n.get('f') == 'poll_entry_count' for n in walk(xu['l'])) and (cval(unwrap(y)) or 0) >= 1:
                            enough = True
                ctx.check('R6', 'round-bound-covers-every-entry', enough, d,
                          'the number of rounds is entries / %s + k: every entry can be handed out once' % capc,
                          'the number of rounds is bounded by %s, which does not grow with the number of entries: with more than that many full batches of ready descriptors '
                          'the rest wait for later iterations, so a ready descriptor of one level is reported only every few iterations and its level goes several turns without a dispatch' % estr(d.rhs))
        ctx.check('R6', 'driver-goes-round-whenever-the-batch-was-full', not extra_conds, w,
                  'the driver goes round again whenever the batch came back full (within its bound on the number of rounds)',
                  'the driver goes round again only if also %s: descriptors that are queued already fill a batch without adding jobs, so with a backlog the driver stops after one batch and a ready descriptor of another level reaches its level only every N/%s-th iteration'
                  % (' and '.join(repr(a) for (_b, a) in extra_conds), capc))
    ctx.check('R6', 'driver-collects-every-ready-descriptor', follows or loops_back, w,
              'the driver %s' % ('sizes its batch by the number of entries' if follows else 'repeats its batch of %s without waiting while it came back full' % capc),
              'the driver asks for at most %s events per iteration and does not go round: with more ready descriptors than that, a ready descriptor only reaches its level every '
              'N/%s-th iteration, so a level with pending work can go more than three iterations without a dispatch and a higher priority gets fewer opportunities than a lower one' % (capc, capc))
