"""C16 - threaded logging: every queued message once, in order, before fini."""
from engine.qb import (AnalysisBroken, abstract_run, estr, unwrap, cval, walk, last_field, fields_of, callee_of, mentions_var,
                       atoms_of, root_var, lockset)
from rules.common import some_source, field_is, has_call, derives

UNITS = ['lib/log_thread.c', 'lib/log.c', 'lib/log_file.c', 'lib/log_syslog.c', 'lib/log_blackbox.c', 'lib/log_format.c']
TECHNIQUE = ('static analysis: custom clang-LibTooling CFG/dataflow rules - locksets, dominance, edge cut-sets, must-pass-through, control '
             'dependence, finite abstract evaluation, linear-form comparison of the backlog accounting')
DECIDES = ('Decides the lock discipline on the queue state, append-then-post, that the worker only exits when drained, that '
           'fini stops the thread before dismantling targets, that control calls bracket their work with pause/resume, that the two '
           'teardown sequences leave the same module state, and that lock users tolerate "not started"; ordering/loss over all '
           'schedules is not decided.')
RULES = {
    'R1': 'every access to the record list, the memory counter and the drop counter holds logt_wthread_lock',
    'R2': 'log_post: tail insertion, unlock, then sem_post on the same paths; the over-limit edge frees, undoes the accounting, counts a drop and posts nothing',
    'R3': 'the worker exits only when asked to and the record list, read under the lock, is empty (a zero semaphore count is accepted for that only if the exit request posts its wake-up token while holding the lock), or when sem_wait failed; otherwise it removes the first record',
    'R4': 'qb_log_fini stops the thread before the first target is disabled; thread_stop (active): flag under lock, post, join; (inactive): writes what is left',
    'R5': 'qb_log_ctl2 (every request but THREADED), _do_file_reload and every function that runs a target\'s close callback or recycles its slot (other than qb_log_fini, which has stopped the thread) pause before and resume after on every path',
    'R6': 'every sequence that destroys the thread lock leaves the module state reset (lock pointer NULL, wthread_active false)',
    'R8': 'queued records are written to the targets (qb_log_thread_log_write) only while holding logt_wthread_lock, the lock control operations take through pause/resume',
    'R7': 'every lock of logt_wthread_lock outside the worker is preceded by a test that the lock exists / the thread is active',
    'R9': 'the drain at fini really writes: qb_log_fini clears logger_inited before it stops the thread, so nothing the logging thread calls to write a record (the targets\' logger functions and what they call inside the library) may refuse or return early on !logger_inited - or fini stops the thread first',
    'R10': 'no call through an absent logger: every call through qb_log_target.logger is made only where that target\'s logger was seen to be non-NULL (QB_LOG_CONF_THREADED is accepted for targets that only have a vlogger, such as the blackbox)',
    'R11': 'what is queued is written before the routing changes: the functions control operations bracket their work with (pause, quiesce) write out every queued record after taking the thread\'s lock, and every change of what the logging thread does with a queued record - a store of a new value to a target\'s threaded switch, a change of the filters or tags of existing call sites (through helpers: judged at the callers), the custom filter function run over them - happens inside such a bracket (or in qb_log_fini after the thread was stopped)',
    'R12': 'a logger that logs cannot dead-lock the writer: qb_log_thread_log_post takes the queue lock only after a test that the calling thread is not the one that is handing records to the targets (pthread_equal with the recorded writer), and every write of a queued record is made with the writer recorded',
    'R13': 'the number dropped is reported by whoever takes records off the queue: in every function that unlinks queued records (the logging thread, and the helper control operations, pause and stop write the backlog with) no path from an unlink to the release of the queue lock or to the return misses the report - the drop counter read, zeroed and its value handed to a printing call',
    'R14': 'a bracket closes what it opened: qb_log_thread_pause(t) and qb_log_thread_resume(t) each decide from the target\'s threaded switch whether there is a lock to take / release, so nothing between them - in the bracketing function or in anything it calls there - stores to that switch (evaluated for every request value of qb_log_ctl2); otherwise the resume of a target that was threaded at the pause releases nothing and the queue lock stays held: the next log call, control operation or qb_log_fini hangs',
    'R15': 'the backlog counter is balanced: every record taken off the queue lowers logt_memory_used by exactly what qb_log_thread_log_post raised it by for that record (sizeof(record) + strlen(buffer) + 1, compared as linear forms), and the over-limit edge takes back exactly what it added - a counter that creeps upwards turns into "every message dropped" after enough traffic',
}
FLOORS = {'R15': 3, 'R14': 3, 'R13': 3, 'R1': 11, 'R2': 5, 'R3': 4, 'R4': 5, 'R5': 5, 'R6': 3, 'R7': 3, 'R8': 2, 'R9': 3, 'R10': 2, 'R11': 5, 'R12': 2}

LOCK = 'logt_wthread_lock'
GUARDED = ('logt_print_finished_records', 'logt_memory_used', 'logt_dropped_messages')


def _global_access(ev):
    """names of guarded globals an event reads or writes (or passes by address)"""
    out = set()
    trees = []
    if ev.kind == 'LOAD':
        trees = [ev.e]
    elif ev.kind == 'STORE':
        trees = [ev.lhs]
    elif ev.kind == 'CALL':
        trees = [a for a in ev.args if unwrap(a).get('k') == 'addr']
    for t in trees:
        for n in walk(t):
            if n.get('k') == 'var' and n.get('sc') == 'g' and n['n'] in GUARDED:
                out.add(n['n'])
    return out


def entry_locks(fns):
    """locks certainly held when a static function of the unit is entered: the intersection over its call sites (a static helper
    that is only called with the queue lock held is analysed as such)"""
    byname = {f.name: f for f in fns}
    ent = {f.name: frozenset() for f in fns}
    for _round in range(3):
        new = {}
        for f in fns:
            if not f.static:
                new[f.name] = frozenset()
                continue
            acc = None
            for g in fns:
                at, _IN = lockset(g, entry=ent[g.name])
                for ev in g.calls(f.name):
                    held = at.get((ev.blk, ev.idx), frozenset())
                    acc = held if acc is None else (acc & held)
            new[f.name] = acc if acc is not None else frozenset()
        if new == ent:
            break
        ent = new
    return ent


ENTRY = {}
WRITERS = ['qb_log_thread_log_write']


def _find_writers(fns):
    """qb_log_thread_log_write and the static functions of the unit that do nothing but hand one record to it (a wrapper that notes
    who is writing): a call of one of them writes a record"""
    out = ['qb_log_thread_log_write']
    for g in fns:
        if not g.static:
            continue
        calls = [ev for ev in g.events('CALL')]
        wr = [ev for ev in calls if ev.callee == 'qb_log_thread_log_write']
        if len(wr) == 1 and not g.natural_loops() and g.must_pass(('entry',), lambda ev: ev is wr[0])[0] and \
                not any(ev.callee in ('qb_thread_lock', 'qb_thread_unlock', 'qb_list_del', 'free', 'sem_post', 'sem_wait') for ev in calls):
            out.append(g.name)
    return out


def lockset_of(f):
    return lockset(f, entry=ENTRY.get(f.name, frozenset()))


def run(ctx):
    prog = ctx.prog
    fns = [f for f in prog.all_fns(files={'lib/log_thread.c'})]
    ENTRY.clear()
    ENTRY.update(entry_locks(fns))
    WRITERS[:] = _find_writers(fns)
    # R1
    n = 0
    for f in fns:
        at, _IN = lockset_of(f)
        for ev in f.events():
            for g in _global_access(ev):
                n += 1
                held = at.get((ev.blk, ev.idx))
                ctx.check('R1', '%s:%s:%s' % (f.name, ev.kind.lower(), g), held is not None and LOCK in held, ev,
                          '%s accessed with %s held' % (g, LOCK), '%s is accessed without %s held' % (g, LOCK))
    r2(ctx)
    r3(ctx)
    r4(ctx)
    r10(ctx)
    r11(ctx)
    r12(ctx, fns)
    r13(ctx, fns)
    r14(ctx)
    r15(ctx, fns)
    r5(ctx)
    r6(ctx, fns)
    r7(ctx, fns)
    r8(ctx, fns)
    r9(ctx)


def _is_post(ev):
    return ev.kind == 'CALL' and ev.callee == 'sem_post' and 'logt_print_finished' in estr(ev.args[0])


def r2(ctx):
    f = ctx.prog.fn('qb_log_thread_log_post')
    adds = [ev for ev in f.events('CALL') if ev.callee in ('qb_list_add_tail', 'qb_list_add') and 'logt_print_finished_records' in estr(ev.args[1])]
    posts = [ev for ev in f.events('CALL') if _is_post(ev)]
    if len(adds) != 1 or not posts:
        raise AnalysisBroken('qb_log_thread_log_post: appends=%d posts=%d' % (len(adds), len(posts)))
    add = adds[0]
    ctx.check('R2', 'append-at-tail', add.callee == 'qb_list_add_tail', add, 'records are appended at the tail (FIFO)', 'records are inserted at the head (order reversed)')
    ok, p = f.must_pass(('after', add), _is_post)
    ctx.check('R2', 'append-then-post', ok, add, 'every appended record is followed by a semaphore post', 'a record can be appended without a post: it is never written',
              {'path': f.path_lines(p) if p else None})
    hits, _e, _n = f.search(('entry',), goal=_is_post, stop=lambda ev: ev is add)
    ctx.check('R2', 'no-post-without-append', not hits, hits[0][0] if hits else posts[0], 'no post without an appended record',
              'the semaphore is posted on a path that appended nothing: the worker dequeues from an empty list')
    for post in posts:
        unl = [ev for ev in f.calls('qb_thread_unlock') if f.ev_dominates(add, ev) or f.may_follow(add, ev)]
        ctx.check('R2', 'unlock-before-post', any(f.ev_dominates(u, post) for u in unl), post, 'the lock is released before posting',
                  'the semaphore is posted while holding the lock')
    drops = [ev for ev in f.events('STORE') if estr(ev.lhs) == 'logt_dropped_messages']
    if not drops:
        raise AnalysisBroken('qb_log_thread_log_post: no drop accounting')
    for d in drops:
        hits, _e, _n = f.search(('after', d), goal=lambda ev: _is_post(ev) or ev is add)
        ctx.check('R2', 'drop-path-posts-nothing', not hits, d, 'a dropped message is neither queued nor posted', 'a dropped message is still queued/posted')
        undo = [ev for ev in f.events('STORE') if estr(ev.lhs) == 'logt_memory_used' and ev.d['op'] in ('=', '-=') and (f.ev_dominates(ev, d) or f.ev_dominates(d, ev)) and ev.blk == d.blk]
        frees = [ev for ev in f.calls('free') if ev.blk == d.blk]
        ctx.check('R2', 'drop-path-undoes-accounting', bool(undo) and len(frees) >= 2, d, 'the drop path frees the record and undoes the memory accounting',
                  'the drop path leaks the record or leaves the memory accounting raised (every later message is dropped)')


def r3(ctx):
    f = ctx.prog.fn('qb_logt_worker_thread')
    exits = list(f.calls('pthread_exit'))
    if not exits:
        raise AnalysisBroken('worker: no pthread_exit')

    def asked(a, fb):
        if not (a.op == '!=' and a.rc == 0):
            return False
        if a.ls == 'wthread_should_exit':
            return True
        l = unwrap(a.l)
        if l.get('k') == 'var' and l.get('sc') == 'l':
            # a local copy of the request (taken under the lock)
            defs, entry = f.reaching_defs(l['n'], f.end_of(fb.id))
            return bool(defs) and not entry and all(estr(unwrap(d.rhs if d.kind == 'STORE' else d.d.get('init') or {})) == 'wthread_should_exit' for d in defs)
        return False

    def list_empty(a, fb):
        l = unwrap(a.l)
        return a.op == '!=' and a.rc == 0 and callee_of(l) == 'qb_list_empty' and 'logt_print_finished_records' in estr(l['args'][0])

    def count_zero(a, fb):
        return a.op == '==' and a.rc == 0 and unwrap(a.l).get('k') == 'var' and any(
            c.callee == 'sem_getvalue' and mentions_var(c.args[1], unwrap(a.l)['n']) for c in f.events('CALL'))

    def waitfailed(a, fb):
        return a.op == '==' and a.rc == -1 and unwrap(a.l).get('k') == 'var'
    # "no token left" means "no record left" only if the wake-up token of the exit request is posted while the requester
    # still holds the lock it set the flag under: otherwise the worker, having taken the last record's token, can see the
    # flag before the wake-up token exists and leave with that record queued
    s = ctx.prog.fn('qb_log_thread_stop')
    sat, _IN = lockset(s)
    flag = [ev for ev in s.events('STORE') if estr(ev.lhs) == 'wthread_should_exit' and cval(unwrap(ev.rhs)) not in (0, None)]
    posts = [ev for ev in s.events('CALL') if _is_post(ev) and any(s.may_follow(fl, ev) for fl in flag)]
    post_under_lock = bool(posts) and all(LOCK in sat.get((p.blk, p.idx), ()) for p in posts)
    for ex in exits:
        failed = f.uncut_path(ex, waitfailed) is None
        asked_ok = f.uncut_path(ex, asked) is None
        by_list = f.uncut_path(ex, list_empty) is None
        by_count = f.uncut_path(ex, count_zero) is None
        ok = failed or (asked_ok and (by_list or (by_count and post_under_lock)))
        why = 'the worker can exit while messages are still queued: they are lost at fini'
        if not failed and asked_ok and by_count and not by_list:
            why = ('the worker takes "exit requested and no token on the semaphore" for "queue empty", but qb_log_thread_stop posts its wake-up token '
                   'after releasing the lock: a worker that has taken the last record\'s token and waits for the lock sees the flag with '
                   'the count still 0 and leaves with that record queued (qb_log_fini returns, the message is never written)')
        ctx.check('R3', 'exit-needs-asked-and-drained', ok, ex, 'the worker exits only when asked to and the record list is empty (or sem_wait failed)', why)
    # the request is stored under the lock (R4): the thread reads it under the lock as well
    at3, _IN3 = lockset_of(f)
    reads = [ev for ev in f.events('LOAD') if estr(ev.e) == 'wthread_should_exit'] + \
            [ev for ev in f.events() if ev.kind in ('STORE', 'DECL') and estr(unwrap((ev.rhs if ev.kind == 'STORE' else ev.d.get('init')) or {})) == 'wthread_should_exit']
    if reads:
        ctx.check('R3', 'exit-request-read-under-lock', all(LOCK in at3.get((ev.blk, ev.idx), ()) for ev in reads), reads[0],
                  'the exit request is read while holding the lock it is stored under', 'the exit request is read without the lock it is stored under (a data race)')
    dels = [ev for ev in f.calls('qb_list_del')]
    first = False
    for d in dels:
        v = root_var(d.args[0])
        if v is not None:
            defs, entry = f.reaching_defs(v['n'], d)
            first = bool(defs) and all(any(n.get('k') == 'mem' and n['f'] == 'next' and 'logt_print_finished_records' in estr(n['b'])
                                           for n in walk(x.rhs if x.kind == 'STORE' else x.d.get('init') or {})) for x in defs)
    ctx.check('R3', 'takes-first-record', bool(dels) and first, dels[0] if dels else f, 'the worker removes the first (oldest) record',
              'the worker does not take the first record (order not preserved)')
    wr = list(f.calls(*WRITERS))
    ctx.check('R3', 'writes-once-per-record', len(wr) == 1 and all(any(f.ev_dominates(d, w) for d in dels) for w in wr), wr[0] if wr else f,
              'each dequeued record is written once', 'a record is written %d times / before being dequeued' % len(wr))
    waits = [ev for ev in f.calls('sem_wait') if 'logt_print_finished' in estr(ev.args[0])]
    ctx.check('R3', 'one-wait-per-record', len(waits) == 1 and all(f.ev_dominates(waits[0], d) for d in dels), waits[0] if waits else f,
              'one semaphore wait per dequeued record', 'records are dequeued without a matching semaphore wait')


def r4(ctx):
    prog = ctx.prog
    f = prog.fn('qb_log_fini')
    stops = list(f.calls('qb_log_thread_stop'))
    dis = list(f.calls('_log_target_disable'))
    if not dis:
        raise AnalysisBroken('qb_log_fini: no _log_target_disable')
    ctx.check('R4', 'fini:stop-before-disable', len(stops) == 1 and all(f.ev_dominates(stops[0], d) for d in dis), stops[0] if stops else f,
              'the logging thread is stopped (queue drained) before any target is closed',
              'targets are closed before the logging thread drained its queue: queued messages are lost or written to closed targets')
    s = prog.fn('qb_log_thread_stop')
    flag = [ev for ev in s.events('STORE') if estr(ev.lhs) == 'wthread_should_exit' and cval(unwrap(ev.rhs)) not in (0, None)]
    posts = [ev for ev in s.events('CALL') if _is_post(ev)]
    joins = list(s.calls('pthread_join'))
    if not flag or not posts or not joins:
        raise AnalysisBroken('qb_log_thread_stop: flag=%d post=%d join=%d' % (len(flag), len(posts), len(joins)))
    at, _IN = lockset(s)
    ctx.check('R4', 'stop:flag-under-lock', all(LOCK in at.get((e.blk, e.idx), ()) for e in flag), flag[0], 'the exit request is stored under the lock',
              'the exit request is stored without the lock')
    ctx.check('R4', 'stop:flag-post-join', all(s.ev_dominates(flag[0], p) for p in posts) and all(any(s.ev_dominates(p, j) for p in posts) for j in joins), joins[0],
              'flag, then post, then join', 'the thread is joined without having been asked/woken')
    dest = [ev for ev in s.events('CALL') if ev.callee in ('qb_thread_lock_destroy', 'sem_destroy')]
    ctx.check('R4', 'stop:destroy-after-join', bool(dest) and all(not s.may_follow(d, j) for d in dest for j in joins), dest[0] if dest else s,
              'lock and semaphores are destroyed after the join', 'the lock/semaphores are destroyed before the worker was joined')
    wr = list(s.calls(*WRITERS))
    loops = s.natural_loops()
    drains = _drain_helpers(ctx.prog)
    if not wr and any(s.calls(d) for d in drains):
        # the drain is a helper: a loop over the record list that writes each record
        dcalls = [ev for d in drains for ev in s.calls(d)]
        at2, _IN2 = lockset_of(s)
        ctx.check('R4', 'stop:inactive-drains', all(LOCK in at2.get((e.blk, e.idx), ()) for e in dcalls), dcalls[0],
                  'when the thread is not running the remaining records are written (%s, under the lock)' % dcalls[0].callee,
                  'the remaining records are flushed without the lock')
    else:
        ctx.check('R4', 'stop:inactive-drains', bool(wr) and any(w.blk in body for w in wr for body in loops.values()), wr[0] if wr else s,
                  'when the thread is not running the remaining records are written in a loop', 'remaining records are not written when the thread is not running')


def _drain_helpers(prog):
    """static functions of log_thread.c that write every queued record: a loop over logt_print_finished_records in which each record is
    unlinked and handed to qb_log_thread_log_write"""
    out = []
    for g in prog.all_fns(files={'lib/log_thread.c'}):
        if not g.static:
            continue
        wr = list(g.calls(*WRITERS))
        dl = list(g.calls('qb_list_del'))
        loops = g.natural_loops()
        if wr and dl and any(w.blk in body and any(d.blk in body for d in dl) for w in wr for body in loops.values()) and \
                any('logt_print_finished_records' in estr(n) for b in g.blocks.values() for ev in b.events for n in [ev.d.get('e') or ev.d.get('rhs') or {}] if n):
            out.append(g.name)
    return out


def r5(ctx):
    prog = ctx.prog
    f = prog.fn('qb_log_ctl2')
    THREADED = prog.econst('QB_LOG_CONF_THREADED')
    cvar = f.params[1]['n']
    pauses = list(f.calls('qb_log_thread_pause'))
    resumes = list(f.calls('qb_log_thread_resume'))
    if len(pauses) != 1 or len(resumes) != 1:
        raise AnalysisBroken('qb_log_ctl2: pause=%d resume=%d' % (len(pauses), len(resumes)))

    def is_threaded_edge(fb, t, lab):
        if fb.cond is None:
            return True
        if lab in (True, False):
            return not any(a.ls == cvar and a.op == '==' and a.rc == THREADED for a in atoms_of(fb.cond, lab))
        return True
    # work events: stores to conf[] fields, calls to enable/disable/reload
    work = [ev for ev in f.events() if (ev.kind == 'STORE' and last_field(ev.lhs) and last_field(ev.lhs)[0] == 'qb_log_target' and last_field(ev.lhs)[1] != 'threaded') or
            (ev.kind == 'CALL' and ev.callee in ('_log_target_enable', '_log_target_disable', 'qb_log_target::reload'))]
    if len(work) < 8:
        raise AnalysisBroken('qb_log_ctl2: only %d configuration effects found' % len(work))
    bad = []
    for w in work:
        hits, _e, _n = f.search(('entry',), goal=lambda ev, w=w: ev is w, stop=lambda ev: ev is pauses[0], edge_filter=is_threaded_edge)
        if hits:
            bad.append(w)
    ctx.check('R5', 'ctl2:pause-before-effects', not bad, bad[0] if bad else pauses[0], '%d configuration effects are all preceded by the pause' % len(work),
              'a target is reconfigured without pausing the logging thread (it may be writing to that target)')
    _h, exits, _n = f.search(('after', pauses[0]), stop=lambda ev: ev is resumes[0], edge_filter=is_threaded_edge)
    ctx.check('R5', 'ctl2:resume-on-every-path', not exits, pauses[0], 'every path after the pause resumes the thread (including error exits)',
              'a path returns with the logging thread still paused (lock held forever)', {'path': f.path_lines(exits[0]) if exits else None})
    # pause and resume are skipped under the same condition
    gp = {(a.ls, a.op, a.rs) for (a, _e) in f.guards(pauses[0])}
    gr = {(a.ls, a.op, a.rs) for (a, _e) in f.guards(resumes[0])}
    ctx.check('R5', 'ctl2:same-skip-condition', (cvar, '!=', str(THREADED)) in {(l, o, str(prog.econst(r)) if r in prog.enum_consts else r) for (l, o, r) in gp} and
              {(l, o, r) for (l, o, r) in gp if l == cvar} == {(l, o, r) for (l, o, r) in gr if l == cvar}, resumes[0],
              'pause and resume are skipped for the same request (THREADED)', 'pause and resume are guarded differently')
    r = prog.fn('_do_file_reload')
    ps, rs = list(r.calls('qb_log_thread_pause')), list(r.calls('qb_log_thread_resume'))
    ok = len(ps) == 1 and len(rs) == 1
    if ok:
        _h, exits, _n = r.search(('after', ps[0]), stop=lambda ev: ev is rs[0])
        ok = not exits
        swaps = [ev for ev in r.events('CALL') if ev.callee in ('fclose', 'qb_log_target_user_data_set')]
        ok = ok and bool(swaps) and all(r.ev_dominates(ps[0], s) and not r.may_follow(rs[0], s) for s in swaps)
    ctx.check('R5', 'file_reload:swap-inside-pause', ok, ps[0] if ps else r, 'the log file is swapped between pause and resume',
              'the log file is closed/swapped while the logging thread may be writing to it')
    # closing a target: the close callback and the recycling of the slot, wherever they are called from (qb_log_fini has
    # stopped the thread before, R4)
    n = 0
    closers = {'qb_log_target::close', 'qb_log_target_free'}
    done = set()
    for _round in range(4):
        grew = False
        for g in prog.all_fns(files={'lib/log.c'}):
            if g.name in done or g.name in ('qb_log_fini', 'qb_log_target_free'):
                continue
            eff = [ev for ev in g.events('CALL') if ev.callee in closers]
            if not eff:
                continue
            done.add(g.name)
            ps, rs = list(g.calls('qb_log_thread_pause')), list(g.calls('qb_log_thread_resume'))
            if not ps and not rs and g.static and list(prog.callers_of(g.name)):
                # a helper: what it does counts at its call sites
                closers.add(g.name)
                grew = True
                continue
            n += 1
            ok = len(ps) == 1 and len(rs) == 1
            if ok:
                _h, exits, _n = g.search(('after', ps[0]), stop=lambda ev: ev is rs[0], edge_filter=is_threaded_edge if g is f else None)
                ok = not exits and all(not g.may_follow(rs[0], e) for e in eff)
                for e in eff:
                    hits, _e2, _n2 = g.search(('entry',), goal=lambda ev, e=e: ev is e, stop=lambda ev: ev is ps[0], edge_filter=is_threaded_edge if g is f else None)
                    ok = ok and not hits
            ctx.check('R5', '%s:close-inside-pause' % g.name, ok, eff[0], 'the close callback and the slot recycling run between pause and resume',
                      '%s runs the target\'s close callback / recycles the slot without pausing the logging thread: it may be inside that target\'s '
                      'logger (fclose under a running fprintf for a file target)' % g.name)
        if not grew:
            break
    if n == 0:
        raise AnalysisBroken('no function closes a target')


def r6(ctx, fns):
    # every destroy of the thread lock is followed (on every path to return) by the lock pointer being reset,
    # or preceded by it having been reset after taking a private copy
    for f in fns:
        for ev in f.calls('qb_thread_lock_destroy'):
            arg = unwrap(ev.args[0])
            is_glob = arg.get('k') == 'var' and arg['n'] == LOCK
            is_copy = arg.get('k') == 'var' and arg.get('sc') == 'l' and derives(f, arg, ev, lambda x: x.get('k') == 'var' and x['n'] == LOCK)
            if not (is_glob or is_copy):
                continue

            def reset(x):
                return x.kind == 'STORE' and estr(x.lhs) == LOCK and cval(unwrap(x.rhs)) == 0
            before = any(reset(x) and f.ev_dominates(x, ev) for x in f.events('STORE'))
            after, _p = f.must_pass(('after', ev), reset)
            ctx.check('R6', '%s:lock-pointer-reset' % f.name, before or after, ev,
                      'the destroyed lock is forgotten (pointer reset) so later pause/post/start see "not started"',
                      'the thread lock is destroyed but its pointer stays set: a later pause/post after re-init uses a freed lock')

            def inactive(x):
                return x.kind == 'STORE' and estr(x.lhs) == 'wthread_active' and cval(unwrap(x.rhs)) == 0
            b2 = any(inactive(x) and f.ev_dominates(x, ev) for x in f.events('STORE'))
            a2, _p2 = f.must_pass(('after', ev), inactive)
            def noexit(x):
                return x.kind == 'STORE' and estr(x.lhs) == 'wthread_should_exit' and cval(unwrap(x.rhs)) == 0
            # only matters where the exit request was raised on the way to this teardown
            raised = [x for x in f.events('STORE') if estr(x.lhs) == 'wthread_should_exit' and cval(unwrap(x.rhs)) not in (0, None) and f.may_follow(x, ev)]
            if raised:
                a3, _p3 = f.must_pass(('after', ev), noexit)
                # equally good: cleared between raising it (and joining) and destroying the lock
                b3 = any(noexit(x) and f.ev_dominates(x, ev) and all(f.may_follow(r, x) and not f.may_follow(x, r) for r in raised)
                         for x in f.events('STORE'))
                ctx.check('R6', '%s:exit-request-reset' % f.name, a3 or b3, ev, 'the exit request is cleared when the thread has been torn down',
                          'wthread_should_exit stays set after the teardown: the worker of a later qb_log_thread_start exits on its first wake-up and nothing is written')
            ctx.check('R6', '%s:active-flag-reset' % f.name, b2 or a2, ev, 'wthread_active is false after the lock was destroyed',
                      'wthread_active stays true after the thread was torn down: a later qb_log_thread_start is a no-op and posts go to a dead queue')


def r7(ctx, fns):
    for f in fns:
        if f.name == 'qb_logt_worker_thread':
            continue
        for ev in f.calls('qb_thread_lock'):
            if estr(ev.args[0]) != LOCK:
                continue

            def exists(a, fb):
                if a.ls == LOCK and a.op == '!=' and a.rc == 0:
                    return True
                if a.ls == 'wthread_active' and ((a.op == '!=' and a.rc == 0) or (a.op == '==' and a.rc == 1)):
                    return True
                return False
            # or the lock was created in this function on the way (thread_start)
            created = any(c.callee == 'qb_thread_lock_create' and f.ev_dominates(c, ev) for c in f.events('CALL'))
            path = f.uncut_path(ev, exists)
            # the inactive-drain loop of thread_stop is entered only if the lock exists: (active == FALSE && lock == NULL) returned earlier
            if path is not None and not created:
                def early(a, fb):
                    return a.ls == LOCK and a.op == '!=' and a.rc == 0 or a.ls == 'wthread_active' and a.op == '!=' and a.rc == 0
                path = f.uncut_path(ev, early)
            ctx.check('R7', '%s:lock-exists' % f.name, path is None or created, ev, 'the lock is only taken when it exists',
                      'logt_wthread_lock may be NULL/destroyed here (threaded set but thread not started, or stopped): crash in qb_thread_lock')


def r8(ctx, fns):
    n = 0
    for f in fns:
        at, _IN = lockset_of(f)
        for ev in f.calls(*WRITERS):
            if f.name in WRITERS:
                continue     # the wrapper itself: judged where it is called
            if f.name == 'qb_log_thread_log_post':
                continue     # direct write while no thread exists (nothing to exclude)
            n += 1
            held = at.get((ev.blk, ev.idx), frozenset())
            ctx.check('R8', '%s:write-under-lock' % f.name, LOCK in held, ev, 'queued records are written while holding %s' % LOCK,
                      'a queued record is written to the targets without %s: a control operation (disable/close/reload) can run concurrently with the target\'s logger' % LOCK)
    if n < 2:
        raise AnalysisBroken('R8: write sites = %d' % n)


def r9(ctx):
    prog = ctx.prog
    fini = prog.fn('qb_log_fini')
    clr = [st for st in fini.events('STORE') if estr(st.lhs) == 'logger_inited' and cval(unwrap(st.rhs)) == 0]
    stop = list(fini.calls('qb_log_thread_stop'))
    if not clr or not stop:
        raise AnalysisBroken('qb_log_fini: logger_inited store / thread stop not found')
    if all(fini.ev_dominates(stop[0], c) for c in clr):
        ctx.ok('R9', 'fini:thread-stopped-before-flag-cleared', stop[0], 'the thread is stopped (and has drained) before logger_inited is cleared')
        return
    # what the logging thread runs for a record: the logger slot implementations and their callees inside the library
    impls = set(prog.slots().get('qb_log_target::logger', set())) | set(prog.slots().get('qb_log_target::vlogger', set()))
    if not impls:
        raise AnalysisBroken('no target logger implementations found')
    # the library's own diagnostics (qb_util_log / qb_util_perror inside a logger) re-enter the logging API: that is logging
    # *about* the write, not the write, and being refused after fini has begun is the right answer there
    SELF_LOG = {'qb_log_real_', 'qb_log_real_va_', 'qb_log_from_external_source', 'qb_log_from_external_source_va', 'qb_log_from_external_source_va2',
                'qb_log_callsite_get', 'qb_log_callsite_get2'}
    seen, work = set(), [(n, 0) for n in sorted(impls)]
    while work:
        n, dpt = work.pop()
        if n in seen or dpt > 3 or n in SELF_LOG:
            continue
        try:
            g = prog.fn(n)
        except Exception:
            continue
        seen.add(n)
        for ev in g.events('CALL'):
            if ev.callee and '::' not in ev.callee:
                work.append((ev.callee, dpt + 1))
    checked = 0
    for n in sorted(seen):
        g = prog.fn(n)
        if not g.file.startswith('lib/'):
            continue
        checked += 1
        bad = [b for b in g.blocks.values() if b.cond is not None and any(nd.get('k') == 'var' and nd.get('n') == 'logger_inited' for nd in walk(b.cond))]
        ctx.check('R9', 'drain-path-ignores-inited-flag:%s' % n, not bad, '%s:%d (%s)' % (g.file, bad[0].term_ln if bad else g.line, n),
                  '%s does not look at logger_inited' % n,
                  '%s tests logger_inited, but the logging thread calls it (through a target\'s logger) while qb_log_fini - which has already cleared the flag - waits for '
                  'the queue to be written out: every record still queued at fini is dequeued and thrown away instead of written' % n)
    if checked < 3:
        raise AnalysisBroken('only %d functions on the logging thread\'s write path were found' % checked)


def r10(ctx):
    prog = ctx.prog
    n = 0
    for g in prog.all_fns(files={'lib/log.c', 'lib/log_thread.c'}):
        for ev in g.calls('qb_log_target::logger'):
            n += 1
            # the object the call goes through
            fnx = unwrap((ev.d.get('e') or {}).get('ce') or {})
            if fnx.get('k') == 'deref':
                fnx = unwrap(fnx['e'])
            if fnx.get('k') != 'mem':
                raise AnalysisBroken('%s: call through the logger slot not understood: %s' % (g.name, estr(fnx)))
            base = estr(unwrap(fnx['b']))

            def has_logger(a, fb, base=base):
                l = unwrap(a.l)
                return a.op == '!=' and a.rc == 0 and l.get('k') == 'mem' and l.get('f') == 'logger' and estr(unwrap(l['b'])) == base
            ctx.check('R10', '%s:logger-present' % g.name, g.uncut_path(ev, has_logger) is None, ev,
                      'the logger is called only where it was seen to be set',
                      '%s calls the target\'s logger without having tested it: a target that only has a vlogger (the blackbox) and was '
                      'given QB_LOG_CONF_THREADED makes this a call through NULL' % g.name)
    if n < 2:
        raise AnalysisBroken('calls through qb_log_target.logger: %d' % n)


def r11(ctx, rule='R11'):
    prog = ctx.prog
    tfns = [g for g in prog.all_fns(files={'lib/log_thread.c'})]
    drains = set(_drain_helpers(prog))
    # openers: take the lock and then write the queue out; closers: release it
    openers, closers = set(), set()
    for g in tfns:
        if g.static:
            continue
        locks = [ev for ev in g.events('CALL') if ev.callee in ('qb_thread_lock',) and LOCK in estr(ev.args[0])]
        unl = [ev for ev in g.events('CALL') if ev.callee in ('qb_thread_unlock',) and LOCK in estr(ev.args[0])]
        dr = [ev for ev in g.events('CALL') if ev.callee in drains]
        if locks and not unl:
            ok = bool(dr) and all(any(g.ev_dominates(l, d) for d in dr) and g.must_pass(('after', l), lambda ev: ev.kind == 'CALL' and ev.callee in drains)[0] for l in locks)
            ctx.check(rule, '%s:writes-the-queue-out' % g.name, ok, locks[0], '%s takes the lock and writes out every queued record before its caller changes anything' % g.name,
                      '%s only keeps the logging thread out: records queued for the old configuration are written (or dropped, or written twice) under the new one' % g.name)
            openers.add(g.name)
        elif unl and not locks and not dr:
            closers.add(g.name)
    if not openers or not closers:
        raise AnalysisBroken('log_thread.c: bracket functions not found (openers %s, closers %s)' % (sorted(openers), sorted(closers)))
    lfns = {g.name: g for g in prog.all_fns(files={'lib/log.c'})}

    def bracketed(g, ev):
        ops = [e for e in g.events('CALL') if e.callee in openers and g.ev_dominates(e, ev)]
        if not ops:
            return False
        # no closer between the (last dominating) opener and the event on any path, and a closer on every path after it
        for o in ops:
            hits, _e, _n = g.search(('after', o), goal=lambda x: x is ev, stop=lambda x: x.kind == 'CALL' and x.callee in closers)
            if hits and g.must_pass(('after', ev), lambda x: x.kind == 'CALL' and x.callee in closers)[0]:
                return True
        return False

    def after_stop(g, ev):
        return g.name == 'qb_log_fini' and any(g.ev_dominates(s_, ev) for s_ in g.calls('qb_log_thread_stop'))

    def judged(g, ev, what, depth=0, seen=None):
        """is the effect at ev (in g) inside a bracket, here or - for a function that has no bracket of its own - at every caller?"""
        seen = seen or set()
        if bracketed(g, ev) or after_stop(g, ev):
            return True, None
        if (g.name, ev.d.get('id')) in seen or depth > 3:
            return False, (g, ev)
        seen.add((g.name, ev.d.get('id')))
        callers = [(h, c) for (h, c) in prog.callers_of(g.name) if h.name in lfns and h.name != g.name]
        public = (not g.static) and str(prog.decls.get(g.name, {}).get('file', '')).startswith('include/')
        if public or not callers or any(e.callee in openers for e in g.events('CALL')):
            # part of the API (applications call it), or nobody to pass the obligation to
            return False, (g, ev)
        for (h, c) in callers:
            ok, where = judged(h, c, what, depth + 1, seen)
            if not ok:
                return False, where
        return True, None
    n = 0
    # (1) a new value for a target's threaded switch
    for g in lfns.values():
        for st in g.events('STORE'):
            lf = last_field(st.lhs)
            if lf == ('qb_log_target', 'threaded') and cval(unwrap(st.rhs)) is None:
                n += 1
                ok, where = judged(g, st, 'threaded')
                ctx.check(rule, '%s:threaded-switch-inside-bracket' % g.name, ok, st, 'the threaded switch changes with the queue written out and the thread kept out',
                          'a target\'s threaded switch is changed while records may be queued: switched on, the thread writes the backlog to a target that has '
                          'already written those lines itself (duplicates); switched off, the target\'s backlog is never written and nothing is reported lost')
    # (2) filters / tags of existing call sites: the function that stores a filter and applies it to the sections
    cores = [g for g in lfns.values() if list(g.calls('_log_filter_store')) and list(g.calls('_log_filter_apply'))]
    if len(cores) != 1:
        raise AnalysisBroken('log.c: filter core functions = %s' % [g.name for g in cores])
    core = cores[0]
    aps = list(core.calls('_log_filter_apply'))
    n += 1
    ok, where = judged(core, aps[0], 'filters')
    ctx.check(rule, 'filter-change-inside-bracket', ok, (where[1] if where else aps[0]),
              'every way into %s is inside a pause/quiesce bracket or behind the stop of the thread' % core.name,
              'filters or tags of existing call sites are changed (%s) while records may be queued: the logging thread decides from the call site\'s target bits '
              'when it writes, so what was logged for a target before the change is dropped or delivered according to the new filters' % (where[0].name if where else core.name))
    # (3) the custom filter function run over the existing call sites
    for g in lfns.values():
        for ev in g.events('CALL'):
            if ev.callee == 'var:_custom_filter_fn' or (ev.callee or '').endswith('_custom_filter_fn'):
                loops = g.natural_loops()
                if any(ev.blk in body for body in loops.values()) and g.name != 'qb_log_callsites_register' and not g.static:
                    n += 1
                    ok, where = judged(g, ev, 'custom')
                    ctx.check(rule, '%s:custom-filter-inside-bracket' % g.name, ok, ev, 'the custom filter function is run over the call sites inside a bracket',
                              'the custom filter function is run over existing call sites while records may be queued')
    if n < 3:
        raise AnalysisBroken(rule + ': only %d routing changes found' % n)


def routing_changes(ctx, rule):
    """C16.R11 under another property's rule id (C12: one delivery per call also across a change of the routing)"""
    fns = [f for f in ctx.prog.all_fns(files={'lib/log_thread.c'})]
    ENTRY.clear()
    ENTRY.update(entry_locks(fns))
    WRITERS[:] = _find_writers(fns)
    r11(ctx, rule)


def r12(ctx, fns):
    prog = ctx.prog
    p = prog.fn('qb_log_thread_log_post')
    locks = [ev for ev in p.events('CALL') if ev.callee == 'qb_thread_lock' and LOCK in estr(ev.args[0])]
    if not locks:
        raise AnalysisBroken('qb_log_thread_log_post: no lock')
    # the variable compared with pthread_self()
    eqs = [n for b in p.blocks.values() if b.cond is not None for n in walk(b.cond) if n.get('k') == 'call' and callee_of(n) == 'pthread_equal']
    wvars = set()
    for n in eqs:
        for a in n['args']:
            u = unwrap(a)
            if u.get('k') == 'var' and u.get('sc') == 'g':
                wvars.add(u['n'])

    def not_the_writer(a, fb):
        l = unwrap(a.l)
        if callee_of(l) == 'pthread_equal' and a.op == '==' and a.rc == 0:
            return True
        # the "somebody is writing" flag being clear
        return l.get('k') == 'var' and l.get('sc') == 'g' and a.op == '==' and a.rc == 0 and any(
            l['n'] == estr(st.lhs) for g in fns for st in g.events('STORE') if g.name in WRITERS or any(c.callee in WRITERS for c in g.events('CALL')))
    for lk in locks:
        ctx.check('R12', 'post:not-from-the-writing-thread', bool(eqs) and p.uncut_path(lk, not_the_writer) is None, lk,
                  'the queue lock is taken only by a thread that is not handing records to the targets',
                  'qb_log_thread_log_post waits for the queue lock whoever calls it: a logger callback that logs is called with that lock held (by the logging '
                  'thread, or by a control operation writing the queue out) and waits for its own thread for ever - the producer blocks behind it and qb_log_fini never returns')
    # every write of a queued record records the writer first
    n = 0
    for g in fns:
        for ev in g.events('CALL'):
            if ev.callee == 'qb_log_thread_log_write' and g.name != 'qb_log_thread_log_post':
                n += 1
                rec = [st for st in g.events('STORE') if unwrap(st.lhs).get('k') == 'var' and unwrap(st.lhs)['n'] in wvars and callee_of(unwrap(st.rhs)) == 'pthread_self'
                       and g.ev_dominates(st, ev)]
                ctx.check('R12', '%s:writer-recorded' % g.name, bool(rec), ev, 'the writing thread is recorded before the record is handed to the targets',
                          'a queued record is handed to the targets without recording which thread does it: a logger that logs is not recognised')
    if n == 0:
        raise AnalysisBroken('log_thread.c: no write of a queued record found')


DROPS = 'logt_dropped_messages'


def _is_counter(x):
    return isinstance(x, dict) and x.get('k') == 'var' and x.get('sc') == 'g' and x.get('n') == DROPS


def _zeroes(ev):
    return ev.kind == 'STORE' and ev.d['op'] == '=' and _is_counter(unwrap(ev.lhs)) and cval(unwrap(ev.rhs)) == 0


def r13(ctx, fns):
    # who reports: a function that zeroes the counter on every path (itself) - a call of it is a report
    reporters = {}
    for g in fns:
        z = [ev for ev in g.events('STORE') if _zeroes(ev)]
        if z and g.must_pass(('entry',), _zeroes)[0]:
            reporters[g.name] = z

    def is_report(ev, g):
        return _zeroes(ev) or (ev.kind == 'CALL' and ev.callee in reporters and ev.callee != g.name)
    takers = []
    for g in fns:
        dl = [ev for ev in g.calls('qb_list_del')]
        if dl and any(n.get('k') == 'var' and n.get('n') == 'logt_print_finished_records' for ev in g.events() for t in (ev.d.get('e'), ev.d.get('rhs'), ev.d.get('init')) if t for n in walk(t)):
            takers.append((g, dl))
    if len(takers) < 2:
        raise AnalysisBroken('R13: %d functions unlink queued records (the logging thread and the backlog writer expected)' % len(takers))
    for g, dl in takers:
        for d in dl:
            hits, exits, _n = g.search(('after', d), goal=lambda ev: ev.kind == 'CALL' and ev.callee == 'qb_thread_unlock' and LOCK in estr(ev.args[0]),
                                       stop=lambda ev, g=g: is_report(ev, g))
            bad = bool(hits) or bool(exits)
            ctx.check('R13', '%s:unlink-then-report' % g.name, not bad, hits[0][0] if hits else d,
                      'records taken off the queue in %s: the drop count is reported before the queue lock is released / the function returns' % g.name,
                      '%s takes records off the queue and can %s without reporting how many messages the full queue turned away: after a control operation, a pause or the stop has written the backlog the count is never said (or is said in the next logging session)'
                      % (g.name, 'release the queue lock' if hits else 'return'))
    # the report says the number: the value read from the counter reaches a call argument
    said = []
    for name, z in reporters.items():
        g = ctx.prog.fn(name)
        for ev in g.events('CALL'):
            if ev.callee in ('qb_thread_lock', 'qb_thread_unlock'):
                continue
            for a in ev.args:
                if any(_is_counter(n) for n in walk(a)) or some_source(g, a, ev, lambda x: any(_is_counter(n) for n in walk(x))):
                    said.append(ev)
    if not reporters:
        raise AnalysisBroken('R13: no function zeroes %s' % DROPS)
    ctx.check('R13', 'report-says-the-number', bool(said), said[0] if said else list(reporters.values())[0][0],
              'the function that zeroes the drop counter hands its value to a call (the line that says how many were lost)',
              'the drop counter is zeroed but its value reaches no call: the number dropped is forgotten, not reported')


def r14(ctx):
    prog = ctx.prog
    fns = {f.name: f for f in prog.all_fns() if f.file.startswith('lib/log')}
    SW = ('qb_log_target', 'threaded')

    def sets_switch(ev):
        return ev.kind == 'STORE' and last_field(ev.lhs) == SW
    S = {n for n, f in fns.items() if any(sets_switch(ev) for ev in f.events('STORE'))}
    grew = True
    while grew:
        grew = False
        for n, f in fns.items():
            if n not in S and any(ev.callee in S for ev in f.events('CALL')):
                S.add(n)
                grew = True
    brackets = [f for f in fns.values() if list(f.calls('qb_log_thread_pause')) and list(f.calls('qb_log_thread_resume'))]
    if len(brackets) < 3:
        raise AnalysisBroken('R14: %d functions bracket their work with pause/resume' % len(brackets))
    for f in sorted(brackets, key=lambda g: g.name):
        envs = [({}, '')]
        sw = [b for b in f.blocks.values() if b.cond is not None and any(isinstance(l, tuple) and l[0] == 'case' for (_t, l) in b.succs)]
        pnames = {pp['n'] for pp in f.params}
        svars = {estr(unwrap(b.cond)) for b in sw if estr(unwrap(b.cond)) in pnames}
        if len(svars) == 1:
            v = sorted(svars)[0]
            vals = sorted({l[1] for b in sw for (_t, l) in b.succs if isinstance(l, tuple) and l[0] == 'case' and estr(unwrap(b.cond)) == v})
            envs = [({v: x}, ' (%s == %s)' % (v, x)) for x in vals]
        bad = None
        for env0, label in envs:
            def eff(ev, env):
                if ev.kind == 'CALL' and ev.callee == 'qb_log_thread_pause':
                    return {'#p': 1}
                if ev.kind == 'CALL' and ev.callee == 'qb_log_thread_resume':
                    return {'#p': 0}
                return None
            env = dict(env0)
            env['#p'] = 0
            visits, _t = abstract_run(f, env, tracked=set(env0) | {'#p'}, effect=eff)
            for (ev, e) in visits:
                if e.get('#p') == 1 and (sets_switch(ev) or (ev.kind == 'CALL' and ev.callee in S)):
                    bad = bad or (ev, label)
        ctx.check('R14', '%s:switch-untouched-inside-bracket' % f.name, bad is None, bad[0] if bad else f,
                  'nothing between pause and resume in %s changes the threaded switch they both test' % f.name,
                  '%s%s: between qb_log_thread_pause and qb_log_thread_resume %s changes the target\'s threaded switch: the resume no longer sees a threaded target, releases nothing, and the queue lock stays held'
                  % (f.name, bad[1] if bad else '', ('the call of ' + bad[0].callee) if bad and bad[0].kind == 'CALL' else 'a store'))


def _lin(f, e, at, depth=0):
    """e as a linear form {'strlen': k, 'self': k, 'const': c} over strlen(<a buffer>), the counter itself and constants (sizeof
    folded); None if it is anything else.  Locals are followed through their single reaching definition."""
    e = unwrap(e)
    if not isinstance(e, dict) or depth > 6:
        return None
    c = cval(e)
    if c is not None:
        return {'const': c}
    k = e.get('k')
    if k == 'var':
        if e['n'] == 'logt_memory_used':
            return {'self': 1}
        if e.get('sc') == 'l':
            defs, entry = f.reaching_defs(e['n'], at)
            if entry or len(defs) != 1:
                return None
            d = defs[0]
            rhs = d.rhs if d.kind == 'STORE' else d.d.get('init')
            if rhs is None or (d.kind == 'STORE' and d.d['op'] != '='):
                return None
            return _lin(f, rhs, d, depth + 1)
        return None
    if k == 'call' and callee_of(e) == 'strlen':
        return {'strlen': 1}
    if k == 'bin' and e['op'] in ('+', '-'):
        l, r = _lin(f, e['l'], at, depth + 1), _lin(f, e['r'], at, depth + 1)
        if l is None or r is None:
            return None
        sg = 1 if e['op'] == '+' else -1
        out = dict(l)
        for key, v in r.items():
            out[key] = out.get(key, 0) + sg * v
        return out
    return None


def _delta(f, ev):
    """what a store to the counter adds to it, as a linear form (None: not of that shape)"""
    op = ev.d['op']
    if op in ('+=', '-='):
        r = _lin(f, ev.rhs, ev)
        if r is None or r.get('self'):
            return None
        return {k: (v if op == '+=' else -v) for k, v in r.items() if v}
    if op == '=':
        r = _lin(f, ev.rhs, ev)
        if r is None:
            return None
        if r.get('self', 0) != 1:
            return {'reset': 1} if not r.get('self') and not r.get('strlen') and r.get('const', 0) == 0 else None
        return {k: v for k, v in r.items() if k != 'self' and v}
    return None


def _fmt(d):
    return ' '.join('%+d*%s' % (v, k) if k != 'const' else '%+d' % v for k, v in sorted(d.items())) or '0'


def r15(ctx, fns):
    post = ctx.prog.fn('qb_log_thread_log_post')
    sts = [ev for ev in post.events('STORE') if estr(ev.lhs) == 'logt_memory_used']
    if not sts:
        raise AnalysisBroken('qb_log_thread_log_post: no store to logt_memory_used')
    deltas = [(ev, _delta(post, ev)) for ev in sts]
    if any(d is None for (_e, d) in deltas):
        raise AnalysisBroken('qb_log_thread_log_post: a store to logt_memory_used is not a linear form over strlen, sizeof and constants')
    ups = [(ev, d) for (ev, d) in deltas if d.get('strlen', 0) > 0]
    if len(ups) != 1:
        raise AnalysisBroken('qb_log_thread_log_post: %d stores raise the counter' % len(ups))
    up = ups[0][1]
    neg = {k: -v for k, v in up.items()}
    for ev, d in deltas:
        if d is up:
            continue
        ctx.check('R15', 'post:over-limit-takes-back-what-it-added', d == neg, ev, 'the over-limit edge lowers the counter by what was added (%s)' % _fmt(up),
                  'the over-limit edge changes the counter by %s after having added %s: each dropped message moves the counter for good' % (_fmt(d), _fmt(up)))
    n = 0
    for f in fns:
        if f is post:
            continue
        for ev in f.events('STORE'):
            if estr(ev.lhs) != 'logt_memory_used':
                continue
            d = _delta(f, ev)
            if d == {'reset': 1}:
                continue
            n += 1
            if d is None:
                ctx.inconclusive('R15', '%s:takes-off-what-was-added' % f.name, ev, 'the change of logt_memory_used is not a linear form over strlen, sizeof and constants')
                continue
            ctx.check('R15', '%s:takes-off-what-was-added' % f.name, d == neg, ev,
                      'a record taken off the queue lowers the counter by what queueing it added (%s)' % _fmt(up),
                      'a record taken off the queue changes the counter by %s, queueing it had added %s: the difference stays in logt_memory_used for every '
                      'message written, and once it has added up to the 512000 limit every further message is dropped although the queue is empty' % (_fmt(d), _fmt(up)))
    if n == 0:
        raise AnalysisBroken('no function lowers logt_memory_used')
