"""C07 - ring buffer capacity contract: constants/layout agreement, refusals
without effect, mapping matches indexing."""
from engine.qb import (cond_cut, cmp_forms, AnalysisBroken, estr, unwrap, cval, walk, last_field, fields_of, callee_of, mentions_var, atoms_of)
from rules.common import (field_is, is_shared_data_idx, shared_store, is_marker_get, is_marker_set, has_call, macro_named)
from rules import c01

UNITS = ['lib/ringbuffer.c', 'lib/ringbuffer_helper.c', 'lib/unix.c']
DECIDES = ('Decides that the margin and chunk-layout constants agree at every site that uses them, that refused writes and '
           'too-small reads have no effect, and that the double mapping matches the modulo indexing; the free-space arithmetic '
           'over all sizes and positions is not decided.')
RULES = {
    'R1': 'one margin: K_open (added to size in open) = K_alloc (both comparisons in chunk_alloc) + 1 = K_file (create_from_file); K_alloc = 4*(H+1+cache-line words)',
    'R2': 'one chunk layout: length at offset 0, marker at +1, payload at +H modulo word_size; chunk_step skips H + ceil(len/4) words',
    'R3': 'a refused write changes nothing (C01.R5)',
    'R4': 'chunk_read: len < chunk_size returns -ENOBUFS without shared store or reclaim and reposts; memcpy length is the compared chunk_size',
    'R5': 'circular mmap: 2*bytes reserved, the same fd mapped MAP_FIXED|MAP_SHARED at addr and addr+bytes, offset 0; word_size = real_size/4 for the same real_size; close unmaps (word_size*4)<<1',
    'R6': 'qb_rb_space_free/used: one word is kept unused (the -1), equal indices mean empty, result scaled by the word size',
    'R7': 'no stale payload can pass for a chunk: before a chunk is published the two words the reader will take for the next header (at the new write_pt) are overwritten - the length word always, the marker word unless it is the published chunk\'s own length word (ring filled completely) - with values that are not the published-chunk marker',
    'R8': 'the space test cannot be fooled by a huge length: wherever qb_rb_chunk_alloc compares the free space with len + margin, len is already known not to exceed what the whole ring holds (a test of len against a quantity measured on word_size, made without adding to len): for the twelve lengths below SIZE_MAX the sum wraps to a small number',
    'R9': 'the notifier\'s count is the number of chunks not taken yet, whatever the order of the reader\'s calls: qb_rb_chunk_peek gives the count it waited for back on every path (it takes no chunk), qb_rb_chunk_reclaim and qb_rb_chunk_read take one count for the chunk they take out (reclaim without blocking, and not at all if no count is there), and the internal reclaim they share takes none',
    'R10': 'a size the ring\'s 32-bit words cannot describe is refused at open: the requested size is compared with a constant below 2^32 before the margin is added to it, and the rounded size with a constant below 2^32 before word_size (a 32-bit field, as are the indices and each chunk\'s length word) is computed from it - otherwise the ring is silently smaller than asked for, or chunk lengths and index steps wrap',
}
FLOORS = {'R1': 7, 'R2': 9, 'R3': 5, 'R4': 5, 'R5': 9, 'R6': 6, 'R7': 4, 'R8': 2, 'R9': 4, 'R10': 2}


def run(ctx):
    prog = ctx.prog
    PROG[0] = prog
    magic = c01._magic_consts(prog)
    H = r2(ctx)
    r1(ctx, H)
    # R3 = C01.R5 under this property's rule name
    sub = type(ctx)(prog, ctx.prop, ctx.tier, ctx.depth)
    c01.r5(sub, magic)
    for r in sub.results:
        r['rule'] = 'R3'
        ctx.results.append(r)
    r4(ctx, magic)
    r5(ctx)
    r6(ctx)
    r7(ctx)
    r8(ctx)
    r10(ctx)
    r9(ctx)


def _lin(e):
    """e as (list of non-constant terms, constant) over + only"""
    e = unwrap(e)
    c = cval(e)
    if c is not None:
        return [], c
    if e.get('k') == 'bin' and e['op'] == '+':
        t1, c1 = _lin(e['l'])
        t2, c2 = _lin(e['r'])
        return t1 + t2, c1 + c2
    return [e], 0


def _plus_const(e, var_pred):
    """e == v + K (constants possibly nested) with var_pred(v): return K"""
    terms, c = _lin(e)
    if len(terms) == 1 and var_pred(terms[0]):
        return c
    return None


def r2(ctx):
    prog = ctx.prog
    Hs = set()
    sites = 0
    for fname in ('qb_rb_chunk_alloc', 'qb_rb_chunk_peek', 'qb_rb_chunk_read'):
        f = prog.fn(fname)
        for ev in f.events():
            if ev.kind == 'LOAD':
                continue
            trees = [t for t in ((ev.e if ev.kind in ('RETURN', 'CALL') else None), ev.rhs, ev.d.get('init')) if t]
            if ev.kind == 'CALL' and (ev.callee != 'memcpy'):
                continue
            for t in trees:
                marker_ptrs = set()
                for c in walk(t):
                    if c.get('k') == 'call' and (is_marker_get(c) or is_marker_set(c)):
                        marker_ptrs.add(id(unwrap(c['args'][0])))
                for n in walk(t):
                    if n.get('k') == 'addr' and is_shared_data_idx(n['e']) and id(n) not in marker_ptrs:
                        ix = unwrap(unwrap(n['e'])['i'])
                        if ix.get('k') == 'bin' and ix['op'] == '%' and ('qb_ringbuffer_shared_s', 'word_size') in fields_of(ix['r']):
                            k = _plus_const(ix['l'], lambda v: unwrap(v).get('k') == 'var')
                            if k is not None:
                                Hs.add(k)
                                sites += 1
                                ctx.ok('R2', '%s:payload-offset' % fname, ev, 'payload at (p + %d) %% word_size' % k)
                        else:
                            ctx.viol('R2', '%s:payload-offset' % fname, ev, 'payload address %s is not reduced modulo word_size' % estr(n))
    if len(Hs) != 1:
        ctx.viol('R2', 'payload-offset-agree', 'lib/ringbuffer.c', 'payload offsets disagree between sites: %s' % sorted(Hs))
        H = min(Hs) if Hs else 2
    else:
        H = next(iter(Hs))
        ctx.ok('R2', 'payload-offset-agree', 'lib/ringbuffer.c', 'all %d payload address computations use offset %d' % (sites, H))
    # marker offset 1 at all marker accesses
    moffs = set()
    for f in prog.all_fns(files={'lib/ringbuffer.c'}):
        for ev in f.events('CALL'):
            info = is_marker_set(ev) or is_marker_get(ev.e)
            if info:
                ix = unwrap(info['index'])
                if ix.get('k') == 'bin' and ix['op'] == '%':
                    k = _plus_const(ix['l'], lambda v: unwrap(v).get('k') == 'var')
                    moffs.add(k)
                else:
                    moffs.add('unreduced:' + estr(ix))
    ctx.check('R2', 'marker-offset', moffs == {1}, 'lib/ringbuffer.c', 'marker word at (p + 1) %% word_size at every access',
              'marker word offsets: %s' % sorted(moffs, key=str))
    ctx.check('R2', 'header-covers-length-and-marker', H >= 2, 'lib/ringbuffer.c', 'payload offset %d leaves room for length and marker' % H,
              'payload offset %d overlaps the chunk header' % H)
    # chunk_step
    st = prog.fn('qb_rb_chunk_step')
    pv = st.params[1]['n']
    adds = [ev for ev in st.events('STORE') if estr(ev.lhs) == pv and ev.d['op'] == '+=']
    consts = [cval(unwrap(ev.rhs)) for ev in adds if cval(unwrap(ev.rhs)) is not None]
    ctx.check('R2', 'step-skips-header', consts == [H], st, 'chunk_step skips %d header words' % H,
              'chunk_step skips %s header words but the payload starts at offset %d' % (consts, H))
    divs = [n for ev in adds for n in walk(ev.rhs) if n.get('k') == 'bin' and n['op'] == '/']
    elem = prog.type_info('unsigned int').get('bits', 32) // 8
    ctx.check('R2', 'step-divides-by-word', len(divs) == 1 and cval(unwrap(divs[0]['r'])) == elem, st,
              'payload words = chunk_size / %d' % elem, 'chunk_step divides the length by %s' % [cval(unwrap(d['r'])) for d in divs])
    # the remainder test adds one word
    rem_ok = False
    for b in st.blocks.values():
        if b.cond is None:
            continue
        mods = [n for n in walk(b.cond) if n.get('k') == 'bin' and n['op'] == '%']
        if mods and cval(unwrap(mods[0]['r'])) == elem:
            for (t, lab) in b.succs:
                if lab in (True, False) and any(a.op == '!=' and a.rc == 0 for a in atoms_of(b.cond, lab)):
                    rem_ok = any(ev.kind == 'STORE' and estr(ev.lhs) == pv and ev.d['op'] == '++' for ev in st.blocks[t].events)
    ctx.check('R2', 'step-rounds-up', rem_ok, st, 'a non-multiple-of-4 length takes one more word',
              'chunk_step does not round a partial word up (next chunk would overlap the payload tail)')
    # the length used by step is the word at offset 0
    lens = [ev for ev in st.events() if ev.kind in ('DECL', 'STORE') and is_shared_data_idx(ev.d.get('init') or ev.rhs or {})]
    ok0 = bool(lens) and all(estr(unwrap(ev.d.get('init') or ev.rhs)['i']) == pv for ev in lens)
    ctx.check('R2', 'length-at-offset-0', ok0, st, 'length word is shared_data[p]', 'chunk_step reads the length from another word')
    # the stepped index is a valid index again: 0 <= result <= word_size - 1 on every path (bounds analysis; the dump writer stores
    # the raw index and the dump reader refuses index >= word_size, and peek/read/reclaim index the marker with it)
    from engine.bounds import Analysis, Lin
    ws = [estr(n) for ev in st.events('LOAD') for n in [unwrap(ev.e)] if last_field(n) == ('qb_ringbuffer_shared_s', 'word_size')]
    if not ws:
        raise AnalysisBroken('qb_rb_chunk_step: word_size is not read')
    W = Lin.term(ws[0])
    an = Analysis(prog, st, {}, init=[Lin(1) - W]).run()
    if not an.returns:
        raise AnalysisBroken('qb_rb_chunk_step: no return')
    ok = all(v is not None and s2.entails_le(v, W - 1) and s2.entails_le(0, v) for (_e, s2, v) in an.returns)
    ctx.check('R2', 'step-result-below-word_size', ok, an.returns[0][0], 'chunk_step returns an index in [0, word_size - 1]',
              'chunk_step can return word_size itself (or more): the index is stored into read_pt/write_pt, dumped as is and refused by the dump reader; the marker access relies on the double mapping')
    return H


def r1(ctx, H):
    prog = ctx.prog
    op = prog.fn('qb_rb_open_2')
    sizev = op.params[1]['n']
    adds = [ev for ev in op.events('STORE') if estr(ev.lhs) == sizev and ev.d['op'] == '+=']
    if len(adds) != 1 or cval(unwrap(adds[0].rhs)) is None:
        raise AnalysisBroken('qb_rb_open_2: the single "size += constant" was not found')
    k_open = cval(unwrap(adds[0].rhs))
    # real_size derives from size after the addition
    al = prog.fn('qb_rb_chunk_alloc')
    lenv = al.params[1]['n']
    ks = []
    for b in al.blocks.values():
        c = unwrap(b.cond) if b.cond else None
        for (l, o, r) in cmp_forms(c) if c else []:
            # oriented as  space_free OP len + K
            if has_call(l, 'qb_rb_space_free'):
                k = _plus_const(r, lambda v: estr(v) == lenv)
                if k is not None:
                    ks.append((k, o, b))
    # every comparison of the free space in alloc is of that form: one that is not (a sum that rounds len up, a helper value) keeps some
    # other distance between the new chunk and the unread data than the one commit's pre-clearing of two words behind the chunk needs
    other = []
    for b in al.blocks.values():
        c = unwrap(b.cond) if b.cond else None
        for (l, o, r) in cmp_forms(c) if c else []:
            if has_call(l, 'qb_rb_space_free') and _plus_const(r, lambda v: estr(v) == lenv) is None:
                other.append((b, estr(r)))
    ctx.check('R1', 'every-space-test-keeps-the-margin', not other, '%s:%d (qb_rb_chunk_alloc)' % (al.file, other[0][0].term_ln) if other else al,
              'every comparison of the free space is with len + the margin',
              'the free space is compared with %s, not with len + the margin: a chunk that ends one word before the read index is accepted and the two words commit clears behind it overwrite the length word of the oldest unread chunk'
              % (other[0][1] if other else ''))
    if not ks:
        raise AnalysisBroken('qb_rb_chunk_alloc: no comparison space_free < len + K found')
    # one comparison per mode, or one shared by both modes
    ctx.check('R1', 'alloc-margins-equal', len({k for (k, _o, _b) in ks}) == 1, al, '%d comparison(s) with len + %d' % (len(ks), ks[0][0]),
              'overwrite and normal mode use different margins: %s' % [k for (k, _o, _b) in ks])
    k_alloc = ks[0][0]
    for (k, o, b) in ks:
        ctx.check('R1', 'alloc-compare-strict:%s' % b.term, o == '<', '%s:%d (qb_rb_chunk_alloc)' % (al.file, b.term_ln),
                  'refuses exactly when space_free < len + K', 'comparison operator is %s' % o)
    ctx.check('R1', 'open-margin', k_open == k_alloc + 1, adds[0], 'open adds %d = K_alloc + 1' % k_open,
              'open adds %d but alloc needs len + %d (+1 for the unused word): a chunk of the requested size would be refused or overlap' % (k_open, k_alloc))
    cl = None
    for n in walk(adds[0].rhs):
        if n.get('mn') == 'QB_CACHE_LINE_WORDS':
            cl = cval(n)
    elem = 4
    if cl is None:
        raise AnalysisBroken('qb_rb_open_2: margin expression no longer mentions QB_CACHE_LINE_WORDS')
    ctx.check('R1', 'margin-covers-header', k_alloc == elem * (H + 1 + cl), adds[0],
              'K_alloc = 4*(H=%d + 1 + cacheline=%d) = %d' % (H, cl, k_alloc),
              'K_alloc=%d is not 4*(header words %d + 1 alignment word + %d cache-line words)' % (k_alloc, H, cl))
    # the longest chunk an empty ring holds, as the never-fits test and the blackbox use it: all the words there are, less the margin
    if prog.has_fn('qb_rb_chunk_max'):
        cm = prog.fn('qb_rb_chunk_max')

        def lin(e):
            # a * word_size + b, or None
            e = unwrap(e)
            c = cval(e)
            if c is not None:
                return (0, c)
            if last_field(e) == ('qb_ringbuffer_shared_s', 'word_size'):
                return (1, 0)
            if e.get('k') == 'bin' and e['op'] in ('+', '-', '*'):
                l_, r_ = lin(e['l']), lin(e['r'])
                if l_ is None or r_ is None:
                    return None
                if e['op'] == '+':
                    return (l_[0] + r_[0], l_[1] + r_[1])
                if e['op'] == '-':
                    return (l_[0] - r_[0], l_[1] - r_[1])
                if l_[0] == 0:
                    return (l_[1] * r_[0], l_[1] * r_[1])
                if r_[0] == 0:
                    return (l_[0] * r_[1], l_[1] * r_[1])
            return None
        vals = [lin(r_.e) for r_ in cm.returns() if r_.e is not None and cval(unwrap(r_.e)) is None]
        ctx.check('R1', 'chunk-max-is-all-words-less-the-margin', bool(vals) and all(v == (elem, -k_alloc) for v in vals), cm,
                  'qb_rb_chunk_max is %d * word_size - %d' % (elem, k_alloc),
                  'qb_rb_chunk_max is %s (as a * word_size + b), not (%d, -%d): an empty ring has all its words free, so chunks of the last few bytes below the requested size are refused for good on rings whose size is 13 to 15 bytes below a page multiple' % (vals, elem, k_alloc))
    cf = prog.fn('qb_rb_create_from_file')
    opens = list(cf.calls('qb_rb_open'))
    if len(opens) != 1:
        raise AnalysisBroken('qb_rb_create_from_file: qb_rb_open calls = %d' % len(opens))
    a = unwrap(opens[0].args[1])
    k_file = cval(unwrap(a['r'])) if a.get('k') == 'bin' and a['op'] == '-' else None
    ctx.check('R1', 'file-margin', k_file == k_open, opens[0], 'create_from_file subtracts %s = what open adds' % k_file,
              'create_from_file subtracts %s but open adds %d: the recreated ring has a different word_size' % (k_file, k_open))


def r4(ctx, magic):
    prog = ctx.prog
    f = prog.fn('qb_rb_chunk_read')
    lenp = f.params[2]['n']
    cps = [ev for ev in f.calls('memcpy') if ('qb_ringbuffer_s', 'shared_data') in fields_of(ev.args[1])]
    if len(cps) != 1:
        raise AnalysisBroken('qb_rb_chunk_read: payload memcpy sites = %d' % len(cps))
    cp = cps[0]
    n = unwrap(cp.args[2])
    ctx.check('R4', 'copy-dest-is-caller-buffer', estr(cp.args[0]) == f.params[1]['n'], cp, 'memcpy destination is data_out',
              'memcpy destination is %s' % estr(cp.args[0]))

    def fits(a, fb):
        # len >= chunk_size  (the copied length variable)
        return (a.op == '>=' and a.ls == lenp and a.rs == estr(n)) or (a.op == '<=' and a.rs == lenp and a.ls == estr(n))
    path = f.uncut_path(cp, fits)
    ctx.check('R4', 'copy-needs-len>=chunk', path is None and n.get('k') == 'var', cp,
              'the copy of %s bytes is cut by %s >= %s' % (estr(n), lenp, estr(n)),
              'payload copy of %s bytes into the caller buffer is reachable without %s >= %s' % (estr(n), lenp, estr(n)))
    # the compared variable still holds the chunk length (no store between test and copy)
    if n.get('k') == 'var':
        defs, entry = f.reaching_defs(n['n'], cp)
        ok = not entry and all(is_shared_data_idx(unwrap(d.rhs if d.kind == 'STORE' else d.d.get('init') or {})) for d in defs)
        ctx.check('R4', 'copy-length-is-chunk-length', ok, cp, 'the copied length is the chunk length word',
                  'the copied length is not (only) the chunk length word')
    for rc in f.calls('_rb_chunk_reclaim'):
        path = f.uncut_path(rc, fits)
        ctx.check('R4', 'reclaim-needs-len>=chunk', path is None, rc, 'reclaim only after the size test passed',
                  'the chunk is reclaimed although it was not copied (too-small buffer)')
    # the too-small edge: -ENOBUFS, no shared store, token reposted
    for b in f.blocks.values():
        if b.cond is None:
            continue
        for (t, lab) in b.succs:
            if lab in (True, False) and any((a.op == '<' and a.ls == lenp and a.rs == estr(n)) or (a.op == '>' and a.rs == lenp and a.ls == estr(n))
                                            for a in atoms_of(b.cond, lab)):
                hits, _e, _n = f.search(('edge', b.id, t), goal=lambda ev: shared_store(ev) or (ev.kind == 'CALL' and ev.callee == '_rb_chunk_reclaim'))
                ctx.check('R4', 'too-small:no-effect', not hits, '%s:%d (qb_rb_chunk_read)' % (f.file, b.term_ln),
                          'the too-small edge reaches no shared store and no reclaim', 'the too-small edge modifies the ring: %r' % (hits[0][0] if hits else None))
                rets, _e2, _n2 = f.search(('edge', b.id, t), goal=lambda ev: ev.kind == 'RETURN')
                ctx.check('R4', 'too-small:returns-ENOBUFS', bool(rets) and all(cval(unwrap(ev.e)) == -105 for (ev, _p) in rets),
                          '%s:%d (qb_rb_chunk_read)' % (f.file, b.term_ln), 'returns -ENOBUFS', 'does not return -ENOBUFS')

                def nullslot_ok(fb, t2, l3):
                    if fb.cond is None or l3 not in (True, False):
                        return True
                    return not any(a.op == '==' and a.rc == 0 and field_is(a.l, 'post_fn') for a in atoms_of(fb.cond, l3))
                _h, exits, _n3 = f.search(('edge', b.id, t), stop=lambda ev: ev.kind == 'CALL' and ev.callee == 'qb_rb_notifier::post_fn',
                                          edge_filter=nullslot_ok)
                ctx.check('R4', 'too-small:reposts-token', not exits, '%s:%d (qb_rb_chunk_read)' % (f.file, b.term_ln),
                          'the wait token is given back', 'the wait token consumed by timedwait is not given back: the chunk stays but is never signalled again')


def r5(ctx):
    prog = ctx.prog
    f = prog.fn('qb_sys_circular_mmap')
    fdp, bufp, bytesp = f.params[0]['n'], f.params[1]['n'], f.params[2]['n']
    mm = list(f.calls('mmap'))
    if len(mm) != 3:
        raise AnalysisBroken('qb_sys_circular_mmap: mmap call sites = %d (expected reserve + two fixed mappings)' % len(mm))
    reserve = [m for m in mm if cval(unwrap(m.args[4])) == -1]
    fixed = [m for m in mm if m not in reserve]
    fx = list(fixed)
    fixed = sorted(fx, key=lambda m: sum(1 for o in fx if f.ev_dominates(o, m)))
    ok = len(reserve) == 1 and estr(reserve[0].args[1]) in ('(%s << 1)' % bytesp, '(%s * 2)' % bytesp, '(2 * %s)' % bytesp)
    ctx.check('R5', 'reserve-twice', ok, reserve[0] if reserve else f, 'address space reserved for 2*bytes',
              'reservation length is %s' % (estr(reserve[0].args[1]) if reserve else None))
    MAP_SHARED, MAP_FIXED = 0x01, 0x10
    addrs = []
    for m in fixed:
        fl = cval(unwrap(m.args[3])) or 0
        ctx.check('R5', 'fixed-shared', fl & MAP_FIXED and fl & MAP_SHARED, m, 'mapping is MAP_FIXED|MAP_SHARED', 'mapping flags %#x' % fl)
        ctx.check('R5', 'same-fd-offset0-len', estr(m.args[4]) == fdp and cval(unwrap(m.args[5])) == 0 and estr(m.args[1]) == bytesp, m,
                  'maps fd at offset 0 for `bytes`', 'mapping is (%s, fd=%s, off=%s)' % (estr(m.args[1]), estr(m.args[4]), estr(m.args[5])))
        addrs.append(m)
    # second address = first + bytes
    a0 = unwrap(fixed[0].args[0]) if fixed else {}
    a1 = unwrap(fixed[1].args[0]) if len(fixed) > 1 else {}
    second_ok = False
    if a1.get('k') == 'var':
        defs, entry = f.reaching_defs(a1['n'], fixed[1])
        second_ok = not entry and len(defs) == 1 and estr(defs[0].rhs) == '(%s + %s)' % (estr(a0), bytesp)
    ctx.check('R5', 'second-at-addr+bytes', second_ok, fixed[1] if len(fixed) > 1 else f, 'second mapping at first + bytes',
              'second mapping address is not first + bytes')
    outs = [ev for ev in f.events('STORE') if unwrap(ev.lhs).get('k') == 'deref' and estr(unwrap(ev.lhs)['e']) == bufp]
    ctx.check('R5', 'returns-base', bool(outs) and all(estr(ev.rhs) == estr(a0) for ev in outs), outs[0] if outs else f,
              '*buf = base address', '*buf is %s' % [estr(ev.rhs) for ev in outs])
    op = prog.fn('qb_rb_open_2')
    ws = list(op.stores(field='word_size', rec='qb_ringbuffer_shared_s'))
    cm = list(op.calls('qb_sys_circular_mmap'))
    if len(ws) != 1 or len(cm) != 1:
        raise AnalysisBroken('qb_rb_open_2: word_size stores=%d circular_mmap calls=%d' % (len(ws), len(cm)))
    r = unwrap(ws[0].rhs)
    ok = r.get('k') == 'bin' and r['op'] == '/' and cval(unwrap(r['r'])) == 4 and estr(r['l']) == estr(cm[0].args[2])
    ctx.check('R5', 'word_size=real_size/4', ok, ws[0], 'word_size = %s / 4 and %s bytes are mapped' % (estr(cm[0].args[2]), estr(cm[0].args[2])),
              'word_size = %s but %s bytes are mapped: indices modulo word_size leave the mapping' % (estr(ws[0].rhs), estr(cm[0].args[2])))
    ch = prog.fn('qb_rb_close_helper')
    um = [ev for ev in ch.calls('munmap') if field_is(ev.args[0], 'shared_data')]
    ok = len(um) == 1
    if ok:
        ln = unwrap(um[0].args[1])
        ok = ln.get('k') == 'bin' and ln['op'] in ('<<', '*') and cval(unwrap(ln['r'])) in (1, 2) and \
            any(n.get('k') == 'bin' and n['op'] == '*' and cval(unwrap(n['r'])) == 4 for n in walk(ln['l']))
    ctx.check('R5', 'close-unmaps-both-halves', ok, um[0] if um else ch, 'close unmaps (word_size*4) << 1',
              'close unmaps %s' % (estr(um[0].args[1]) if um else 'nothing'))


def r6(ctx):
    prog = ctx.prog
    f = prog.fn('qb_rb_space_free')
    # locals holding write_pt / read_pt
    wv = rv = None
    for ev in f.events('STORE'):
        if field_is(ev.rhs, 'write_pt') and unwrap(ev.lhs).get('k') == 'var':
            wv = estr(ev.lhs)
        if field_is(ev.rhs, 'read_pt') and unwrap(ev.lhs).get('k') == 'var':
            rv = estr(ev.lhs)
    loads = [ev for ev in f.events('LOAD') if field_is(ev.e, 'write_pt') or field_is(ev.e, 'read_pt')]
    if not wv or not rv:
        if not loads and not any(field_is(n, 'read_pt') or field_is(n, 'write_pt') for b_ in f.blocks.values() if b_.cond is not None for n in walk(b_.cond)):
            raise AnalysisBroken('qb_rb_space_free: the indices are not read')
        ctx.check('R6', 'space_free:indices-read-once', False, f,
                  '', 'qb_rb_space_free compares and subtracts the shared indices where it uses them, instead of working on one copy of each: they are volatile and the other side moves its own at any time - a read index that wraps between the comparison and the subtraction gives the writer a free space of about 2^32 words, and it overwrites unread chunks')
        return
    ctx.check('R6', 'space_free:indices-read-once', True, f, 'qb_rb_space_free works on one copy of each index (%s, %s)' % (wv, rv), '')
    sts = [ev for ev in f.events('STORE') if ev.d['op'] == '=' and unwrap(ev.lhs).get('k') == 'var' and estr(ev.lhs) not in (wv, rv)]
    seen = {}
    for ev in sts:
        ats = {(a.ls, a.op, a.rs) for (a, _e) in f.guards(ev)}
        s = estr(ev.rhs)
        if (wv, '>', rv) in ats:
            seen['w>r'] = (ev, s == '(((%s - %s) + rb->shared_hdr->word_size) - 1)' % (rv, wv))
        elif (wv, '<', rv) in ats:
            seen['w<r'] = (ev, s == '((%s - %s) - 1)' % (rv, wv))
        elif (wv, '<=', rv) in ats and (wv, '>=', rv) in ats:
            seen.setdefault('w==r', []).append((ev, s))
    for key, what in (('w>r', 'free = read - write + word_size - 1'), ('w<r', 'free = read - write - 1')):
        if key not in seen:
            ctx.viol('R6', 'space_free:%s' % key, f, 'case %s not found' % key)
        else:
            ctx.check('R6', 'space_free:%s' % key, seen[key][1], seen[key][0], what, 'case %s computes %s' % (key, estr(seen[key][0].rhs)))
    eq = seen.get('w==r', [])
    ctx.check('R6', 'space_free:w==r', any(s == 'rb->shared_hdr->word_size' for (_e, s) in eq), eq[0][0] if eq else f,
              'equal indices mean empty: free = word_size', 'equal indices do not yield word_size: %s' % [s for (_e, s) in eq])
    rets = [ev for ev in f.returns() if ev.e is not None and cval(unwrap(ev.e)) is None and not has_call(ev.e, 'qb_rb_notifier::space_used_fn')]
    ctx.check('R6', 'space_free:scaled', bool(rets) and all(any(n.get('k') == 'bin' and n['op'] == '*' and cval(unwrap(n['r'])) == 4 for n in walk(ev.e)) for ev in rets),
              rets[0] if rets else f, 'result converted words -> bytes (*4)', 'result is not scaled by the word size')
    u = prog.fn('qb_rb_space_used')
    urets = [ev for ev in u.returns() if ev.e is not None and cval(unwrap(ev.e)) is None and not has_call(ev.e, 'qb_rb_notifier::space_used_fn')]
    ctx.check('R6', 'space_used:scaled', bool(urets) and all(any(n.get('k') == 'bin' and n['op'] == '*' and cval(unwrap(n['r'])) == 4 for n in walk(ev.e)) for ev in urets),
              urets[0] if urets else u, 'space_used converted words -> bytes', 'space_used is not scaled by the word size')


def r7(ctx):
    prog = ctx.prog
    magic = c01._magic_consts(prog)
    f = prog.fn('qb_rb_chunk_commit')
    pubs = [ev for ev in f.events('CALL') if is_marker_set(ev) and (is_marker_set(ev)['value'] or 0) & 0xFFFFFFFF == magic]
    wps = list(f.stores(field='write_pt', rec='qb_ringbuffer_shared_s'))
    if len(pubs) != 1 or len(wps) != 1:
        raise AnalysisBroken('qb_rb_chunk_commit: publications=%d write_pt stores=%d' % (len(pubs), len(wps)))
    pub, wp = pubs[0], wps[0]
    # the new write position as the function names it: the value stored into write_pt (a local, or the step call itself)
    newx = unwrap(wp.rhs)
    names = {estr(newx)}
    if newx.get('k') == 'var':
        pass
    else:
        # write_pt = step(...) directly: any local assigned the same call counts too
        for st in f.events('STORE'):
            if st.rhs is not None and estr(unwrap(st.rhs)) == estr(newx) and unwrap(st.lhs).get('k') == 'var':
                names.add(estr(st.lhs))

    def at_new(ix):
        return any(estr(n) in names for n in walk(ix))
    # 1. the length word of the next header
    lenclr = [ev for ev in f.events('STORE') if is_shared_data_idx(ev.lhs) and estr(unwrap(ev.lhs)['i']) in names and ev.d['op'] == '=' and
              (cval(unwrap(ev.rhs)) is not None)]
    ok = bool(lenclr) and all(f.ev_dominates(ev, pub) for ev in lenclr)
    ctx.check('R7', 'next-length-word-overwritten', ok, lenclr[0] if lenclr else pub,
              'the word the reader will take for the next chunk\'s length is overwritten before the chunk is published',
              'nothing overwrites the word at the new write_pt: it keeps payload of an earlier lap, which the reader takes for a chunk length once the marker word matches')
    # 2. the marker word of the next header
    mclr = [ev for ev in f.events('CALL') if is_marker_set(ev) and ev is not pub and at_new(is_marker_set(ev)['index']) and
            is_marker_set(ev)['value'] is not None and is_marker_set(ev)['value'] & 0xFFFFFFFF != magic]
    ctx.check('R7', 'next-marker-word-overwritten', bool(mclr) and all(f.may_follow(ev, pub) and not f.may_follow(pub, ev) for ev in mclr), mclr[0] if mclr else pub,
              'the word the reader will take for the next chunk\'s marker is overwritten with a non-marker value before the chunk is published',
              'the marker word behind a new chunk is never overwritten: payload of an earlier lap that equals the marker constant is read as a chunk nobody wrote '
              '(and read_pt runs past write_pt: the empty ring then refuses every write)')
    if mclr:
        # it may only be skipped when that word is the published chunk's own length word
        oldv = [estr(st.lhs) for st in f.events('STORE') if unwrap(st.lhs).get('k') == 'var' and st.rhs is not None and last_field(unwrap(st.rhs)) == ('qb_ringbuffer_shared_s', 'write_pt')]
        oldv += [ev.d['var'] for ev in f.events('DECL') if ev.d.get('init') is not None and last_field(unwrap(ev.d['init'])) == ('qb_ringbuffer_shared_s', 'write_pt')]

        def own_word(fb, t, lab):
            if fb.cond is None or lab not in (True, False):
                return True
            for a in atoms_of(fb.cond, lab):
                if a.op == '==' and ((a.rs in oldv and at_new(a.l)) or (a.ls in oldv and at_new(a.r))):
                    return False        # this edge says: the marker word is the chunk's own first word - skipping is right
            return True
        # ... and it is skipped then: the index the overwrite stores at is the one compared with the chunk's first word (a chunk that
        # fills the ring ends one word before its own start; the marker word behind it is its own length word)
        for m in mclr:
            mix = estr(unwrap(is_marker_set(m)['index']))
            same = [a for (a, _e) in f.guards(m) if a.op == '!=' and ((a.rs in oldv and estr(unwrap(a.l)) == mix) or (a.ls in oldv and estr(unwrap(a.r)) == mix))]
            ctx.check('R7', 'marker-clear-never-hits-own-length-word', bool(same), m,
                      'the overwrite at %s is made only when that index is not the chunk\'s own first word' % mix,
                      'the overwrite stores at %s but no test compares that index with the chunk\'s own first word: a chunk that fills the ring (written at index 0, ending on the last word) gets its own length word overwritten with the marker constant and can never be read' % mix)
        hits, _e, _n = f.search(('entry',), goal=lambda ev: ev.d is pub.d, stop=lambda ev: any(ev.d is m.d for m in mclr), edge_filter=own_word)
        ctx.check('R7', 'marker-clear-skipped-only-for-own-word', not hits, pub,
                  'the overwrite is skipped only when the word is the published chunk\'s own length word',
                  'a path publishes the chunk without overwriting the next marker word although that word is free')


PROG = [None]


def len_bounded_pred(f, lenp):
    """predicate for atoms that bound the length parameter by the size of the ring: `len <= g(word_size)` with len standing alone
    on its side, or the zero value of a flag whose only definition is `len > g(word_size)`"""
    def on_ring(e, depth=2):
        if has_call(e, 'qb_rb_space_free'):
            return False
        if any(n.get('k') == 'mem' and n.get('f') == 'word_size' for n in walk(e)):
            return True
        # a function of the ring alone that is computed from word_size (the longest chunk the empty ring holds)
        if depth > 0:
            for n in walk(e):
                if n.get('k') == 'call' and callee_of(n):
                    for g in PROG[0].fns.get(callee_of(n), []):
                        if not list(g.events('STORE')) and not any(c.callee == 'qb_rb_space_free' for c in g.events('CALL')) and \
                                g.returns() and all(r.e is not None and on_ring(r.e, depth - 1) for r in g.returns()):
                            return True
        return False

    def flag_def(name):
        ds = [ev for ev in list(f.events('STORE')) + list(f.events('DECL'))
              if (ev.kind == 'DECL' and ev.d['var'] == name and 'init' in ev.d) or (ev.kind == 'STORE' and estr(ev.lhs) == name)]
        if len(ds) != 1:
            return None
        return ds[0].rhs if ds[0].kind == 'STORE' else ds[0].d['init']

    def pred(a, fb):
        l = unwrap(a.l)
        if l.get('k') == 'var' and l['n'] == lenp and a.op in ('<=', '<') and on_ring(a.r):
            return True
        if l.get('k') == 'var' and l['n'] != lenp and a.op == '==' and a.rc == 0:
            d = flag_def(l['n'])
            if d is not None:
                return any(unwrap(x.l).get('k') == 'var' and unwrap(x.l)['n'] == lenp and x.op in ('>', '>=') and on_ring(x.r) for x in atoms_of(d, True))
        return False
    return pred


def r8(ctx):
    prog = ctx.prog
    f = prog.fn('qb_rb_chunk_alloc')
    lenp = f.params[1]['n']
    pred = len_bounded_pred(f, lenp)
    n = 0
    for b in f.blocks.values():
        if b.cond is None or not has_call(b.cond, 'qb_rb_space_free'):
            continue
        # a comparison of the free space with an expression that adds to len
        adds = any(n_.get('k') == 'bin' and n_.get('op') == '+' and any(m.get('k') == 'var' and m['n'] == lenp for m in walk(n_)) for n_ in walk(b.cond))
        if not adds:
            continue
        n += 1
        ctx.check('R8', 'length-bounded-before-added-to', f.uncut_path_to_block(b.id, pred) is None if hasattr(f, 'uncut_path_to_block') else _block_cut(f, b.id, pred),
                  '%s:%d (%s)' % (f.file, b.term_ln, f.name),
                  'the free space is compared with len + margin only for a len that the ring could hold',
                  'free space is compared with len + margin for any len: for a len within the margin of SIZE_MAX the sum wraps, the request is granted on a '
                  'nearly full ring and the commit steps the write index onto the read index (a whole ring of unread data is destroyed)')
    if n < 2:
        raise AnalysisBroken('qb_rb_chunk_alloc: %d space comparisons that add to len (expected overwrite + normal mode)' % n)


def _block_cut(f, bid, pred):
    """no path from the entry reaches the decision made in block bid without crossing an edge that establishes pred"""
    def ef(fb, t, lab):
        if fb.cond is None or lab not in (True, False):
            return True
        return not cond_cut(fb.cond, lab, lambda a: pred(a, fb))
    seen, work = set(), [f.entry]
    while work:
        x = work.pop()
        if x in seen:
            continue
        seen.add(x)
        if x == bid:
            return False
        blk = f.blocks[x]
        if blk.noreturn:
            continue
        for (t, lab) in blk.succs:
            if ef(blk, t, lab):
                work.append(t)
    return True


def r9(ctx):
    prog = ctx.prog
    WAIT, POST = 'qb_rb_notifier::timedwait_fn', 'qb_rb_notifier::post_fn'

    def waits(f):
        out, inner = [], set()
        for ev in f.events():
            if ev.kind in ('STORE', 'DECL'):
                for n in walk((ev.rhs if ev.kind == 'STORE' else ev.d.get('init')) or {}):
                    if n.get('k') == 'call' and callee_of(n) == WAIT:
                        out.append(ev)
                        inner.add(n.get('id'))
        for ev in f.events('CALL'):
            if ev.callee == WAIT and (ev.d.get('e') or {}).get('id') not in inner and not any(
                    n.get('id') == (ev.d.get('e') or {}).get('id') for b in f.blocks.values() if b.cond is not None for n in walk(b.cond)):
                out.append(ev)
        return out

    def wait_in_cond(f):
        return [b for b in f.blocks.values() if b.cond is not None and any(n.get('k') == 'call' and callee_of(n) == WAIT for n in walk(b.cond))]
    # peek: count-neutral
    pk = prog.fn('qb_rb_chunk_peek')
    w = waits(pk)
    if len(w) != 1:
        raise AnalysisBroken('qb_rb_chunk_peek: waits = %d' % len(w))
    resv = estr(w[0].lhs) if w[0].kind == 'STORE' else None
    bad = []
    for ev in pk.returns():
        # returns reached with the count taken (wait succeeded) must pass a post
        def failed(a, fb):
            return resv is not None and a.ls == resv and a.op == '<' and a.rc == 0
        def no_notifier(a, fb):
            lf = last_field(a.l)
            return lf is not None and lf[0] == 'qb_rb_notifier' and lf[1] in ('post_fn', 'timedwait_fn') and a.op == '==' and a.rc == 0
        hits, _e, _n = pk.search(('after', w[0]), goal=lambda x: x is ev, stop=lambda x: x.kind == 'CALL' and x.callee == POST,
                                 edge_filter=lambda fb, t, lab: not (fb.cond is not None and lab in (True, False) and
                                                                     any(failed(a, fb) or no_notifier(a, fb) for a in atoms_of(fb.cond, lab))))
        if hits:
            bad.append(ev)
    ctx.check('R9', 'peek-leaves-the-count', not bad, bad[0] if bad else w[0], 'every return of qb_rb_chunk_peek behind a successful wait has given the count back',
              'qb_rb_chunk_peek keeps the count it waited for although it takes no chunk: "peek, read" uses two counts for one chunk (the second read times out with '
              'a chunk in the ring), and a reclaim without a peek leaves a count on an empty ring, which reads as "full" for ever')
    # public reclaim: takes a count, without blocking, and only then a chunk
    rc = prog.fn('qb_rb_chunk_reclaim')
    inner = [ev for ev in rc.calls('_rb_chunk_reclaim')]
    if len(inner) != 1:
        raise AnalysisBroken('qb_rb_chunk_reclaim: internal reclaim calls = %d' % len(inner))
    wc = wait_in_cond(rc)
    ws = waits(rc)
    took = False
    if wc:
        def got(a, fb):
            l = unwrap(a.l)
            return callee_of(l) == WAIT and a.op == '>=' and a.rc == 0
        def nonotifier(a, fb):
            return last_field(a.l) == ('qb_rb_notifier', 'timedwait_fn') and a.op == '==' and a.rc == 0
        took = rc.uncut_path(inner[0], lambda a, fb: got(a, fb) or nonotifier(a, fb)) is None
        nb = all(cval(unwrap(n['args'][1])) == 0 for b in wc for n in walk(b.cond) if n.get('k') == 'call' and callee_of(n) == WAIT)
    elif ws:
        took = all(rc.ev_dominates(x, inner[0]) for x in ws)
        nb = all(cval(unwrap(n['args'][1])) == 0 for x in ws for n in walk(x.d.get('e') or x.d.get('rhs') or {}) if n.get('k') == 'call' and callee_of(n) == WAIT)
    else:
        nb = True
    ctx.check('R9', 'reclaim-takes-a-count', took, inner[0], 'qb_rb_chunk_reclaim takes a chunk out only with a count taken (or without a notifier)',
              'qb_rb_chunk_reclaim takes a chunk out of the ring without taking a count: after "write, reclaim" the count is 1 on an empty ring, qb_rb_space_free() '
              'reads equal indices with a positive count as "full" and every later write is refused')
    ctx.check('R9', 'reclaim-does-not-block', nb, inner[0], 'the count is taken with a zero timeout', 'qb_rb_chunk_reclaim can block waiting for a count')
    # the shared internal reclaim takes no count
    ir = prog.fn('_rb_chunk_reclaim')
    ctx.check('R9', 'internal-reclaim-takes-no-count', not waits(ir) and not wait_in_cond(ir), ir, '_rb_chunk_reclaim does not touch the wait side of the notifier',
              '_rb_chunk_reclaim takes a count itself: qb_rb_chunk_read, which has waited already, would use two')
    # read: one wait, and no post on the path on which the chunk was taken
    rd = prog.fn('qb_rb_chunk_read')
    wr = waits(rd)
    ir2 = list(rd.calls('_rb_chunk_reclaim'))
    ok = len(wr) == 1 and len(ir2) == 1
    if ok:
        # the chunk is taken only behind the wait - or on a ring without a notifier
        h0, _e0, _n0 = rd.search(('entry',), goal=lambda x: x is ir2[0], stop=lambda x: x is wr[0],
                                 edge_filter=lambda fb, t, lab: not (fb.cond is not None and lab in (True, False) and any(
                                     last_field(a.l) == ('qb_rb_notifier', 'timedwait_fn') and a.op == '==' and a.rc == 0 for a in atoms_of(fb.cond, lab))))
        ok = not h0
    if ok:
        hits, _e, _n = rd.search(('after', ir2[0]), goal=lambda x: x.kind == 'CALL' and x.callee == POST)
        ok = not hits
    ctx.check('R9', 'read-takes-one-count', ok, ir2[0] if ir2 else rd, 'qb_rb_chunk_read waits once and keeps that count for the chunk it takes',
              'qb_rb_chunk_read does not pair one count with the chunk it takes')


def r10(ctx):
    prog = ctx.prog
    U32 = 2 ** 32 - 1
    for f in [g for g in prog.all_fns(files={'lib/ringbuffer.c'}) if any(last_field(st.lhs) == ('qb_ringbuffer_shared_s', 'word_size') for st in g.events('STORE'))]:
        ws = [st for st in f.events('STORE') if last_field(st.lhs) == ('qb_ringbuffer_shared_s', 'word_size')]
        # only the function that computes it from a requested size (create_from_file installs what R1 of C15 has checked)
        szp = [pp['n'] for pp in f.params if (pp.get('ty') or '').replace('const ', '') in ('size_t', 'unsigned long')]
        if not szp:
            continue
        for st in ws:
            srcv = [n['n'] for n in walk(st.rhs) if n.get('k') == 'var' and n.get('sc') != 'g']
            if not srcv:
                raise AnalysisBroken('%s: word_size is not computed from a local size' % f.name)
            rv = srcv[0]

            def small(a, fb, rv=rv):
                return a.ls == rv and a.rc is not None and ((a.op == '<=' and a.rc <= U32) or (a.op == '<' and a.rc <= U32 + 1))
            path = f.uncut_path(st, small)
            ctx.check('R10', '%s:rounded-size-fits-32-bits' % f.name, path is None, st,
                      'word_size is computed only from a rounded size known to be below 2^32',
                      'word_size (32 bits) is computed from %s whatever its value: from 16 GiB on the ring is silently smaller than asked for (or has no words at all), from 4 GiB on chunk lengths and index steps wrap' % rv,
                      {'path': f.path_lines(path) if path else None})
        # the margin is added to the requested size only when that cannot wrap
        adds = [st for st in f.events('STORE') if estr(st.lhs) in szp and st.d['op'] == '+=']
        for ad in adds:
            pn = estr(ad.lhs)

            def bounded(a, fb, pn=pn):
                return a.ls == pn and a.rc is not None and a.op in ('<=', '<') and a.rc <= U32
            path = f.uncut_path(ad, bounded)
            ctx.check('R10', '%s:requested-size-bounded-before-margin' % f.name, path is None, ad,
                      'the margin is added to a requested size known to be below 2^32',
                      'the margin is added to the requested size %s whatever its value: a size near SIZE_MAX wraps and a one-page ring is handed out for it' % pn,
                      {'path': f.path_lines(path) if path else None})
