/*
 * triage19 replay: an *accepted* IPC client that announces a tiny max_msg_size
 * in the connection handshake and then sends one ordinary request.
 *
 *   replay <sock|shm> <max_msg_size> [notify]
 *
 * The server (forked child) uses only the public API:
 *   qb_ipcs_create(name, 4, QB_IPC_SOCKET|QB_IPC_SHM, handlers) + qb_loop,
 *   connection_accept returns 0, msg_process answers with a response header.
 * qb_ipcs_enforce_buffer_size() is NOT called (the default), so
 * s->max_buffer_size == 0.
 *
 * The client is RAW: it speaks the handshake by hand on the unix stream
 * socket, so the stock client's QB_MAX(max_msg_size, sizeof(struct
 * qb_ipc_connection_response)) clamp in qb_ipcc_connect() never happens.
 *
 *   sock: bind/connect the datagram sockets named in the response and send one
 *         16 byte struct qb_ipc_request_header {id=5,size=16}.
 *   shm : open the request ring buffer named in the response, write the same
 *         header as one chunk and poke the setup socket with one byte.
 *   shm <n> notify: as shm, but msg_process() additionally sends a burst of
 *         1-byte events while the client drains the event ring without ever
 *         reading the setup socket (see VERDICT.md, "adjacent observation").
 */
#include "os_base.h"
#include <sys/wait.h>
#include <poll.h>
#include <sys/un.h>
#include <qb/qbdefs.h>
#include <qb/qblist.h>
#include <qb/qbloop.h>
#include <qb/qblog.h>
#include <qb/qbrb.h>
#include <qb/qbipcs.h>
#include <qb/qbipcc.h>
#include "util_int.h"
#include "ipc_int.h"

static qb_loop_t *L;
static qb_ipcs_service_t *S;
static int notify_burst;

/* ------------------------------------------------------------------ server */
static int32_t acc(qb_ipcs_connection_t *c, uid_t u, gid_t g)
{
	fprintf(stderr, "[server] connection_accept -> 0 (accepted)\n");
	return 0;
}
static void created(qb_ipcs_connection_t *c)
{
	fprintf(stderr, "[server] connection_created, negotiated buffer size = %d\n",
		qb_ipcs_connection_get_buffer_size(c));
}
static int32_t closed(qb_ipcs_connection_t *c) { return 0; }
static void destroyed(qb_ipcs_connection_t *c) { fprintf(stderr, "[server] connection_destroyed\n"); }
static void stopjob(void *d) { qb_loop_stop(L); }

static int32_t msgp(qb_ipcs_connection_t *c, void *data, size_t size)
{
	struct qb_ipc_request_header *h = data;
	struct qb_ipc_response_header r = { .id = h->id, .size = sizeof r, .error = 0 };
	ssize_t rc;

	fprintf(stderr, "[server] msg_process id=%d hdr.size=%d size-arg=%zu\n",
		h->id, h->size, size);
	rc = qb_ipcs_response_send(c, &r, sizeof r);
	fprintf(stderr, "[server] qb_ipcs_response_send -> %zd\n", rc);
	if (notify_burst) {
		int i, ok = 0, again = 0, other = 0;
		for (i = 0; i < 200000; i++) {
			rc = qb_ipcs_event_send(c, "x", 1);
			if (rc == 1) ok++; else if (rc == -EAGAIN) again++; else other++;
		}
		fprintf(stderr, "[server] event burst: ok=%d eagain=%d other=%d outstanding_notifiers=%d\n",
			ok, again, other, c->outstanding_notifiers);
	}
	return 0;
}
static int32_t jadd(enum qb_loop_priority p, void *d, qb_loop_job_dispatch_fn f)
{ return qb_loop_job_add(L, p, d, f); }
static int32_t dadd(enum qb_loop_priority p, int32_t fd, int32_t ev, void *d, qb_ipcs_dispatch_fn_t f)
{ return qb_loop_poll_add(L, p, fd, ev, d, f); }
static int32_t dmod(enum qb_loop_priority p, int32_t fd, int32_t ev, void *d, qb_ipcs_dispatch_fn_t f)
{ return qb_loop_poll_mod(L, p, fd, ev, d, f); }
static int32_t ddel(int32_t fd) { return qb_loop_poll_del(L, fd); }

static void server(const char *name, enum qb_ipc_type type)
{
	struct qb_ipcs_service_handlers sh = {
		.connection_accept = acc, .connection_created = created,
		.msg_process = msgp, .connection_closed = closed,
		.connection_destroyed = destroyed };
	struct qb_ipcs_poll_handlers ph = {
		.job_add = jadd, .dispatch_add = dadd, .dispatch_mod = dmod, .dispatch_del = ddel };
	qb_loop_timer_handle th;

	L = qb_loop_create();
	S = qb_ipcs_create(name, 4, type, &sh);
	qb_ipcs_poll_handlers_set(S, &ph);
	if (qb_ipcs_run(S) != 0) { perror("[server] qb_ipcs_run"); _exit(3); }
	qb_loop_timer_add(L, QB_LOOP_LOW, (notify_burst ? 10000ULL : 1500ULL) * QB_TIME_NS_IN_MSEC, NULL, stopjob, &th);
	qb_loop_run(L);
	fprintf(stderr, "[server] loop done, server alive and well\n");
	qb_ipcs_destroy(S);
	_exit(0);
}

/* -------------------------------------------------------------- raw client */
static void un_addr(struct sockaddr_un *a, const char *name, int abstract)
{
	memset(a, 0, sizeof *a);
	a->sun_family = AF_UNIX;
	if (abstract) snprintf(a->sun_path + 1, UNIX_PATH_MAX - 1, "%s", name);
	else snprintf(a->sun_path, sizeof a->sun_path, "%s/%s", SOCKETDIR, name);
}

static int raw_handshake(const char *name, uint32_t max_msg_size,
			 struct qb_ipc_connection_response *r)
{
	struct sockaddr_un a;
	struct qb_ipc_connection_request req;
	int on = 1, fd = socket(PF_UNIX, SOCK_STREAM, 0);
	ssize_t n;

	un_addr(&a, name, !use_filesystem_sockets());
	if (connect(fd, (struct sockaddr *)&a, QB_SUN_LEN(&a)) == -1) { perror("[client] connect"); return -1; }
	setsockopt(fd, SOL_SOCKET, SO_PASSCRED, &on, sizeof on);

	memset(&req, 0, sizeof req);
	req.hdr.id = QB_IPC_MSG_AUTHENTICATE;
	req.hdr.size = sizeof req;
	req.max_msg_size = max_msg_size;	/* <-- the only lie: stock client sends >= sizeof(*r) */
	n = send(fd, &req, sizeof req, MSG_NOSIGNAL);
	fprintf(stderr, "[client] handshake sent (%zd bytes) max_msg_size=%u\n", n, max_msg_size);

	n = recv(fd, r, sizeof *r, MSG_WAITALL);
	if (n != (ssize_t)sizeof *r) { fprintf(stderr, "[client] short handshake response: %zd (errno %d)\n", n, errno); return -1; }
	fprintf(stderr, "[client] handshake response: error=%d type=%d max_msg_size=%u\n",
		r->hdr.error, r->connection_type, r->max_msg_size);
	if (r->hdr.error != 0) {
		fprintf(stderr, "[client] => connection REJECTED by server (%s)\n", strerror(-r->hdr.error));
		return -1;
	}
	fprintf(stderr, "[client] => connection ACCEPTED; request='%s' response='%s'\n", r->request, r->response);
	return fd;
}

static int dgram_pair(const char *base, const char *local, const char *remote)
{
	char p[PATH_MAX];
	struct sockaddr_un a;
	int fd = socket(PF_UNIX, SOCK_DGRAM, 0);

	snprintf(p, sizeof p, "%s-%s", base, local);
	un_addr(&a, p, 1);	/* names starting with '/' are always abstract */
	if (bind(fd, (struct sockaddr *)&a, sizeof a) < 0) perror("[client] bind dgram");
	snprintf(p, sizeof p, "%s-%s", base, remote);
	un_addr(&a, p, 1);
	if (connect(fd, (struct sockaddr *)&a, QB_SUN_LEN(&a)) < 0) perror("[client] connect dgram");
	return fd;
}

int main(int argc, char **argv)
{
	enum qb_ipc_type type;
	uint32_t mms;
	char name[64];
	pid_t pid;
	int st, fd, i;
	struct qb_ipc_connection_response r;
	struct qb_ipc_request_header h = { .id = 5, .size = sizeof h };
	struct { struct qb_ipc_response_header h; char pad[64]; } resp;
	ssize_t n;

	if (argc < 3) { fprintf(stderr, "usage: %s sock|shm <max_msg_size> [notify]\n", argv[0]); return 2; }
	type = !strcmp(argv[1], "shm") ? QB_IPC_SHM : QB_IPC_SOCKET;
	mms = strtoul(argv[2], NULL, 0);
	notify_burst = argc > 3 && !strcmp(argv[3], "notify");
	snprintf(name, sizeof name, "t19-%d", getpid());

	fprintf(stderr, "=== transport=%s handshake max_msg_size=%u%s (sizeof request hdr=%zu, sizeof connection_response=%zu)\n",
		argv[1], mms, notify_burst ? " +event burst" : "",
		sizeof(struct qb_ipc_request_header), sizeof(struct qb_ipc_connection_response));

	pid = fork();
	if (pid == 0) server(name, type);
	usleep(300000);

	fd = raw_handshake(name, mms, &r);
	if (fd >= 0 && type == QB_IPC_SOCKET) {
		int rq = dgram_pair(r.response, "response", "request");
		n = send(rq, &h, sizeof h, MSG_NOSIGNAL);
		fprintf(stderr, "[client] sent one request datagram {id=5,size=%zu}: %zd\n", sizeof h, n);
		{ struct pollfd pf = { .fd = rq, .events = POLLIN }; poll(&pf, 1, 1000); }
		n = recv(rq, &resp, sizeof resp, MSG_DONTWAIT);
		fprintf(stderr, "[client] response datagram: %zd bytes%s\n", n, n > 0 ? "" : " (none)");
	} else if (fd >= 0) {
		qb_ringbuffer_t *rq = qb_rb_open(r.request, r.max_msg_size, QB_RB_FLAG_SHARED_PROCESS, sizeof(int32_t));
		qb_ringbuffer_t *rs = qb_rb_open(r.response, r.max_msg_size, QB_RB_FLAG_SHARED_PROCESS, 0);
		qb_ringbuffer_t *ev = qb_rb_open(r.event, r.max_msg_size, QB_RB_FLAG_SHARED_PROCESS, 0);
		if (!rq || !rs || !ev) { perror("[client] qb_rb_open"); goto out; }
		n = qb_rb_chunk_write(rq, &h, sizeof h);
		fprintf(stderr, "[client] wrote one request chunk {id=5,size=%zu} into the request ring: %zd\n", sizeof h, n);
		send(fd, "x", 1, MSG_NOSIGNAL);	/* poke the server's poll loop */
		if (notify_burst) {
			/* phase 1: drain the event ring, never read the setup socket,
			 * until the server's burst is over (ring stays empty 300ms) */
			char b[64], sink[4096]; long got = 0, bytes = 0; int idle = 0;
			while (idle < 300) {
				long before = got;
				while (qb_rb_chunk_read(ev, b, sizeof b, 0) > 0) got++;
				idle = (got == before && got > 0) ? idle + 1 : 0;
				usleep(1000);
			}
			fprintf(stderr, "[client] drained %ld events from the event ring without reading the setup socket\n", got);
			/* phase 2: now read the notifier bytes: the server gets POLLOUT
			 * and flushes its outstanding notifiers out of receive_buf */
			for (i = 0; i < 1000; i++) {
				while ((n = recv(fd, sink, sizeof sink, MSG_DONTWAIT)) > 0) bytes += n;
				usleep(1000);
			}
			fprintf(stderr, "[client] then read %ld notifier bytes from the setup socket\n", bytes);
		} else {
			usleep(500000);
		}
		n = qb_rb_chunk_read(rs, &resp, sizeof resp, 0);
		fprintf(stderr, "[client] response chunk: %zd bytes%s\n", n, n > 0 ? "" : " (none)");
	}
out:
	/* the server stops by itself (timer) when it is healthy */
	waitpid(pid, &st, 0);
	if (WIFSIGNALED(st))
		fprintf(stderr, "RESULT: server killed by signal %d\n", WTERMSIG(st));
	else
		fprintf(stderr, "RESULT: server exited with status %d%s\n", WEXITSTATUS(st),
			WEXITSTATUS(st) ? " (sanitizer abort)" : " (survived, clean shutdown)");
	return 0;
}
