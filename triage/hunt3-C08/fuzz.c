/*
 * Model based randomized tester for the libqb main loop (property C08).
 *
 * usage: fuzz <seed> <episodes> [maxfds] [cbops] [verbose]
 */
#define _GNU_SOURCE
#include <stdio.h>
#include <stdlib.h>
#include <string.h>
#include <stdint.h>
#include <stdarg.h>
#include <unistd.h>
#include <errno.h>
#include <fcntl.h>
#include <poll.h>
#include <signal.h>
#include <qb/qbdefs.h>
#include <qb/qbutil.h>
#include <qb/qbloop.h>

/* ---------- own prng (the library uses random()) ---------- */
static uint64_t rng_s;
static uint32_t rnd(void)
{
	rng_s ^= rng_s << 13;
	rng_s ^= rng_s >> 7;
	rng_s ^= rng_s << 17;
	return (uint32_t)(rng_s >> 11);
}
static uint32_t rn(uint32_t n) { return n ? rnd() % n : 0; }

/* ---------- op log ---------- */
#define LOGN 400
static char oplog[LOGN][160];
static unsigned long oplog_n;
static int verbose;
static unsigned long seed_g, episode_g;
static unsigned long total_ops, total_cbs;

static void lg(const char *fmt, ...)
{
	va_list ap;
	va_start(ap, fmt);
	vsnprintf(oplog[oplog_n % LOGN], sizeof(oplog[0]), fmt, ap);
	va_end(ap);
	if (verbose)
		fprintf(stderr, "  %s\n", oplog[oplog_n % LOGN]);
	oplog_n++;
}

static void fail(const char *fmt, ...)
{
	va_list ap;
	unsigned long i, from = oplog_n > LOGN ? oplog_n - LOGN : 0;
	fprintf(stderr, "---- op log (last %lu) ----\n", oplog_n - from);
	for (i = from; i < oplog_n; i++)
		fprintf(stderr, "%6lu %s\n", i, oplog[i % LOGN]);
	fprintf(stderr, "VIOLATION seed=%lu episode=%lu: ", seed_g, episode_g);
	va_start(ap, fmt);
	vfprintf(stderr, fmt, ap);
	va_end(ap);
	fprintf(stderr, "\n");
	exit(3);
}

/* ---------- model ---------- */
enum { ST_NONE, ST_PENDING, ST_DONE, ST_DELETED };

struct job { int id, prio, state; uint64_t seq; };
struct tmr { int id, prio, state, is_long, is_stopper, is_checker; uint64_t dur, added; qb_loop_timer_handle h; };
struct fdr { int id, rfd, wfd, regfd, registered, events, prio, pending, is_out, closed; };
struct sgr { int id, signo, prio, state, fuzzy; long lo, hi, calls; qb_loop_signal_handle h; };

#define MAXREC 200000
static struct job *jobs[MAXREC]; static int njobs;
static struct tmr *tmrs[MAXREC]; static int ntmrs;
static struct fdr *fdrs[MAXREC]; static int nfdrs;
static struct sgr *sgrs[MAXREC]; static int nsgrs;
#define MAXFDNUM 4096
static struct fdr *reg[MAXFDNUM];
static int live_fds, live_out;
static uint64_t jobseq;
static uint64_t last_seq[3];
static long inflight[70];

static qb_loop_t *l;
static int in_run, stopping, draining, in_cb;
static int p_maxfds = 20, p_cbops = 2;
static long ops_left;
static int SIGS[3];

static void random_ops(int n);

static void cb_enter(const char *what, int id)
{
	total_cbs++;
	if (!in_run)
		fail("%s %d callback outside qb_loop_run", what, id);
	if (stopping)
		fail("%s %d callback after qb_loop_stop() was called from a callback", what, id);
	if (in_cb)
		fail("%s %d nested callback", what, id);
	in_cb = 1;
}
static void cb_leave(void) { in_cb = 0; }

static void maybe_stop(void)
{
	if (!draining && rn(40) == 0) {
		lg("stop");
		qb_loop_stop(l);
		stopping = 1;
	}
}

/* ---- jobs ---- */
static void job_cb(void *data)
{
	struct job *j = data;
	cb_enter("job", j->id);
	lg("cb job %d p%d", j->id, j->prio);
	if (j->state != ST_PENDING)
		fail("job %d ran in state %d (2=already ran, 3=deleted)", j->id, j->state);
	if (j->seq <= last_seq[j->prio])
		fail("job %d (seq %lu) ran after seq %lu of same priority", j->id,
		     (unsigned long)j->seq, (unsigned long)last_seq[j->prio]);
	last_seq[j->prio] = j->seq;
	j->state = ST_DONE;
	if (!draining) {
		random_ops(rn(p_cbops + 1));
		maybe_stop();
	}
	cb_leave();
}

static void op_job_add(void)
{
	struct job *j;
	int rc;
	if (njobs >= MAXREC) return;
	j = calloc(1, sizeof(*j));
	j->id = njobs; j->prio = rn(3); j->seq = ++jobseq;
	jobs[njobs++] = j;
	lg("job_add %d p%d", j->id, j->prio);
	rc = qb_loop_job_add(l, j->prio, j, job_cb);
	if (rc != 0) fail("job_add rc %d", rc);
	j->state = ST_PENDING;
}

static void op_job_del(void)
{
	struct job *j;
	int rc, wrongp;
	if (njobs == 0) return;
	/* prefer recent */
	j = jobs[njobs - 1 - rn(njobs < 12 ? njobs : 12)];
	wrongp = rn(8) == 0;
	if (wrongp) {
		int p = (j->prio + 1 + rn(2)) % 3;
		lg("job_del %d wrong p%d", j->id, p);
		rc = qb_loop_job_del(l, p, j, job_cb);
		if (rc != -ENOENT) fail("job_del wrong prio rc %d", rc);
		return;
	}
	lg("job_del %d p%d state %d", j->id, j->prio, j->state);
	rc = qb_loop_job_del(l, j->prio, j, job_cb);
	if (j->state == ST_PENDING) {
		if (rc != 0) fail("job_del %d pending rc %d", j->id, rc);
		j->state = ST_DELETED;
	} else if (rc != -ENOENT) {
		fail("job_del %d state %d rc %d (want -ENOENT)", j->id, j->state, rc);
	}
}

/* ---- jobs that share (priority, fn, data): only counted ---- */
static struct { int prio; long pending; } dupj[3];
static void dup_cb(void *data)
{
	int k = (int)(intptr_t)data - 1;
	cb_enter("dupjob", k);
	lg("cb dupjob %d pending %ld", k, dupj[k].pending);
	if (dupj[k].pending <= 0)
		fail("dup job %d ran with none pending", k);
	dupj[k].pending--;
	if (!draining) {
		random_ops(rn(p_cbops + 1));
		maybe_stop();
	}
	cb_leave();
}
static void op_dup_add(void)
{
	int k = rn(3), rc;
	lg("dupjob_add %d p%d", k, dupj[k].prio);
	rc = qb_loop_job_add(l, dupj[k].prio, (void *)(intptr_t)(k + 1), dup_cb);
	if (rc != 0) fail("dupjob_add rc %d", rc);
	dupj[k].pending++;
}
static void op_dup_del(void)
{
	int k = rn(3), rc;
	lg("dupjob_del %d p%d pending %ld", k, dupj[k].prio, dupj[k].pending);
	rc = qb_loop_job_del(l, dupj[k].prio, (void *)(intptr_t)(k + 1), dup_cb);
	if (dupj[k].pending > 0) {
		if (rc != 0) fail("dupjob_del rc %d with %ld pending", rc, dupj[k].pending);
		dupj[k].pending--;
	} else if (rc != -ENOENT) {
		fail("dupjob_del rc %d with none pending", rc);
	}
}

/* ---- timers ---- */
static void tmr_cb(void *data)
{
	struct tmr *t = data;
	uint64_t now = qb_util_nano_current_get();
	cb_enter("timer", t->id);
	lg("cb timer %d p%d", t->id, t->prio);
	if (t->state != ST_PENDING)
		fail("timer %d fired in state %d (2=already fired, 3=deleted)", t->id, t->state);
	if (now < t->added + t->dur && t->dur < (1ULL << 62))
		fail("timer %d fired early", t->id);
	if (t->is_long)
		fail("long timer %d fired", t->id);
	t->state = ST_DONE;
	if (t->is_stopper) {
		lg("stopper stop");
		qb_loop_stop(l);
		stopping = 1;
	} else if (!draining) {
		random_ops(rn(p_cbops + 1));
		maybe_stop();
	}
	cb_leave();
}

static struct tmr *tmr_new(uint64_t dur)
{
	struct tmr *t;
	int rc;
	if (ntmrs >= MAXREC) return NULL;
	t = calloc(1, sizeof(*t));
	t->id = ntmrs; t->prio = rn(3); t->dur = dur;
	t->is_long = dur >= 1000ULL * QB_TIME_NS_IN_SEC;
	tmrs[ntmrs++] = t;
	t->added = qb_util_nano_current_get();
	rc = qb_loop_timer_add(l, t->prio, dur, t, tmr_cb, &t->h);
	lg("timer_add %d p%d dur %lu -> h %lx", t->id, t->prio, (unsigned long)dur, (unsigned long)t->h);
	if (rc != 0) fail("timer_add rc %d", rc);
	t->state = ST_PENDING;
	return t;
}

static void op_timer_add(void)
{
	uint64_t dur;
	switch (rn(10)) {
	case 0: dur = 0; break;
	case 1: dur = 1; break;
	case 2: dur = 3600ULL * QB_TIME_NS_IN_SEC; break;
	case 3: dur = UINT64_MAX - rn(3); break;
	case 4: dur = rn(3000000); break;
	default: dur = rn(400000); break;
	}
	tmr_new(dur);
}

static void tmr_del(struct tmr *t)
{
	int rc;
	lg("timer_del %d h %lx state %d", t->id, (unsigned long)t->h, t->state);
	rc = qb_loop_timer_del(l, t->h);
	if (t->state == ST_PENDING) {
		if (rc != 0) fail("timer_del %d active rc %d", t->id, rc);
		t->state = ST_DELETED;
	} else if (rc == 0) {
		fail("timer_del %d stale handle (state %d) accepted", t->id, t->state);
	}
}

static void op_timer_del(void)
{
	struct tmr *t;
	if (ntmrs == 0) return;
	if (rn(4) == 0)
		t = tmrs[rn(ntmrs)];
	else
		t = tmrs[ntmrs - 1 - rn(ntmrs < 10 ? ntmrs : 10)];
	if (t->is_stopper && t->state == ST_PENDING && in_run) return;
	if (t->is_checker && t->state == ST_PENDING) return;
	tmr_del(t);
}

/* ---- descriptors ---- */
static int32_t fd_cb(int32_t fd, int32_t revents, void *data);

static struct fdr *fdr_new(int want_out)
{
	struct fdr *f;
	int p[2], rc;
	if (nfdrs >= MAXREC) return NULL;
	if (pipe2(p, O_NONBLOCK | O_CLOEXEC) != 0) return NULL;
	if (p[0] >= MAXFDNUM || p[1] >= MAXFDNUM) { close(p[0]); close(p[1]); return NULL; }
	f = calloc(1, sizeof(*f));
	f->id = nfdrs; f->rfd = p[0]; f->wfd = p[1];
	f->is_out = want_out;
	f->regfd = want_out ? p[1] : p[0];
	f->events = want_out ? POLLOUT : POLLIN;
	f->prio = rn(3);
	fdrs[nfdrs++] = f;
	live_fds++;
	if (want_out) live_out++;
	if (reg[f->regfd])
		fail("model: fd %d still registered by rec %d", f->regfd, reg[f->regfd]->id);
	rc = qb_loop_poll_add(l, f->prio, f->regfd, f->events, f, fd_cb);
	lg("poll_add rec %d fd %d ev %x p%d", f->id, f->regfd, f->events, f->prio);
	if (rc != 0) fail("poll_add fd %d rc %d", f->regfd, rc);
	f->registered = 1;
	reg[f->regfd] = f;
	return f;
}

static void fdr_close(struct fdr *f)
{
	if (f->closed) return;
	lg("close rec %d fds %d,%d", f->id, f->rfd, f->wfd);
	close(f->rfd); close(f->wfd);
	f->closed = 1;
	live_fds--;
	if (f->is_out) live_out--;
}

static void fdr_unreg_model(struct fdr *f)
{
	f->registered = 0;
	if (reg[f->regfd] == f) reg[f->regfd] = NULL;
}

static void fdr_del(struct fdr *f)
{
	int rc;
	lg("poll_del rec %d fd %d registered %d", f->id, f->regfd, f->registered);
	if (f->closed && reg[f->regfd] != NULL && reg[f->regfd] != f)
		return; /* number belongs to somebody else now */
	rc = qb_loop_poll_del(l, f->regfd);
	if (f->registered) {
		if (rc != 0) fail("poll_del fd %d registered rc %d", f->regfd, rc);
		fdr_unreg_model(f);
	} else if (reg[f->regfd] == NULL) {
		if (rc != -EBADF && rc != 0) fail("poll_del fd %d unregistered rc %d", f->regfd, rc);
	}
}

static int32_t fd_cb(int32_t fd, int32_t revents, void *data)
{
	struct fdr *f = data;
	int32_t ret = 0;
	char c;
	cb_enter("fd", f->id);
	lg("cb fd rec %d fd %d rev %x pending %d", f->id, fd, revents, f->pending);
	if (!f->registered)
		fail("fd rec %d (fd %d) callback while not registered", f->id, fd);
	if (fd != f->regfd || reg[fd] != f)
		fail("fd rec %d callback with fd %d (registered %d)", f->id, fd, f->regfd);
	if (f->closed)
		fail("fd rec %d callback after close", f->id);
	if (!f->is_out) {
		if (f->pending == 0 && (revents & POLLIN))
			fail("fd rec %d POLLIN with nothing to read", f->id);
		if (f->pending > 0 && (f->events & POLLIN) && !(revents & POLLIN))
			fail("fd rec %d no POLLIN rev %x though %d pending", f->id, revents, f->pending);
		if (f->pending > 0) {
			int n = draining ? f->pending : 1 + (int)rn(f->pending);
			while (n-- > 0) {
				if (read(f->rfd, &c, 1) != 1) fail("read failed rec %d errno %d", f->id, errno);
				f->pending--;
			}
		}
	}
	if (draining) {
		if (f->is_out) { ret = -1; fdr_unreg_model(f); }
		cb_leave();
		return ret;
	}
	random_ops(rn(p_cbops + 1));
	if (f->registered && !f->closed) {
		switch (rn(16)) {
		case 0: /* just leave */
			lg("  ret -1 rec %d", f->id);
			ret = -1; fdr_unreg_model(f);
			break;
		case 1: /* close and leave */
			lg("  close+ret -1 rec %d", f->id);
			fdr_close(f);
			ret = -1; fdr_unreg_model(f);
			break;
		case 2: /* close, number reused by a new registration */
			lg("  close+reuse rec %d", f->id);
			fdr_close(f);
			fdr_unreg_model(f);
			{
				struct fdr *nf = fdr_new(rn(6) == 0 && live_out < 2);
				ret = rn(2) ? -1 : 0;
				/* "0" is only legitimate when the number was taken over */
				if (nf == NULL || nf->regfd != f->regfd) ret = -1;
			}
			lg("  ret %d", ret);
			break;
		case 3: /* del self, keep open, maybe re-add */
			fdr_del(f);
			if (rn(2)) {
				int rc = qb_loop_poll_add(l, f->prio, f->regfd, f->events, f, fd_cb);
				lg("  re-add rec %d fd %d", f->id, f->regfd);
				if (rc != 0) fail("re-add rc %d", rc);
				f->registered = 1; reg[f->regfd] = f;
			}
			ret = rn(3) ? 0 : -1;
			if (ret < 0 && f->registered && 0) fdr_unreg_model(f);
			/* a negative return after del+re-add: the old entry is gone, the new stays */
			lg("  ret %d", ret);
			break;
		case 4: /* del, close, reuse */
			fdr_del(f);
			fdr_close(f);
			fdr_new(0);
			ret = rn(2) ? -1 : 0;
			lg("  ret %d", ret);
			break;
		default:
			break;
		}
	} else if (f->closed || !f->registered) {
		ret = rn(2) ? -1 : 0;
		lg("  ret %d (gone)", ret);
	}
	maybe_stop();
	cb_leave();
	return ret;
}

static struct fdr *pick_fd(void)
{
	int i, k;
	if (nfdrs == 0) return NULL;
	for (k = 0; k < 6; k++) {
		i = nfdrs - 1 - rn(nfdrs < 40 ? nfdrs : 40);
		if (!fdrs[i]->closed) return fdrs[i];
	}
	return fdrs[nfdrs - 1 - rn(nfdrs < 40 ? nfdrs : 40)];
}

static void op_fd_add(void)
{
	if (live_fds >= p_maxfds) return;
	fdr_new(rn(8) == 0 && live_out < 2);
}

static void op_fd_write(void)
{
	struct fdr *f = pick_fd();
	if (!f || f->closed || f->is_out || f->pending > 1000) return;
	lg("write rec %d fd %d", f->id, f->wfd);
	if (write(f->wfd, "x", 1) != 1) fail("write failed");
	f->pending++;
}

static void op_fd_del(void)
{
	struct fdr *f = pick_fd();
	if (!f) return;
	if (f->closed && reg[f->regfd] != NULL) return;
	fdr_del(f);
	if (!f->closed && rn(3) == 0) {
		fdr_close(f);
		if (rn(2)) op_fd_add();
	}
}

static void op_fd_readd(void)
{
	struct fdr *f = pick_fd();
	int rc;
	if (!f || f->closed) return;
	if (f->registered) {
		/* adding twice must fail and change nothing */
		rc = qb_loop_poll_add(l, f->prio, f->regfd, f->events, f, fd_cb);
		lg("poll_add dup rec %d fd %d rc %d", f->id, f->regfd, rc);
		if (rc == 0) fail("duplicate poll_add accepted");
		return;
	}
	rc = qb_loop_poll_add(l, f->prio, f->regfd, f->events, f, fd_cb);
	lg("poll_add again rec %d fd %d", f->id, f->regfd);
	if (rc != 0) fail("poll_add again rc %d", rc);
	f->registered = 1; reg[f->regfd] = f;
}

static void op_fd_mod(void)
{
	struct fdr *f = pick_fd();
	int rc, newp;
	if (!f || f->closed) return;
	int newev;
	newp = rn(3);
	newev = f->events;
	if (!f->is_out && rn(3) == 0) {
		switch (rn(3)) { case 0: newev = 0; break; case 1: newev = POLLIN; break; default: newev = POLLIN | POLLPRI; break; }
	}
	lg("poll_mod rec %d fd %d p%d->p%d ev %x->%x reg %d", f->id, f->regfd, f->prio, newp, f->events, newev, f->registered);
	rc = qb_loop_poll_mod(l, newp, f->regfd, newev, f, fd_cb);
	if (f->registered) {
		if (rc != 0) fail("poll_mod registered rc %d", rc);
		f->prio = newp;
		f->events = newev;
	} else if (rc == 0) {
		fail("poll_mod of unregistered fd %d accepted", f->regfd);
	}
}

/* ---- signals ---- */
static int32_t sig_cb(int32_t signo, void *data)
{
	struct sgr *s = data;
	int32_t ret = 0;
	cb_enter("signal", s->id);
	lg("cb sig rec %d signo %d calls %ld lo %ld hi %ld", s->id, signo, s->calls, s->lo, s->hi);
	if (s->state != ST_PENDING)
		fail("signal rec %d callback in state %d (3=deleted)", s->id, s->state);
	if (signo != s->signo && !s->fuzzy)
		fail("signal rec %d got signo %d want %d", s->id, signo, s->signo);
	s->calls++;
	if (s->calls > s->hi)
		fail("signal rec %d called %ld times, at most %ld deliveries", s->id, s->calls, s->hi);
	if (!draining) {
		random_ops(rn(p_cbops + 1));
		if (s->state == ST_PENDING && rn(12) == 0) {
			lg("  sig ret -1 rec %d", s->id);
			ret = -1;
			s->state = ST_DELETED;
		}
		maybe_stop();
	}
	cb_leave();
	return ret;
}

static int live_sigs(int signo)
{
	int i, n = 0;
	for (i = 0; i < nsgrs; i++)
		if (sgrs[i]->state == ST_PENDING && sgrs[i]->signo == signo) n++;
	return n;
}

static void op_sig_add(void)
{
	struct sgr *s;
	int rc, i, live = 0;
	for (i = 0; i < nsgrs; i++) if (sgrs[i]->state == ST_PENDING) live++;
	if (live >= 6 || nsgrs >= MAXREC) return;
	s = calloc(1, sizeof(*s));
	s->id = nsgrs; s->signo = SIGS[rn(3)]; s->prio = rn(3);
	sgrs[nsgrs++] = s;
	rc = qb_loop_signal_add(l, s->prio, s->signo, s, sig_cb, &s->h);
	lg("signal_add rec %d signo %d p%d", s->id, s->signo, s->prio);
	if (rc != 0) fail("signal_add rc %d", rc);
	s->state = ST_PENDING;
	s->hi = inflight[s->signo];
}

static struct sgr *pick_sig(void)
{
	int k, i;
	if (nsgrs == 0) return NULL;
	for (k = 0; k < 8; k++) {
		i = nsgrs - 1 - rn(nsgrs < 12 ? nsgrs : 12);
		if (sgrs[i]->state == ST_PENDING) return sgrs[i];
	}
	return NULL;
}

static void op_sig_del(void)
{
	struct sgr *s = pick_sig();
	int rc;
	if (!s) return;
	lg("signal_del rec %d signo %d", s->id, s->signo);
	rc = qb_loop_signal_del(l, s->h);
	if (rc != 0) fail("signal_del rc %d", rc);
	s->state = ST_DELETED;
}

static void op_sig_mod(void)
{
	struct sgr *s = pick_sig();
	int rc, newp, newsig;
	if (!s) return;
	newp = rn(3);
	newsig = rn(5) == 0 ? SIGS[rn(3)] : s->signo;
	lg("signal_mod rec %d signo %d->%d p%d->p%d", s->id, s->signo, newsig, s->prio, newp);
	rc = qb_loop_signal_mod(l, newp, newsig, s, sig_cb, s->h);
	if (rc != 0) fail("signal_mod rc %d", rc);
	s->prio = newp;
	if (newsig != s->signo) {
		s->fuzzy = 1;
		s->signo = newsig;
		s->hi += inflight[newsig];
	}
}

static void op_sig_raise(void)
{
	int signo = SIGS[rn(3)], i;
	if (live_sigs(signo) == 0) return;
	if (inflight[signo] > 3000) return;
	lg("raise %d", signo);
	inflight[signo]++;
	for (i = 0; i < nsgrs; i++) {
		struct sgr *s = sgrs[i];
		if (s->state != ST_PENDING) continue;
		if (s->signo == signo) { s->lo++; s->hi++; }
		else if (s->fuzzy) { s->hi++; }
	}
	raise(signo);
}

/* ---- op mix ---- */
static void random_ops(int n)
{
	while (n-- > 0 && ops_left > 0) {
		ops_left--;
		total_ops++;
		switch (rn(30)) {
		case 0: case 1: case 2: case 3: op_job_add(); break;
		case 4: case 5: case 6: op_job_del(); break;
		case 7: case 8: case 9: case 10: op_timer_add(); break;
		case 11: case 12: case 13: op_timer_del(); break;
		case 14: case 15: op_fd_add(); break;
		case 16: case 17: case 18: case 19: op_fd_write(); break;
		case 20: op_fd_del(); break;
		case 21: op_fd_mod(); break;
		case 22: op_fd_readd(); break;
		case 23: op_sig_add(); break;
		case 24: op_sig_del(); break;
		case 25: op_sig_mod(); break;
		case 26: case 27: op_sig_raise(); break;
		case 28: op_dup_add(); break;
		case 29: if (rn(2)) op_dup_del(); else op_dup_add(); break;
		default: op_job_add(); break;
		}
	}
}

/* ---- drain ---- */
static struct tmr *checker;
static uint64_t drain_start;
static int settle;

static const char *work_left(void)
{
	static char buf[128];
	int i;
	for (i = 0; i < 3; i++)
		if (dupj[i].pending > 0) { snprintf(buf, sizeof buf, "dup job %d: %ld pending", i, dupj[i].pending); return buf; }
	for (i = 0; i < njobs; i++)
		if (jobs[i]->state == ST_PENDING) { snprintf(buf, sizeof buf, "job %d p%d pending", jobs[i]->id, jobs[i]->prio); return buf; }
	for (i = 0; i < ntmrs; i++)
		if (tmrs[i]->state == ST_PENDING && !tmrs[i]->is_checker && !tmrs[i]->is_long) { snprintf(buf, sizeof buf, "timer %d p%d pending", i, tmrs[i]->prio); return buf; }
	for (i = 0; i < nfdrs; i++)
		if (fdrs[i]->registered && !fdrs[i]->closed && !fdrs[i]->is_out && (fdrs[i]->events & POLLIN) && fdrs[i]->pending > 0) { snprintf(buf, sizeof buf, "fd rec %d fd %d p%d has %d unread", i, fdrs[i]->regfd, fdrs[i]->prio, fdrs[i]->pending); return buf; }
	for (i = 0; i < nfdrs; i++)
		if (fdrs[i]->registered && !fdrs[i]->closed && fdrs[i]->is_out) { snprintf(buf, sizeof buf, "out fd rec %d not called", i); return buf; }
	for (i = 0; i < nsgrs; i++)
		if (sgrs[i]->state == ST_PENDING && !sgrs[i]->fuzzy && sgrs[i]->calls < sgrs[i]->lo) { snprintf(buf, sizeof buf, "signal rec %d signo %d calls %ld < %ld", i, sgrs[i]->signo, sgrs[i]->calls, sgrs[i]->lo); return buf; }
	return NULL;
}

static void checker_cb(void *data)
{
	struct tmr *t = data;
	const char *w;
	int rc;
	total_cbs++;
	if (t->state != ST_PENDING) fail("checker fired in state %d", t->state);
	t->state = ST_DONE;
	w = work_left();
	if (w == NULL) {
		if (++settle >= 4) {
			qb_loop_stop(l);
			stopping = 1;
			return;
		}
	} else if (qb_util_nano_current_get() - drain_start > 15ULL * QB_TIME_NS_IN_SEC) {
		fail("drain: still not done after 15s: %s", w);
	}
	/* re-arm (a timer adding a timer from its callback) */
	t = calloc(1, sizeof(*t));
	t->id = ntmrs; t->is_checker = 1; t->prio = QB_LOOP_LOW; t->dur = 300000;
	tmrs[ntmrs++] = t;
	checker = t;
	rc = qb_loop_timer_add(l, QB_LOOP_LOW, t->dur, t, checker_cb, &t->h);
	if (rc != 0) fail("checker add rc %d", rc);
	t->state = ST_PENDING;
}

static void run_loop(void)
{
	in_run = 1; stopping = 0;
	qb_loop_run(l);
	in_run = 0;
	if (!stopping) fail("qb_loop_run returned without a stop");
	stopping = 0;
}

static void episode(void)
{
	int i, rc;
	struct tmr *t;

	for (i = 0; i < njobs; i++) free(jobs[i]);
	for (i = 0; i < ntmrs; i++) free(tmrs[i]);
	for (i = 0; i < nfdrs; i++) free(fdrs[i]);
	for (i = 0; i < nsgrs; i++) free(sgrs[i]);
	njobs = ntmrs = nfdrs = nsgrs = 0;
	memset(reg, 0, sizeof reg);
	memset(inflight, 0, sizeof inflight);
	memset(last_seq, 0, sizeof last_seq);
	live_fds = live_out = 0; jobseq = 0; draining = 0; settle = 0;
	for (i = 0; i < 3; i++) { dupj[i].prio = rn(3); dupj[i].pending = 0; }

	l = qb_loop_create();
	if (!l) fail("loop create");
	switch (rn(4)) {
	case 0: ops_left = 20 + rn(100); break;
	case 1: ops_left = 200 + rn(1000); break;
	default: ops_left = 1000 + rn(6000); break;
	}
	if (getenv("FUZZ_OPS")) ops_left = atol(getenv("FUZZ_OPS"));
	lg("=== episode %lu ops %ld maxfds %d cbops %d", episode_g, ops_left, p_maxfds, p_cbops);

	if (rn(4)) fdr_new(1); /* an always-ready descriptor keeps the loop turning */
	while (ops_left > 0) {
		random_ops(rn(12));
		/* a stopper so that run comes back */
		t = tmr_new(200000 + rn(2500000));
		if (!t) break;
		t->is_stopper = 1;
		run_loop();
		if (t->state == ST_PENDING && rn(2)) tmr_del(t);
		if (ntmrs > MAXREC - 100 || njobs > MAXREC - 100 || nfdrs > MAXREC - 100) break;
	}

	/* drain: everything that is still registered must get its turn */
	lg("--- drain");
	draining = 1;
	for (i = 0; i < ntmrs; i++)
		if (tmrs[i]->state == ST_PENDING && tmrs[i]->is_long) tmr_del(tmrs[i]);
	drain_start = qb_util_nano_current_get();
	t = calloc(1, sizeof(*t));
	t->id = ntmrs; t->is_checker = 1; t->prio = QB_LOOP_LOW; t->dur = 100000;
	tmrs[ntmrs++] = t;
	rc = qb_loop_timer_add(l, QB_LOOP_LOW, t->dur, t, checker_cb, &t->h);
	if (rc != 0) fail("checker add rc %d", rc);
	t->state = ST_PENDING;
	run_loop();
	for (i = 0; i < nsgrs; i++)
		if (sgrs[i]->state == ST_PENDING && sgrs[i]->calls > sgrs[i]->hi)
			fail("signal rec %d too many calls", i);
	/* stale handles after everything: all must be refused */
	for (i = 0; i < ntmrs && i < 300; i++) {
		struct tmr *x = tmrs[rn(ntmrs)];
		if (x->state != ST_PENDING && qb_loop_timer_del(l, x->h) == 0)
			fail("stale timer handle %d accepted at the end", x->id);
	}
	for (i = 0; i < nsgrs; i++)
		if (sgrs[i]->state == ST_PENDING) { qb_loop_signal_del(l, sgrs[i]->h); sgrs[i]->state = ST_DELETED; }
	for (i = 0; i < nfdrs; i++) {
		if (fdrs[i]->registered) { qb_loop_poll_del(l, fdrs[i]->regfd); fdrs[i]->registered = 0; }
		fdr_close(fdrs[i]);
	}
	qb_loop_destroy(l);
	l = NULL;
}

static void on_alarm(int s)
{
	static const char m[] = "WATCHDOG: hang\n";
	(void)s;
	if (write(2, m, sizeof m - 1)) {}
	fail("watchdog: no progress for 60s (hang)");
}

int main(int argc, char **argv)
{
	unsigned long episodes;
	seed_g = argc > 1 ? strtoul(argv[1], NULL, 0) : 1;
	episodes = argc > 2 ? strtoul(argv[2], NULL, 0) : 10;
	if (argc > 3) p_maxfds = atoi(argv[3]);
	if (argc > 4) p_cbops = atoi(argv[4]);
	if (argc > 5) verbose = atoi(argv[5]);
	rng_s = seed_g * 0x9E3779B97F4A7C15ULL + 12345;
	SIGS[0] = SIGUSR1; SIGS[1] = SIGUSR2; SIGS[2] = SIGRTMIN + 3;
	signal(SIGALRM, on_alarm);
	for (episode_g = 0; episode_g < episodes; episode_g++) {
		alarm(60);
		episode();
	}
	printf("seed %lu ok: %lu episodes, %lu ops, %lu callbacks\n", seed_g, episodes, total_ops, total_cbs);
	return 0;
}
