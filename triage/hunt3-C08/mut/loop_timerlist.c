/*
 * Copyright (C) 2010 Red Hat, Inc.
 *
 * Author: Angus Salkeld <asalkeld@redhat.com>
 *
 * This file is part of libqb.
 *
 * libqb is free software: you can redistribute it and/or modify
 * it under the terms of the GNU Lesser General Public License as published by
 * the Free Software Foundation, either version 2.1 of the License, or
 * (at your option) any later version.
 *
 * libqb is distributed in the hope that it will be useful,
 * but WITHOUT ANY WARRANTY; without even the implied warranty of
 * MERCHANTABILITY or FITNESS FOR A PARTICULAR PURPOSE.  See the
 * GNU Lesser General Public License for more details.
 *
 * You should have received a copy of the GNU Lesser General Public License
 * along with libqb.  If not, see <http://www.gnu.org/licenses/>.
 */
#include "os_base.h"
#include <pthread.h>

#include <qb/qbdefs.h>
#include <qb/qblist.h>
#include <qb/qbarray.h>
#include <qb/qbloop.h>
#include "loop_int.h"
#include "util_int.h"
#include "tlist.h"

struct qb_loop_timer {
	struct qb_loop_item item;
	qb_loop_timer_dispatch_fn dispatch_fn;
	enum qb_loop_priority p;
	timer_handle timerlist_handle;
	enum qb_poll_entry_state state;
	int32_t check;
	uint32_t install_pos;
};

struct qb_timer_source {
	struct qb_loop_source s;
	struct timerlist timerlist;
	qb_array_t *timers;
	size_t timer_entry_count;
	pthread_mutex_t lock;
};

static void
timer_dispatch(struct qb_loop_item *item, enum qb_loop_priority p)
{
	struct qb_loop_timer *timer = (struct qb_loop_timer *)item;

	assert(timer->state == QB_POLL_ENTRY_JOBLIST);
	timer->check = 0;
	timer->dispatch_fn(timer->item.user_data);
	timer->state = QB_POLL_ENTRY_EMPTY;
}

static int32_t expired_timers;
static void
make_job_from_tmo(void *data)
{
	struct qb_loop_timer *t = (struct qb_loop_timer *)data;
	struct qb_loop *l = t->item.source->l;

	assert(t->state == QB_POLL_ENTRY_ACTIVE);
	qb_loop_level_item_add(&l->level[t->p], &t->item);
	t->state = QB_POLL_ENTRY_JOBLIST;
	expired_timers++;
}

static int32_t
expire_the_timers(struct qb_loop_source *s, int32_t ms_timeout)
{
	struct qb_timer_source *ts = (struct qb_timer_source *)s;
	expired_timers = 0;
	if (timerlist_expire(&ts->timerlist) != 0) {
		qb_util_log(LOG_ERR, "timerlist_expire failed");
	}
	return expired_timers;
}

int32_t
qb_loop_timer_msec_duration_to_expire(struct qb_loop_source * timer_source)
{
	struct qb_timer_source *my_src = (struct qb_timer_source *)timer_source;
	uint64_t left = timerlist_msec_duration_to_expire(&my_src->timerlist);
	if (left != -1 && left > INT32_MAX) {
		left = INT32_MAX;
	}
	return left;
}

struct qb_loop_source *
qb_loop_timer_create(struct qb_loop *l)
{
	struct qb_timer_source *my_src = malloc(sizeof(struct qb_timer_source));
	if (my_src == NULL) {
		return NULL;
	}
	my_src->s.l = l;
	my_src->s.dispatch_and_take_back = timer_dispatch;
	my_src->s.poll = expire_the_timers;

	timerlist_init(&my_src->timerlist);
	my_src->timers = qb_array_create_2(16, sizeof(struct qb_loop_timer), 16);
	my_src->timer_entry_count = 0;
	pthread_mutex_init(&my_src->lock, NULL);

	return (struct qb_loop_source *)my_src;
}

void
qb_loop_timer_destroy(struct qb_loop *l)
{
	struct qb_timer_source *my_src =
	    (struct qb_timer_source *)l->timer_source;

	timerlist_destroy(&my_src->timerlist);
	qb_array_free(my_src->timers);
	free(l->timer_source);
}

static int32_t
_timer_from_handle_(struct qb_timer_source *s,
		    qb_loop_timer_handle handle_in,
		    struct qb_loop_timer **timer_pt)
{
	int32_t rc;
	int32_t check;
	uint32_t install_pos;
	struct qb_loop_timer *timer;

	if (handle_in == 0) {
		return -EINVAL;
	}

	check = handle_in >> 32;
	install_pos = handle_in & UINT32_MAX;

	rc = qb_array_index(s->timers, install_pos, (void **)&timer);
	if (rc != 0) {
		return rc;
	}
	if (timer->check != check) {
		return -EINVAL;
	}
	*timer_pt = timer;
	return 0;
}

static int32_t
_get_empty_array_position_(struct qb_timer_source *s)
{
	int32_t install_pos;
	int32_t res = 0;
	struct qb_loop_timer *timer;

	for (install_pos = 0; install_pos < s->timer_entry_count; install_pos++) {
		assert(qb_array_index(s->timers, install_pos, (void **)&timer)
		       == 0);
		if (timer->state == QB_POLL_ENTRY_EMPTY) {
			return install_pos;
		}
	}

	res = qb_array_grow(s->timers, s->timer_entry_count + 1);
	if (res != 0) {
		return res;
	}

	s->timer_entry_count++;
	install_pos = s->timer_entry_count - 1;
	return install_pos;
}

int32_t
qb_loop_timer_add(struct qb_loop * lp,
		  enum qb_loop_priority p,
		  uint64_t nsec_duration,
		  void *data,
		  qb_loop_timer_dispatch_fn timer_fn,
		  qb_loop_timer_handle * timer_handle_out)
{
	struct qb_loop_timer *t;
	struct qb_timer_source *my_src;
	int32_t i;
	int res;
	struct qb_loop *l = lp;

	if (l == NULL) {
		l = qb_loop_default_get();
	}

	if (l == NULL || timer_fn == NULL) {
		return -EINVAL;
	}
	my_src = (struct qb_timer_source *)l->timer_source;

	if ( (res=pthread_mutex_lock(&my_src->lock))) {
		return -res;
	}
	i = _get_empty_array_position_(my_src);
	assert(qb_array_index(my_src->timers, i, (void **)&t) >= 0);
	t->state = QB_POLL_ENTRY_ACTIVE;
	t->install_pos = i;
	t->item.user_data = data;
	t->item.source = (struct qb_loop_source *)my_src;
	t->dispatch_fn = timer_fn;
	t->p = p;
	qb_list_init(&t->item.list);

	/* Unlock here to stop anyone else changing the state while we're initializing */
	pthread_mutex_unlock(&my_src->lock);

	/*
	 * Make sure just positive integers are used for the integrity(?)
	 * checks within 2^32 address space, if we miss 200 times in a row
	 * (just 0 is concerned per specification of random), the PRNG may be
	 * broken -> the value is unspecified, subject of previous assignment.
	 */
	for (i = 0; i < 200; i++) {
		t->check = random();

		if (t->check > 0) {
			break;  /* covers also t->check == UINT32_MAX */
		}
	}

	if (timer_handle_out) {
		*timer_handle_out = (((uint64_t) (t->check)) << 32) | t->install_pos;
	}
	return timerlist_add_duration(&my_src->timerlist,
				      make_job_from_tmo, t,
				      nsec_duration, &t->timerlist_handle);
}

int32_t
qb_loop_timer_del(struct qb_loop * lp, qb_loop_timer_handle th)
{
	struct qb_timer_source *s;
	struct qb_loop_timer *t;
	int32_t res;
	struct qb_loop *l = lp;

	if (l == NULL) {
		l = qb_loop_default_get();
	}
	s = (struct qb_timer_source *)l->timer_source;

	res = _timer_from_handle_(s, th, &t);
	if (res != 0) {
		return res;
	}

	if (t->state == QB_POLL_ENTRY_DELETED) {
		qb_util_log(LOG_WARNING, "timer already deleted");
		return 0;
	}
	if (t->state != QB_POLL_ENTRY_ACTIVE &&
	    t->state != QB_POLL_ENTRY_JOBLIST) {
		return -EINVAL;
	}
	if (t->state == QB_POLL_ENTRY_JOBLIST) {
		qb_loop_level_item_del(&l->level[t->p], &t->item);
	}

	if (t->timerlist_handle) {
		if (timerlist_del(&s->timerlist, t->timerlist_handle) != 0) {
			qb_util_log(LOG_ERR, "Could not delete timer from timerlist");
		}
	}
	t->state = QB_POLL_ENTRY_EMPTY;
	return 0;
}

uint64_t
qb_loop_timer_expire_time_get(struct qb_loop * lp, qb_loop_timer_handle th)
{
	struct qb_timer_source *s;
	struct qb_loop_timer *t;
	int32_t res;
	struct qb_loop *l = lp;

	if (l == NULL) {
		l = qb_loop_default_get();
	}
	s = (struct qb_timer_source *)l->timer_source;

	res = _timer_from_handle_(s, th, &t);
	if (res != 0) {
		return 0;
	}

	if (t->state != QB_POLL_ENTRY_ACTIVE) {
		return 0;
	}

	return timerlist_expire_time(&s->timerlist, t->timerlist_handle);
}

uint64_t
qb_loop_timer_expire_time_remaining(struct qb_loop * lp, qb_loop_timer_handle th)
{

	uint64_t current_ns;
	/* NOTE: while it does not appear that absolute timers are used anywhere,
	 * we may as well respect this pattern in case that changes.
	 * Unfortunately, that means we do need to repeat timer fetch code from qb_loop_timer_expire_time_get
	 * rather than just a simple call to qb_loop_timer_expire_time_get and qb_util_nano_current_get.
	 */

	struct qb_timer_source *s;
	struct qb_loop_timer *t;
	int32_t res;
	struct qb_loop *l = lp;

	if (l == NULL) {
		l = qb_loop_default_get();
	}
	s = (struct qb_timer_source *)l->timer_source;

	res = _timer_from_handle_(s, th, &t);
	if (res != 0) {
		return 0;
	}
	if (t->state != QB_POLL_ENTRY_ACTIVE) {
		return 0;
	}

	struct timerlist_timer *timer = (struct timerlist_timer *)t->timerlist_handle;
	if (timer->is_absolute_timer) {
		current_ns = qb_util_nano_from_epoch_get();
	}
	else {
		current_ns = qb_util_nano_current_get();
	}
	uint64_t timer_ns = timerlist_expire_time(&s->timerlist, t->timerlist_handle);
	if (timer_ns < current_ns) {
		return 0; // respect the "expired" contract
	}
	return timer_ns - current_ns;


}

int32_t
qb_loop_timer_is_running(qb_loop_t *l, qb_loop_timer_handle th)
{
	return (qb_loop_timer_expire_time_get(l, th) > 0);
}
