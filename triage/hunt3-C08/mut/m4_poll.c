/*
 * Copyright (C) 2010 Red Hat, Inc.
 *
 * Author: Angus Salkeld <asalkeld@redhat.com>
 *
 * This file is part of libqb.
 *
 * libqb is free software: you can redistribute it and/or modify
 * it under the terms of the GNU Lesser General Public License as published by
 * the Free Software Foundation, either version 2.1 of the License, or
 * (at your option) any later version.
 *
 * libqb is distributed in the hope that it will be useful,
 * but WITHOUT ANY WARRANTY; without even the implied warranty of
 * MERCHANTABILITY or FITNESS FOR A PARTICULAR PURPOSE.  See the
 * GNU Lesser General Public License for more details.
 *
 * You should have received a copy of the GNU Lesser General Public License
 * along with libqb.  If not, see <http://www.gnu.org/licenses/>.
 */
#include "os_base.h"

/* due to MinGW/splint emitting "< Location unknown >: Previous use of" */
#if defined(HAVE_SYS_RESOURCE_H) && !defined(S_SPLINT_S)
#include <sys/resource.h>
#endif

#include <signal.h>

#if defined(__DARWIN_NSIG)
#define QB_MAX_NUM_SIGNALS __DARWIN_NSIG
#else
  #if defined(NSIG)
  #define QB_MAX_NUM_SIGNALS NSIG
  #else
  #define QB_MAX_NUM_SIGNALS 31
  #endif
#endif

#include "loop_poll_int.h"

/*
 * Define this to log slow (>10ms) jobs.
 */
#undef DEBUG_DISPATCH_TIME

/* logs, std(in|out|err), pipe */
#define POLL_FDS_USED_MISC 50

#ifdef HAVE_EPOLL
#define USE_EPOLL 1
#else
 #ifdef HAVE_KQUEUE
 #define USE_KQUEUE 1
 #else
 #define USE_POLL 1
 #endif /* HAVE_KQUEUE */
#endif /* HAVE_EPOLL */

static int32_t _qb_signal_add_to_jobs_(struct qb_loop *l,
				       struct qb_poll_entry *pe);

static void
_poll_entry_check_generate_(struct qb_poll_entry *pe)
{
	int32_t i;

	for (i = 0; i < 200; i++) {
		pe->check = random();

		if (pe->check != 0 && pe->check != UINT32_MAX) {
			break;
		}
	}
}

static void
_poll_entry_mark_deleted_(struct qb_poll_entry *pe)
{
	pe->ufd.fd = -1;
	pe->state = QB_POLL_ENTRY_DELETED;
	pe->check = 0;
}

static void
_poll_entry_empty_(struct qb_poll_entry *pe)
{
	memset(pe, 0, sizeof(struct qb_poll_entry));
	pe->ufd.fd = -1;
}

static void
_poll_dispatch_and_take_back_(struct qb_loop_item *item,
			      enum qb_loop_priority p)
{
	struct qb_poll_entry *pe = (struct qb_poll_entry *)item;
	int32_t res;
#ifdef DEBUG_DISPATCH_TIME
	uint64_t start;
	uint64_t stop;
	int32_t log_warn = QB_FALSE;

	start = qb_util_nano_current_get();
#endif /* DEBUG_DISPATCH_TIME */

	assert(pe->state == QB_POLL_ENTRY_JOBLIST);
	assert(pe->item.type == QB_LOOP_FD);

	res = pe->poll_dispatch_fn(pe->ufd.fd,
				   pe->ufd.revents,
				   pe->item.user_data);
	if (res < 0) {
		if (pe->state != QB_POLL_ENTRY_DELETED) {
			/*
			 * "Take me out": out of the driver as well, like
			 * qb_loop_poll_del() does.  A descriptor that stays
			 * open would otherwise stay in the kernel's set:
			 * reported in every iteration, refused (EEXIST)
			 * when it is added again.
			 */
			struct qb_poll_source *ps =
			    (struct qb_poll_source *)pe->item.source;

			(void)ps->driver.del(ps, pe, pe->ufd.fd,
					     pe->install_pos);
		}
		_poll_entry_mark_deleted_(pe);
	} else if (pe->state != QB_POLL_ENTRY_DELETED) {
		pe->state = QB_POLL_ENTRY_ACTIVE;
		pe->ufd.revents = 0;
	}
#ifdef DEBUG_DISPATCH_TIME
	if (pe->state == QB_POLL_ENTRY_ACTIVE) {
		pe->runs++;
		if ((pe->runs % 50) == 0) {
			log_warn = QB_TRUE;
		}
		stop = qb_util_nano_current_get();
		if ((stop - start) > (10 * QB_TIME_NS_IN_MSEC)) {
			log_warn = QB_TRUE;
		}

		if (log_warn && pe->item.type == QB_LOOP_FD) {
			qb_util_log(LOG_INFO,
				    "[fd:%d] dispatch:%p runs:%d duration:%d ms",
				    pe->ufd.fd, pe->poll_dispatch_fn,
				    pe->runs,
				    (int32_t) ((stop -
						start) / QB_TIME_NS_IN_MSEC));
		}
	}
#endif /* DEBUG_DISPATCH_TIME */
}

void
qb_poll_fds_usage_check_(struct qb_poll_source *s)
{
	struct rlimit lim;
	static int32_t socks_limit = 0;
	int32_t send_event = QB_FALSE;
	int32_t socks_used = 0;
	int32_t socks_avail = 0;
	struct qb_poll_entry *pe;
	int32_t i;

	if (socks_limit == 0) {
		if (getrlimit(RLIMIT_NOFILE, &lim) == -1) {
			qb_util_perror(LOG_WARNING, "getrlimit");
			return;
		}
		socks_limit = lim.rlim_cur;
		socks_limit -= POLL_FDS_USED_MISC;
		if (socks_limit < 0) {
			socks_limit = 0;
		}
	}

	for (i = 0; i < s->poll_entry_count; i++) {
		assert(qb_array_index(s->poll_entries, i, (void **)&pe) == 0);
		if ((pe->state == QB_POLL_ENTRY_ACTIVE ||
		     pe->state == QB_POLL_ENTRY_JOBLIST) && pe->ufd.fd != -1) {
			socks_used++;
		}
		if (pe->state == QB_POLL_ENTRY_DELETED) {
			_poll_entry_empty_(pe);
		}
	}

	socks_avail = socks_limit - socks_used;
	if (socks_avail < 0) {
		socks_avail = 0;
	}
	send_event = QB_FALSE;
	if (s->not_enough_fds) {
		if (socks_avail > 2) {
			s->not_enough_fds = QB_FALSE;
			send_event = QB_TRUE;
		}
	} else {
		if (socks_avail <= 1) {
			s->not_enough_fds = QB_TRUE;
			send_event = QB_TRUE;
		}
	}
	if (send_event && s->low_fds_event_fn) {
		s->low_fds_event_fn(s->not_enough_fds, socks_avail);
	}
}


struct qb_loop_source *
qb_loop_poll_create(struct qb_loop *l)
{
	struct qb_poll_source *s = malloc(sizeof(struct qb_poll_source));
	if (s == NULL) {
		return NULL;
	}
	s->s.l = l;
	s->s.dispatch_and_take_back = _poll_dispatch_and_take_back_;

	s->poll_entries = qb_array_create_2(16, sizeof(struct qb_poll_entry), 16);
	s->poll_entry_count = 0;
	s->low_fds_event_fn = NULL;
	s->not_enough_fds = QB_FALSE;

#ifdef USE_EPOLL
	(void)qb_epoll_init(s);
#endif
#ifdef USE_KQUEUE
	(void)qb_kqueue_init(s);
#endif
#ifdef USE_POLL
	(void)qb_poll_init(s);
#endif /* USE_POLL */

	return (struct qb_loop_source *)s;
}

void
qb_loop_poll_destroy(struct qb_loop *l)
{
	struct qb_poll_source *s = (struct qb_poll_source *)l->fd_source;
	qb_array_free(s->poll_entries);

	s->driver.fini(s);

	free(s);
}

int32_t
qb_loop_poll_low_fds_event_set(struct qb_loop *l,
			       qb_loop_poll_low_fds_event_fn fn)
{
	struct qb_poll_source *s = (struct qb_poll_source *)l->fd_source;
	s->low_fds_event_fn = fn;

	return 0;
}

static int32_t
_get_empty_array_position_(struct qb_poll_source *s)
{
	int32_t found = QB_FALSE;
	uint32_t install_pos;
	int32_t res = 0;
	struct qb_poll_entry *pe;

	for (install_pos = 0;
	     install_pos < s->poll_entry_count; install_pos++) {
		assert(qb_array_index
		       (s->poll_entries, install_pos, (void **)&pe) == 0);
		if (pe->state == QB_POLL_ENTRY_EMPTY) {
			found = QB_TRUE;
			break;
		}
	}

	if (found == QB_FALSE) {
#ifdef USE_POLL
		struct pollfd *ufds;
		int32_t new_size = (s->poll_entry_count + 1) * sizeof(struct pollfd);
		ufds = realloc(s->ufds, new_size);
		if (ufds == NULL) {
			return -ENOMEM;
		}
		s->ufds = ufds;
#endif /* USE_POLL */
		/*
		 * Grow pollfd list
		 */
		res = qb_array_grow(s->poll_entries, s->poll_entry_count + 1);
		if (res != 0) {
			return res;
		}

		s->poll_entry_count += 1;
		install_pos = s->poll_entry_count - 1;
	}
	return install_pos;
}

static int32_t
_poll_add_(struct qb_loop *l,
	   enum qb_loop_priority p,
	   int32_t fd, int32_t events, void *data, struct qb_poll_entry **pe_pt)
{
	struct qb_poll_entry *pe;
	struct qb_poll_entry *other;
	uint32_t install_pos;
	int32_t res = 0;
	int32_t i;
	struct qb_poll_source *s;

	if (l == NULL) {
		return -EINVAL;
	}

	s = (struct qb_poll_source *)l->fd_source;

	install_pos = _get_empty_array_position_(s);

	assert(qb_array_index(s->poll_entries, install_pos, (void **)&pe) == 0);
	pe->state = QB_POLL_ENTRY_ACTIVE;
	pe->install_pos = install_pos;
	_poll_entry_check_generate_(pe);
	pe->ufd.fd = fd;
	pe->ufd.events = events;
	pe->ufd.revents = 0;
	pe->item.user_data = data;
	pe->item.source = (struct qb_loop_source *)l->fd_source;
	pe->p = p;
	pe->runs = 0;
	res = s->driver.add(s, pe, fd, events);
	if (res == 0) {
		/*
		 * The number may be that of a descriptor whose callback we
		 * are in right now: it was closed there and the new one got
		 * its number. The entry being dispatched is finished then;
		 * it must neither be found under that number any more nor
		 * be armed again when its callback returns.
		 */
		for (i = 0; i < s->poll_entry_count; i++) {
			assert(qb_array_index(s->poll_entries, i, (void **)&other) == 0);
			if (other != pe && other->ufd.fd == fd &&
			    other->item.type == QB_LOOP_FD &&
			    other->state == QB_POLL_ENTRY_JOBLIST &&
			    qb_list_empty(&other->item.list)) {
				_poll_entry_mark_deleted_(other);
			}
		}
		*pe_pt = pe;
		return 0;
	} else {
		/* nothing is registered: leave no descriptor number or
		 * check value behind that a later lookup could match */
		_poll_entry_empty_(pe);
		return res;
	}
}

static int32_t
_qb_poll_add_to_jobs_(struct qb_loop *l, struct qb_poll_entry *pe)
{
	assert(pe->item.type == QB_LOOP_FD);
	qb_loop_level_item_add(&l->level[pe->p], &pe->item);
	pe->state = QB_POLL_ENTRY_JOBLIST;
	return 1;
}

int32_t
qb_loop_poll_add(struct qb_loop * lp,
		 enum qb_loop_priority p,
		 int32_t fd,
		 int32_t events,
		 void *data, qb_loop_poll_dispatch_fn dispatch_fn)
{
	struct qb_poll_entry *pe = NULL;
	int32_t size;
	int32_t new_size;
	int32_t res;
	struct qb_loop *l = lp;

	if (l == NULL) {
		l = qb_loop_default_get();
	}

	size = ((struct qb_poll_source *)l->fd_source)->poll_entry_count;
	res = _poll_add_(l, p, fd, events, data, &pe);
	if (res != 0) {
		qb_util_perror(LOG_ERR,
			       "couldn't add poll entryfor FD %d", fd);
		return res;
	}
	new_size = ((struct qb_poll_source *)l->fd_source)->poll_entry_count;

	pe->poll_dispatch_fn = dispatch_fn;
	pe->item.type = QB_LOOP_FD;
	pe->add_to_jobs = _qb_poll_add_to_jobs_;

	if (new_size > size) {
		qb_util_log(LOG_TRACE,
			    "grown poll array to %d for FD %d", new_size, fd);
	}

	return res;
}

int32_t
qb_loop_poll_mod(struct qb_loop * lp,
		 enum qb_loop_priority p,
		 int32_t fd,
		 int32_t events,
		 void *data, qb_loop_poll_dispatch_fn dispatch_fn)
{
	uint32_t i;
	int32_t res = 0;
	struct qb_poll_entry *pe;
	struct qb_poll_source *s;
	struct qb_loop *l = lp;

	if (l == NULL) {
		l = qb_loop_default_get();
	}
	s = (struct qb_poll_source *)l->fd_source;

	/*
	 * Find file descriptor to modify events and dispatch function
	 */
	for (i = 0; i < s->poll_entry_count; i++) {
		assert(qb_array_index(s->poll_entries, i, (void **)&pe) == 0);
		if (pe->ufd.fd != fd) {
			continue;
		}
		if (pe->state == QB_POLL_ENTRY_DELETED || pe->check == 0) {
			qb_util_log(LOG_ERR,
				    "poll_mod : can't modify entry already deleted");
			return -EBADF;
		}
		pe->poll_dispatch_fn = dispatch_fn;
		pe->item.user_data = data;
		pe->p = p;
		if (pe->ufd.events != events) {
			res = s->driver.mod(s, pe, fd, events);
			pe->ufd.events = events;
		}
		return res;
	}

	return -EBADF;
}

int32_t
qb_loop_poll_del(struct qb_loop * lp, int32_t fd)
{
	int32_t i;
	int32_t res = 0;
	struct qb_poll_entry *pe;
	struct qb_poll_source *s;
	struct qb_loop *l = lp;

	if (l == NULL) {
		l = qb_loop_default_get();
	}
	s = (struct qb_poll_source *)l->fd_source;
	for (i = 0; i < s->poll_entry_count; i++) {
		assert(qb_array_index(s->poll_entries, i, (void **)&pe) == 0);
		if (pe->ufd.fd != fd || pe->item.type != QB_LOOP_FD) {
			continue;
		}
		if (pe->state == QB_POLL_ENTRY_DELETED ||
		    pe->state == QB_POLL_ENTRY_EMPTY) {
			return 0;
		}

		res = s->driver.del(s, pe, fd, i);
		_poll_entry_mark_deleted_(pe);
		return res;
	}

	return -EBADF;
}

static int32_t pipe_fds[2] = { -1, -1 };

struct qb_signal_source {
	struct qb_loop_source s;
	struct qb_list_head sig_head;
	sigset_t signal_superset;
	/* the delivery whose callback is running (it is on no list) */
	struct qb_loop_sig *dispatching;
};

struct qb_loop_sig {
	struct qb_loop_item item;
	int32_t signal;
	enum qb_loop_priority p;
	qb_loop_signal_dispatch_fn dispatch_fn;
	struct qb_loop_sig *cloned_from;
};

static void
_handle_real_signal_(int signal_num, siginfo_t * si, void *context)
{
	int32_t sig = signal_num;
	int32_t res = 0;

	if (pipe_fds[1] > 0) {
try_again:
		res = write(pipe_fds[1], &sig, sizeof(int32_t));
		if (res == -1 && errno == EAGAIN) {
			goto try_again;
		}
	}
}

static void
_signal_dispatch_and_take_back_(struct qb_loop_item *item,
				enum qb_loop_priority p)
{
	struct qb_loop_sig *sig = (struct qb_loop_sig *)item;
	struct qb_signal_source *s = (struct qb_signal_source *)item->source;
	int32_t res;

	s->dispatching = sig;
	res = sig->dispatch_fn(sig->signal, sig->item.user_data);
	s->dispatching = NULL;
	/* the callback may have deleted the registration itself */
	if (res != 0 && sig->cloned_from != NULL) {
		(void)qb_loop_signal_del(sig->cloned_from->item.source->l,
					 sig->cloned_from);
	}
	free(sig);
}

struct qb_loop_source *
qb_loop_signals_create(struct qb_loop *l)
{
	int32_t res = 0;
	struct qb_poll_entry *pe;
	struct qb_signal_source *s = calloc(1, sizeof(struct qb_signal_source));

	if (s == NULL) {
		return NULL;
	}
	s->s.l = l;
	s->s.dispatch_and_take_back = _signal_dispatch_and_take_back_;
	s->s.poll = NULL;
	qb_list_init(&s->sig_head);
	sigemptyset(&s->signal_superset);

	if (pipe_fds[0] < 0) {
		res = pipe(pipe_fds);
		if (res == -1) {
			res = -errno;
			qb_util_perror(LOG_ERR, "Can't light pipe");
			goto error_exit;
		}
		(void)qb_sys_fd_nonblock_cloexec_set(pipe_fds[0]);
		(void)qb_sys_fd_nonblock_cloexec_set(pipe_fds[1]);

		res = _poll_add_(l, QB_LOOP_HIGH,
				 pipe_fds[0], POLLIN, NULL, &pe);
		if (res == 0) {
			pe->poll_dispatch_fn = NULL;
			pe->item.type = QB_LOOP_SIG;
			pe->add_to_jobs = _qb_signal_add_to_jobs_;
		} else {
			qb_util_perror(LOG_ERR, "Can't smoke pipe");
			goto error_exit;
		}
	}

	return (struct qb_loop_source *)s;

error_exit:
	errno = -res;
	free(s);
	if (pipe_fds[0] >= 0) {
		close(pipe_fds[0]);
	}
	if (pipe_fds[1] >= 0) {
		close(pipe_fds[1]);
	}
	return NULL;
}

void
qb_loop_signals_destroy(struct qb_loop *l)
{
	struct qb_signal_source *s =
	    (struct qb_signal_source *)l->signal_source;
	struct qb_list_head *list;
	struct qb_list_head *n;
	struct qb_loop_item *item;

	close(pipe_fds[0]);
	pipe_fds[0] = -1;
	close(pipe_fds[1]);
	pipe_fds[1] = -1;

	qb_list_for_each_safe(list, n, &s->sig_head) {
		item = qb_list_entry(list, struct qb_loop_item, list);
		qb_list_del(&item->list);
		free(item);
	}

	free(l->signal_source);
}

static int32_t
_qb_signal_add_to_jobs_(struct qb_loop *l, struct qb_poll_entry *pe)
{
	struct qb_signal_source *s =
	    (struct qb_signal_source *)l->signal_source;
	struct qb_list_head *list;
	struct qb_loop_sig *sig;
	struct qb_loop_item *item;
	struct qb_loop_sig *new_sig_job;
	int32_t the_signal;
	ssize_t res;
	int32_t jobs_added = 0;

	res = read(pipe_fds[0], &the_signal, sizeof(int32_t));
	if (res != sizeof(int32_t)) {
		qb_util_perror(LOG_WARNING, "failed to read pipe");
		return 0;
	}
	pe->ufd.revents = 0;

	qb_list_for_each(list, &s->sig_head) {
		item = qb_list_entry(list, struct qb_loop_item, list);
		sig = (struct qb_loop_sig *)item;
		if (sig->signal == the_signal) {
			new_sig_job = calloc(1, sizeof(struct qb_loop_sig));
			if (new_sig_job == NULL) {
				return jobs_added;
			}
			memcpy(new_sig_job, sig, sizeof(struct qb_loop_sig));

			qb_util_log(LOG_TRACE,
				    "adding signal [%d] to job queue %p",
				    the_signal, sig);

			new_sig_job->cloned_from = sig;
			qb_loop_level_item_add(&l->level[sig->p],
					       &new_sig_job->item);
			jobs_added++;
		}
	}
	return jobs_added;
}

static void
_adjust_sigactions_(struct qb_signal_source *s)
{
	struct qb_loop_sig *sig;
	struct qb_loop_item *item;
	struct sigaction sa;
	int32_t i;
	int32_t needed;

	sa.sa_flags = SA_SIGINFO;
	sa.sa_sigaction = _handle_real_signal_;
	sigemptyset(&s->signal_superset);
	sigemptyset(&sa.sa_mask);

	/* re-set to default */
	for (i = 0; i < QB_MAX_NUM_SIGNALS; i++) {
		needed = QB_FALSE;
		qb_list_for_each_entry(item, &s->sig_head, list) {
			sig = (struct qb_loop_sig *)item;
			if (i == sig->signal) {
				needed = QB_TRUE;
				break;
			}
		}
		if (needed) {
			sigaddset(&s->signal_superset, i);
			sigaction(i, &sa, NULL);
		}
	}
}

int32_t
qb_loop_signal_add(qb_loop_t * lp,
		   enum qb_loop_priority p,
		   int32_t the_sig,
		   void *data,
		   qb_loop_signal_dispatch_fn dispatch_fn,
		   qb_loop_signal_handle * handle)
{
	struct qb_loop_sig *sig;
	struct qb_signal_source *s;
	struct qb_loop *l = lp;

	if (l == NULL) {
		l = qb_loop_default_get();
	}
	if (l == NULL || dispatch_fn == NULL) {
		return -EINVAL;
	}
	if (p < QB_LOOP_LOW || p > QB_LOOP_HIGH) {
		return -EINVAL;
	}
	s = (struct qb_signal_source *)l->signal_source;
	sig = calloc(1, sizeof(struct qb_loop_sig));
	if (sig == NULL) {
		return -errno;
	}

	sig->dispatch_fn = dispatch_fn;
	sig->p = p;
	sig->signal = the_sig;
	sig->item.user_data = data;
	sig->item.source = l->signal_source;
	sig->item.type = QB_LOOP_SIG;

	qb_list_init(&sig->item.list);
	qb_list_add_tail(&sig->item.list, &s->sig_head);

	if (sigismember(&s->signal_superset, the_sig) != 1) {
		_adjust_sigactions_(s);
	}
	if (handle) {
		*handle = sig;
	}

	return 0;
}

int32_t
qb_loop_signal_mod(qb_loop_t * lp,
		   enum qb_loop_priority p,
		   int32_t the_sig,
		   void *data,
		   qb_loop_signal_dispatch_fn dispatch_fn,
		   qb_loop_signal_handle handle)
{
	struct qb_signal_source *s;
	struct qb_loop_sig *sig = (struct qb_loop_sig *)handle;
	struct qb_loop *l = lp;

	if (l == NULL) {
		l = qb_loop_default_get();
	}
	if (l == NULL || dispatch_fn == NULL || handle == NULL) {
		return -EINVAL;
	}
	if (p < QB_LOOP_LOW || p > QB_LOOP_HIGH) {
		return -EINVAL;
	}
	s = (struct qb_signal_source *)l->signal_source;

	sig->item.user_data = data;
	sig->item.type = QB_LOOP_SIG;
	sig->dispatch_fn = dispatch_fn;
	sig->p = p;

	if (sig->signal != the_sig) {
		(void)signal(sig->signal, SIG_DFL);
		sig->signal = the_sig;
		_adjust_sigactions_(s);
	}

	return 0;
}

int32_t
qb_loop_signal_del(qb_loop_t * lp, qb_loop_signal_handle handle)
{
	struct qb_signal_source *s;
	struct qb_loop_sig *sig = (struct qb_loop_sig *)handle;
	struct qb_loop_sig *sig_clone;
	struct qb_loop *l = lp;
	struct qb_loop_item *item;
	struct qb_loop_item *next;
	int32_t p;

	if (l == NULL) {
		l = qb_loop_default_get();
	}
	if (l == NULL || handle == NULL) {
		return -EINVAL;
	}
	s = (struct qb_signal_source *)l->signal_source;

	/*
	 * the signal may have been queued more than once, purge every clone;
	 * they sit at the priority the signal had when they were queued,
	 * which qb_loop_signal_mod() may have changed since
	 */
	for (p = QB_LOOP_LOW; p <= QB_LOOP_HIGH; p++) {
		qb_list_for_each_entry_safe(item, next, &l->level[p].wait_head, list) {
			if (item->type != QB_LOOP_SIG) {
				continue;
			}
			sig_clone = (struct qb_loop_sig *)item;
			if (sig_clone->cloned_from == sig) {
				qb_util_log(LOG_TRACE, "deleting sig in WAITLIST");
				qb_list_del(&sig_clone->item.list);
				free(sig_clone);
			}
		}

		qb_list_for_each_entry_safe(item, next, &l->level[p].job_head, list) {
			if (item->type != QB_LOOP_SIG) {
				continue;
			}
			sig_clone = (struct qb_loop_sig *)item;
			if (sig_clone->cloned_from == sig) {
				qb_loop_level_item_del(&l->level[p], item);
				qb_util_log(LOG_TRACE, "deleting sig in JOBLIST");
				free(sig_clone);
			}
		}
	}

	if (s->dispatching != NULL && s->dispatching->cloned_from == sig) {
		/* deleted from inside its own callback */
		s->dispatching->cloned_from = NULL;
	}
	qb_list_del(&sig->item.list);
	(void)signal(sig->signal, SIG_DFL);
	free(sig);
	_adjust_sigactions_(s);
	return 0;
}
