/*
 * Copyright (C) 2012 Red Hat, Inc.
 *
 * Author: Angus Salkeld <asalkeld@redhat.com>
 *
 * This file is part of libqb.
 *
 * libqb is free software: you can redistribute it and/or modify
 * it under the terms of the GNU Lesser General Public License as published by
 * the Free Software Foundation, either version 2.1 of the License, or
 * (at your option) any later version.
 *
 * libqb is distributed in the hope that it will be useful,
 * but WITHOUT ANY WARRANTY; without even the implied warranty of
 * MERCHANTABILITY or FITNESS FOR A PARTICULAR PURPOSE.  See the
 * GNU Lesser General Public License for more details.
 *
 * You should have received a copy of the GNU Lesser General Public License
 * along with libqb.  If not, see <http://www.gnu.org/licenses/>.
 */

#include "os_base.h"
#include "loop_poll_int.h"

#ifdef HAVE_SYS_EPOLL_H
#include <sys/epoll.h>
#ifndef epoll_create1
int epoll_create1(int flags);
#endif /* workaround a set of sparc and alpha broken headers */
#endif /* HAVE_SYS_EPOLL_H */

#define MAX_EVENTS 12

static int32_t
_poll_to_epoll_event_(int32_t event)
{
	int32_t out = 0;
	if (event & POLLIN)
		out |= EPOLLIN;
	if (event & POLLOUT)
		out |= EPOLLOUT;
	if (event & POLLPRI)
		out |= EPOLLPRI;
	if (event & POLLERR)
		out |= EPOLLERR;
	if (event & POLLHUP)
		out |= EPOLLHUP;
	if (event & POLLNVAL)
		out |= EPOLLERR;
	return out;
}

static int32_t
_epoll_to_poll_event_(int32_t event)
{
	int32_t out = 0;
	if (event & EPOLLIN)
		out |= POLLIN;
	if (event & EPOLLOUT)
		out |= POLLOUT;
	if (event & EPOLLPRI)
		out |= POLLPRI;
	if (event & EPOLLERR)
		out |= POLLERR;
	if (event & EPOLLHUP)
		out |= POLLHUP;
	return out;
}

static void
_fini(struct qb_poll_source *s)
{
	if (s->epollfd != -1) {
		close(s->epollfd);
		s->epollfd = -1;
	}
}

static int32_t
_add(struct qb_poll_source *s, struct qb_poll_entry *pe, int32_t fd, int32_t events)
{
	struct epoll_event ev;
	int32_t res = 0;

	ev.events = _poll_to_epoll_event_(events);
	ev.data.u64 = (((uint64_t) (pe->check)) << 32) | pe->install_pos;
	if (epoll_ctl(s->epollfd, EPOLL_CTL_ADD, fd, &ev) == -1) {
		res = -errno;
		qb_util_perror(LOG_ERR, "epoll_ctl(add)");
	}
	return res;
}


static int32_t
_mod(struct qb_poll_source *s, struct qb_poll_entry *pe, int32_t fd, int32_t events)
{
	struct epoll_event ev;
	int32_t res = 0;

	ev.events = _poll_to_epoll_event_(events);
	ev.data.u64 = (((uint64_t) (pe->check)) << 32) | pe->install_pos;
	if (epoll_ctl(s->epollfd, EPOLL_CTL_MOD, fd, &ev) == -1) {
		res = -errno;
		qb_util_perror(LOG_DEBUG, "epoll_ctl(mod)");
	}
	return res;
}

static int32_t
_del(struct qb_poll_source *s, struct qb_poll_entry *pe, int32_t fd, int32_t arr_index)
{
	int32_t res = 0;

	if (epoll_ctl(s->epollfd, EPOLL_CTL_DEL, fd, NULL) == -1) {
		res = -errno;
		qb_util_perror(LOG_DEBUG, "epoll_ctl(del)");
	}
	return res;
}

static int32_t
_poll_entry_from_handle_(struct qb_poll_source *s,
			 uint64_t handle_in, struct qb_poll_entry **pe_pt)
{
	int32_t res = 0;
	uint32_t check = ((uint32_t) (((uint64_t) handle_in) >> 32));
	uint32_t handle = handle_in & UINT32_MAX;
	struct qb_poll_entry *pe;

	res = qb_array_index(s->poll_entries, handle, (void **)&pe);
	if (res != 0) {
		return res;
	}
	if (pe->check != check) {
		return -EINVAL;
	}
	*pe_pt = pe;
	return 0;
}

static int32_t
_poll_and_add_to_jobs_(struct qb_loop_source *src, int32_t ms_timeout)
{
	int32_t i;
	int32_t res;
	int32_t event_count;
	int32_t new_jobs = 0;
	struct qb_poll_entry *pe = NULL;
	struct qb_poll_source *s = (struct qb_poll_source *)src;
	struct epoll_event events[MAX_EVENTS];
	int32_t rounds;

	qb_poll_fds_usage_check_(s);

	/*
	 * One call reports at most MAX_EVENTS descriptors. When more are
	 * ready the kernel hands them out round robin over successive calls,
	 * so go round (without waiting) until everything that is ready has
	 * been seen once: a ready descriptor must not have to wait for
	 * its turn behind however many others there are.
	 */
	rounds = (s->poll_entry_count / MAX_EVENTS) + 1;

next_batch:
	rounds--;

	event_count = epoll_wait(s->epollfd, events, MAX_EVENTS, ms_timeout);

	if (errno == EINTR && event_count == -1) {
		/*
		 * Interrupted by a signal the application handles itself.
		 * Waiting again with the same timeout would put off the
		 * timers by the time already slept (for ever, with a signal
		 * that keeps coming): nothing is ready as far as we know,
		 * the loop works out a new timeout.
		 */
		return new_jobs;
	} else if (event_count == -1) {
		return (new_jobs > 0) ? new_jobs : -errno;
	}

	for (i = 0; i < event_count; i++) {
		res = _poll_entry_from_handle_(s, events[i].data.u64, &pe);
		if (res != 0) {
			qb_util_log(LOG_WARNING,
				    "can't find poll entry for new event.");
			usleep(100000);
			continue;
		}
		if (pe->ufd.fd == -1 || pe->state == QB_POLL_ENTRY_DELETED) {
			qb_util_log(LOG_WARNING,
				    "can't post new event to a deleted entry.");
			/*
			 * empty/deleted
			 */
			continue;
		}

		pe->ufd.revents |= _epoll_to_poll_event_(events[i].events);

		if (pe->state != QB_POLL_ENTRY_JOBLIST) {
			new_jobs += pe->add_to_jobs(src->l, pe);
		}
	}
	if (event_count == MAX_EVENTS && rounds > 0) {
		ms_timeout = 0;
		goto next_batch;
	}

	return new_jobs;
}

int32_t
qb_epoll_init(struct qb_poll_source *s)
{
	s->epollfd = epoll_create1(EPOLL_CLOEXEC);
	if (s->epollfd < 0) {
		return -errno;
	}
	s->driver.fini = _fini;
	s->driver.add = _add;
	s->driver.mod = _mod;
	s->driver.del = _del;
	s->s.poll = _poll_and_add_to_jobs_;
	return 0;
}
