/*
 * Copyright (C) 2006-2010 Red Hat, Inc.
 *
 * Author: Angus Salkeld <asalkeld@redhat.com>
 *
 * This file is part of libqb.
 *
 * libqb is free software: you can redistribute it and/or modify
 * it under the terms of the GNU Lesser General Public License as published by
 * the Free Software Foundation, either version 2.1 of the License, or
 * (at your option) any later version.
 *
 * libqb is distributed in the hope that it will be useful,
 * but WITHOUT ANY WARRANTY; without even the implied warranty of
 * MERCHANTABILITY or FITNESS FOR A PARTICULAR PURPOSE.  See the
 * GNU Lesser General Public License for more details.
 *
 * You should have received a copy of the GNU Lesser General Public License
 * along with libqb.  If not, see <http://www.gnu.org/licenses/>.
 */
#include "os_base.h"

#include <qb/qbdefs.h>
#include <qb/qblist.h>
#include <qb/qbloop.h>
#include "loop_int.h"
#include "util_int.h"

struct qb_loop_job {
	struct qb_loop_item item;
	qb_loop_job_dispatch_fn dispatch_fn;
};

static void
job_dispatch(struct qb_loop_item *item, enum qb_loop_priority p)
{
	struct qb_loop_job *job = qb_list_entry(item, struct qb_loop_job, item);

	job->dispatch_fn(job->item.user_data);
	free(job);

	/*
	 * this is a one-shot so don't re-add
	 */
}

static int32_t
get_more_jobs(struct qb_loop_source *s, int32_t ms_timeout)
{
	int32_t p;
	int32_t new_jobs = 0;
	int32_t level_jobs = 0;

	/*
	 * this is simple, move jobs from wait_head to job_head
	 */
	for (p = QB_LOOP_LOW; p <= QB_LOOP_HIGH; p++) {
		if (!qb_list_empty(&s->l->level[p].wait_head)) {
			level_jobs = qb_list_length(&s->l->level[p].wait_head);
			new_jobs += level_jobs;
			qb_list_splice_tail(&s->l->level[p].wait_head,
				            &s->l->level[p].job_head);
			qb_list_init(&s->l->level[p].wait_head);
			s->l->level[p].todo += level_jobs;
		}
	}
	return new_jobs;
}

struct qb_loop_source *
qb_loop_jobs_create(struct qb_loop *l)
{
	struct qb_loop_source *s = malloc(sizeof(struct qb_loop_source));
	if (s == NULL) {
		return NULL;
	}
	s->l = l;
	s->dispatch_and_take_back = job_dispatch;
	s->poll = get_more_jobs;

	return s;
}

void
qb_loop_jobs_destroy(struct qb_loop *l)
{
	free(l->job_source);
}

int32_t
qb_loop_job_add(struct qb_loop *lp,
		enum qb_loop_priority p,
		void *data, qb_loop_job_dispatch_fn dispatch_fn)
{
	struct qb_loop_job *job;
	struct qb_loop *l = lp;

	if (l == NULL) {
		l = qb_loop_default_get();
	}
	if (l == NULL || dispatch_fn == NULL) {
		return -EINVAL;
	}
	if (p < QB_LOOP_LOW || p > QB_LOOP_HIGH) {
		return -EINVAL;
	}
	job = malloc(sizeof(struct qb_loop_job));
	if (job == NULL) {
		return -ENOMEM;
	}

	job->dispatch_fn = dispatch_fn;
	job->item.user_data = data;
	job->item.source = l->job_source;
	job->item.type = QB_LOOP_JOB;

	qb_list_init(&job->item.list);
	qb_list_add_tail(&job->item.list, &l->level[p].wait_head);

	return 0;
}

int32_t
qb_loop_job_del(struct qb_loop *lp,
		enum qb_loop_priority p,
		void *data, qb_loop_job_dispatch_fn dispatch_fn)
{
	struct qb_loop_job *job;
	struct qb_loop_item *item;
	struct qb_loop *l = lp;

	if (l == NULL) {
		l = qb_loop_default_get();
	}
	if (l == NULL || dispatch_fn == NULL) {
		return -EINVAL;
	}
	if (p > QB_LOOP_HIGH) {
		return -EINVAL;
	}

	qb_list_for_each_entry(item, &l->level[p].wait_head, list) {
		job = (struct qb_loop_job *)item;
		if (job->dispatch_fn == dispatch_fn &&
		    job->item.user_data == data &&
		    job->item.type == QB_LOOP_JOB) {
			qb_list_del(&job->item.list);
			free(job);
			return 0;
		}
	}

	qb_list_for_each_entry(item, &l->level[p].job_head, list) {

		if (item->type != QB_LOOP_JOB) {
			continue;
		}
		job = (struct qb_loop_job *)item;
		if (job->dispatch_fn == dispatch_fn &&
		    job->item.user_data == data) {
			qb_loop_level_item_del(&l->level[p], item);
			qb_util_log(LOG_DEBUG, "deleting job in JOBLIST");
			return 0;
		}
	}

	return -ENOENT;
}
