#!/bin/sh
# usage: runmany.sh <first_seed> <count> <episodes>
export LD_LIBRARY_PATH=/repo/lib/.libs ASAN_OPTIONS=detect_leaks=0
cd /tmp/hunt3-C08
mkdir -p logs
i=$1; end=$(( $1 + $2 ))
while [ $i -lt $end ]; do
  case $(( i % 6 )) in 0) F=2;C=2;; 1) F=13;C=3;; 2) F=30;C=5;; 3) F=60;C=1;; 4) F=12;C=0;; 5) F=25;C=8;; esac
  ./fuzz $i $3 $F $C > logs/s$i.log 2>&1 || echo "FAIL seed $i F=$F C=$C" >> logs/FAILS
  tail -1 logs/s$i.log >> logs/summary
  i=$(( i + 1 ))
done
