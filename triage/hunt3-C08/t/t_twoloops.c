#include <stdio.h>
#include <stdlib.h>
#include <signal.h>
#include <unistd.h>
#include <qb/qbloop.h>
static int calls; static qb_loop_t *l1, *l2;
static int32_t scb(int32_t s, void *d){ calls++; qb_loop_stop(l2); return 0; }
static void tmo(void *d){ qb_loop_stop(l2); }
int main(void){
	qb_loop_signal_handle h; qb_loop_timer_handle th;
	l1 = qb_loop_create(); l2 = qb_loop_create();
	qb_loop_signal_add(l2, QB_LOOP_MED, SIGUSR1, NULL, scb, &h);
	qb_loop_timer_add(l2, QB_LOOP_LOW, 300000000ULL, NULL, tmo, &th);
	raise(SIGUSR1);
	qb_loop_run(l2);
	printf("second loop: signal callbacks %d (want 1)\n", calls);
	return calls != 1;
}
