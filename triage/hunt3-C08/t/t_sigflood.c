#include <stdio.h>
#include <stdlib.h>
#include <signal.h>
#include <unistd.h>
#include <qb/qbloop.h>
static int calls; static qb_loop_t *l; static int N;
static int32_t scb(int32_t s, void *d){ calls++; if (calls==N) qb_loop_stop(l); return 0; }
int main(int argc,char**argv){
	int i; N = argc>1?atoi(argv[1]):16385;
	l = qb_loop_create();
	qb_loop_signal_handle h;
	qb_loop_signal_add(l, QB_LOOP_MED, SIGUSR1, NULL, scb, &h);
	alarm(10);
	for(i=0;i<N;i++) raise(SIGUSR1);
	printf("raised %d\n", N); fflush(stdout);
	qb_loop_run(l);
	printf("calls %d\n", calls);
	return calls==N?0:1;
}
