#include <stdio.h>
#include <stdlib.h>
#include <unistd.h>
#include <poll.h>
#include <qb/qbloop.h>
static int32_t cb(int32_t fd, int32_t rev, void *d){ return 0; }
int main(int argc,char**argv){
	int n = argc>1?atoi(argv[1]):65537, i, rc=0, p[2];
	qb_loop_t *l = qb_loop_create();
	if (pipe(p)) return 2;
	for(i=0;i<n;i++){
		rc = qb_loop_poll_add(l, QB_LOOP_MED, p[0], POLLIN, NULL, cb); if(rc){printf("add %d rc %d\n",i,rc);break;}
		rc = qb_loop_poll_del(l, p[0]); if(rc){printf("del %d rc %d\n",i,rc);break;}
	}
	printf("cycles %d rc %d\n", i, rc);
	return 0;
}
