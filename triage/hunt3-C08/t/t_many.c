#include <stdio.h>
#include <stdlib.h>
#include <stdint.h>
#include <qb/qbloop.h>
static int fired;
static void cb(void *d){ fired++; }
int main(int argc,char**argv){
	int n = argc>1?atoi(argv[1]):65537, i, rc=0;
	qb_loop_t *l = qb_loop_create();
	qb_loop_timer_handle h;
	for(i=0;i<n;i++){ rc = qb_loop_timer_add(l, QB_LOOP_MED, 3600ULL*1000000000ULL, NULL, cb, &h); if(rc){printf("add %d rc %d\n",i,rc);break;} }
	printf("added %d rc %d\n", i, rc);
	return 0;
}
