/*
 * C08 finding 2: 16385 deliveries of a registered signal before the loop
 * gets to read its pipe: the signal handler spins for ever
 * (write() == EAGAIN -> goto try_again), no callback ever runs.
 */
#include <stdio.h>
#include <stdlib.h>
#include <signal.h>
#include <unistd.h>
#include <sys/wait.h>
#include <qb/qbloop.h>

#define N 16385
static int calls;
static qb_loop_t *l;

static int32_t scb(int32_t s, void *d)
{
	(void)s; (void)d;
	if (++calls == N)
		qb_loop_stop(l);
	return 0;
}

static void job(void *d)
{
	int i;
	(void)d;
	/* from loop context: e.g. a callback that takes long while signals arrive */
	for (i = 0; i < N; i++)
		raise(SIGUSR1);
}

int main(void)
{
	pid_t pid;
	int st;

	fflush(NULL);
	pid = fork();
	if (pid == 0) {
		qb_loop_signal_handle h;
		l = qb_loop_create();
		qb_loop_signal_add(l, QB_LOOP_MED, SIGUSR1, NULL, scb, &h);
		qb_loop_job_add(l, QB_LOOP_MED, NULL, job);
		alarm(20);
		qb_loop_run(l);
		printf("child: %d callbacks for %d deliveries\n", calls, N);
		fflush(NULL);
		_exit(calls == N ? 0 : 1);
	}
	waitpid(pid, &st, 0);
	if (WIFSIGNALED(st) && WTERMSIG(st) == SIGALRM) {
		printf("VIOLATED: hung for 20s (signal handler spinning on a full pipe), no callback ran\n");
		return 1;
	}
	if (!WIFEXITED(st) || WEXITSTATUS(st) != 0) {
		printf("VIOLATED: status %x\n", st);
		return 1;
	}
	printf("held\n");
	return 0;
}
