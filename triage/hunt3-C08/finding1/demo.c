/*
 * C08 finding 1: the 65537th pending timer makes qb_loop_timer_add() abort
 * the process (assertion) instead of returning an error.
 */
#include <stdio.h>
#include <stdlib.h>
#include <stdint.h>
#include <unistd.h>
#include <sys/wait.h>
#include <qb/qbloop.h>

static void cb(void *d) { (void)d; }

int main(void)
{
	pid_t pid;
	int st;

	fflush(NULL);
	pid = fork();
	if (pid == 0) {
		qb_loop_t *l = qb_loop_create();
		qb_loop_timer_handle h;
		int i, rc = 0;
		for (i = 0; i < 65537; i++) {
			rc = qb_loop_timer_add(l, QB_LOOP_MED, 3600ULL * 1000000000ULL,
					       NULL, cb, &h);
			if (rc != 0) {
				printf("timer_add #%d refused with rc %d (fine)\n", i + 1, rc);
				break;
			}
		}
		printf("child: %d timers added, last rc %d\n", i, rc);
		fflush(NULL);
		_exit(0);
	}
	waitpid(pid, &st, 0);
	if (WIFSIGNALED(st)) {
		printf("VIOLATED: qb_loop_timer_add killed the process with signal %d\n",
		       WTERMSIG(st));
		return 1;
	}
	printf("held\n");
	return 0;
}
