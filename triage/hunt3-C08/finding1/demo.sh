#!/bin/sh
# usage: demo.sh <tree>    exit 0 = property held, non-zero = violated
T=${1:-/repo}
D=$(dirname "$(readlink -f "$0")")
gcc -g -O2 -I$T/include -o $D/demo $D/demo.c -L$T/lib/.libs -lqb || exit 99
LD_LIBRARY_PATH=$T/lib/.libs $D/demo
