#!/bin/sh
export LD_LIBRARY_PATH=/repo/lib/.libs ASAN_OPTIONS=detect_leaks=0
cd /tmp/hunt3-C08
mkdir -p logs2
i=$1; end=$(( $1 + $2 ))
while [ $i -lt $end ]; do
  case $(( i % 5 )) in 0) F=1;C=20;; 1) F=200;C=4;; 2) F=14;C=40;; 3) F=3;C=1;; 4) F=100;C=12;; esac
  ./fuzz $i $3 $F $C > logs2/s$i.log 2>&1 || echo "FAIL seed $i F=$F C=$C" >> logs2/FAILS
  tail -1 logs2/s$i.log >> logs2/summary
  i=$(( i + 1 ))
done
