/*
 * C08 finding 3: one descriptor added and removed 65537 times without the
 * loop polling in between (e.g. all before qb_loop_run(), or inside one
 * callback): every removal leaves a slot that only the next poll makes
 * reusable, the 65537th qb_loop_poll_add() aborts the process.
 */
#include <stdio.h>
#include <stdlib.h>
#include <unistd.h>
#include <poll.h>
#include <sys/wait.h>
#include <qb/qbloop.h>

static int32_t cb(int32_t fd, int32_t rev, void *d) { (void)fd; (void)rev; (void)d; return 0; }

int main(void)
{
	pid_t pid;
	int st;

	fflush(NULL);
	pid = fork();
	if (pid == 0) {
		int i, rc = 0, p[2];
		qb_loop_t *l = qb_loop_create();
		if (pipe(p)) _exit(2);
		for (i = 0; i < 65537; i++) {
			rc = qb_loop_poll_add(l, QB_LOOP_MED, p[0], POLLIN, NULL, cb);
			if (rc) { printf("add #%d rc %d\n", i + 1, rc); break; }
			rc = qb_loop_poll_del(l, p[0]);
			if (rc) { printf("del #%d rc %d\n", i + 1, rc); break; }
		}
		printf("child: %d add/del cycles, last rc %d\n", i, rc);
		fflush(NULL);
		_exit(0);
	}
	waitpid(pid, &st, 0);
	if (WIFSIGNALED(st)) {
		printf("VIOLATED: qb_loop_poll_add killed the process with signal %d\n", WTERMSIG(st));
		return 1;
	}
	printf("held\n");
	return 0;
}
