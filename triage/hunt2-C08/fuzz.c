/*
 * Model-based randomized tester for the libqb main loop (property C08).
 *
 * usage: fuzz <seed> <nops> [flags]
 *   flags (letters in one string):
 *     v  verbose trace of every op
 *     k  allow "fd callback returns negative but keeps the descriptor open" (then re-add later)
 *     z  allow "signal callback deletes itself and returns non-zero"
 *     s  no signals
 *     f  no fds
 *     m  allow poll_mod priority changes
 *     c  allow close+reuse of descriptor numbers
 *     S<n> number of fd slots (default 6)
 *     A  aggressive: up to 6 operations inside every callback (default up to 2)
 */
#define _GNU_SOURCE
#include <stdio.h>
#include <stdlib.h>
#include <string.h>
#include <stdint.h>
#include <stdarg.h>
#include <unistd.h>
#include <errno.h>
#include <signal.h>
#include <poll.h>
#include <pthread.h>
#include <time.h>
#include <sys/socket.h>
#include <sys/ioctl.h>
#include <qb/qbdefs.h>
#include <qb/qbloop.h>
#include <qb/qblog.h>

static qb_loop_t *L;
static uint64_t nops, ncb, maxops;
static int verbose, allow_keep, allow_sigself, no_sig, no_fd, allow_modprio, allow_reuse;
static int NF = 6;
static int CBOPS = 3;
static int stop_called;
static int in_run;
static int in_raise;
static int cb_depth;
static volatile uint64_t progress;
static int sigpipe_rd = -1;

/* ---------- trace ---------- */
#define TR_N 400
static char trbuf[TR_N][160];
static uint64_t trn;
static void tr(const char *fmt, ...)
{
	va_list ap;
	char *b = trbuf[trn % TR_N];
	int n = snprintf(b, 160, "%*s", cb_depth * 2 + (in_run ? 2 : 0), "");
	va_start(ap, fmt);
	vsnprintf(b + n, 160 - n, fmt, ap);
	va_end(ap);
	if (verbose)
		fprintf(stderr, "%s\n", b);
	trn++;
}
static void dump_trace(void)
{
	uint64_t i, s = trn > TR_N ? trn - TR_N : 0;
	if (verbose)
		return;
	for (i = s; i < trn; i++)
		fprintf(stderr, "  %s\n", trbuf[i % TR_N]);
}
#define FAIL(...) do { fprintf(stderr, "VIOLATION: " __VA_ARGS__); fprintf(stderr, "\n"); dump_trace(); fflush(stderr); _exit(3); } while (0)

static uint64_t now_ns(void)
{
	struct timespec ts;
	clock_gettime(CLOCK_MONOTONIC, &ts);
	return ts.tv_sec * 1000000000ULL + ts.tv_nsec;
}

static uint32_t rs;
static uint32_t rnd(void)
{
	rs ^= rs << 13; rs ^= rs >> 17; rs ^= rs << 5;
	return rs;
}
static int R(int n) { return rnd() % n; }

static void do_ops(int n);
static void cb_enter(const char *what, int id)
{
	ncb++;
	progress++;
	if (!in_run)
		FAIL("callback %s %d outside qb_loop_run", what, id);
	if (in_raise)
		FAIL("callback %s %d called from signal context", what, id);
	if (stop_called)
		FAIL("callback %s %d invoked after qb_loop_stop in the same run", what, id);
	tr("CB %s %d", what, id);
	cb_depth++;
}
static void cb_leave(void) { cb_depth--; }

/* ---------- jobs ---------- */
enum { ST_FREE, ST_PEND, ST_DONE, ST_DEL };
struct job { int id; int prio; int st; uint64_t seq; int fn; };
#define MAXJ 200
static struct job *jp[MAXJ]; static int njp;
static int job_ids; static uint64_t job_seq;
static void job_common(struct job *j, int fn)
{
	int i;
	cb_enter("job", j->id);
	if (j->st != ST_PEND)
		FAIL("job %d ran in state %d (%s)", j->id, j->st, j->st == ST_DONE ? "twice" : "after delete");
	if (j->fn != fn)
		FAIL("job %d wrong fn", j->id);
	for (i = 0; i < njp; i++)
		if (jp[i]->st == ST_PEND && jp[i]->prio == j->prio && jp[i]->seq < j->seq)
			FAIL("job %d (seq %lu) ran before job %d (seq %lu) of same priority %d",
			     j->id, (unsigned long)j->seq, jp[i]->id, (unsigned long)jp[i]->seq, j->prio);
	j->st = ST_DONE;
	for (i = 0; i < njp; i++)
		if (jp[i] == j) { jp[i] = jp[--njp]; break; }
	do_ops(R(CBOPS));
	cb_leave();
}
static void job_fn0(void *d) { job_common(d, 0); }
static void job_fn1(void *d) { job_common(d, 1); }
static qb_loop_job_dispatch_fn jfn[2] = { job_fn0, job_fn1 };

static void op_job_add(void)
{
	struct job *j;
	int rc;
	if (njp >= MAXJ) return;
	j = calloc(1, sizeof(*j));
	j->id = job_ids++; j->prio = R(3); j->st = ST_PEND; j->seq = job_seq++; j->fn = R(2);
	tr("job_add id=%d p=%d", j->id, j->prio);
	rc = qb_loop_job_add(L, j->prio, j, jfn[j->fn]);
	if (rc != 0) FAIL("job_add rc=%d", rc);
	jp[njp++] = j;
}
static void op_job_del(void)
{
	struct job *j;
	int rc, i;
	if (njp == 0) return;
	i = R(njp); j = jp[i];
	tr("job_del id=%d p=%d", j->id, j->prio);
	rc = qb_loop_job_del(L, j->prio, j, jfn[j->fn]);
	if (rc != 0) FAIL("job_del of pending job %d rc=%d", j->id, rc);
	j->st = ST_DEL;
	jp[i] = jp[--njp];
	/* deleting again must fail */
	if (R(4) == 0) {
		rc = qb_loop_job_del(L, j->prio, j, jfn[j->fn]);
		if (rc == 0) FAIL("second job_del of job %d succeeded", j->id);
	}
}

/* ---------- timers ---------- */
struct tmr { int id; int st; int prio; qb_loop_timer_handle h; uint64_t add_ns, dur; int stopper; };
#define MAXT 200
static struct tmr *tp[MAXT]; static int ntp;
static int tmr_ids;
#define NSTALE 64
static qb_loop_timer_handle stale[NSTALE]; static int nstale;
static uint64_t early_timers;
static int stoppers_pending;
static void stale_push(qb_loop_timer_handle h) { stale[nstale++ % NSTALE] = h; }
static void tmr_fn(void *d)
{
	struct tmr *t = d;
	int i;
	uint64_t n = now_ns();
	cb_enter("timer", t->id);
	if (t->st != ST_PEND)
		FAIL("timer %d ran in state %d (%s)", t->id, t->st, t->st == ST_DONE ? "twice" : "after delete");
	if (n < t->add_ns + t->dur) early_timers++;
	t->st = ST_DONE;
	for (i = 0; i < ntp; i++)
		if (tp[i] == t) { tp[i] = tp[--ntp]; break; }
	stale_push(t->h);
	/* own handle is stale now */
	if (R(3) == 0) {
		int rc = qb_loop_timer_del(L, t->h);
		tr("timer_del self(fired) id=%d rc=%d", t->id, rc);
		if (rc == 0) FAIL("timer_del of fired timer %d from its own callback returned 0", t->id);
	}
	if (t->stopper) {
		stoppers_pending--;
		tr("stop (stopper)");
		qb_loop_stop(L);
		stop_called = 1;
	} else {
		do_ops(R(CBOPS));
	}
	cb_leave();
}
static struct tmr *timer_add(uint64_t dur, int stopper)
{
	struct tmr *t;
	int rc;
	if (ntp >= MAXT) return NULL;
	t = calloc(1, sizeof(*t));
	t->id = tmr_ids++; t->prio = R(3); t->st = ST_PEND; t->dur = dur; t->stopper = stopper;
	t->add_ns = now_ns();
	rc = qb_loop_timer_add(L, t->prio, dur, t, tmr_fn, &t->h);
	tr("timer_add id=%d p=%d dur=%lu h=%lx%s", t->id, t->prio, (unsigned long)dur, (unsigned long)t->h, stopper ? " STOPPER" : "");
	if (rc != 0) FAIL("timer_add rc=%d", rc);
	tp[ntp++] = t;
	return t;
}
static void op_timer_add(void)
{
	static const uint64_t durs[] = { 0, 1, 1000, 100000, 1000000, 2000000, 5000000, 20000000 };
	timer_add(durs[R(8)], 0);
}
static void op_timer_del(void)
{
	struct tmr *t;
	int rc, i;
	if (ntp == 0) return;
	i = R(ntp); t = tp[i];
	if (t->stopper) return;
	rc = qb_loop_timer_del(L, t->h);
	tr("timer_del id=%d h=%lx rc=%d", t->id, (unsigned long)t->h, rc);
	if (rc != 0) FAIL("timer_del of pending timer %d rc=%d", t->id, rc);
	t->st = ST_DEL;
	tp[i] = tp[--ntp];
	stale_push(t->h);
}
static void op_timer_del_stale(void)
{
	qb_loop_timer_handle h;
	int rc, n = nstale < NSTALE ? nstale : NSTALE;
	if (n == 0) return;
	h = stale[R(n)];
	rc = qb_loop_timer_del(L, h);
	tr("timer_del STALE h=%lx rc=%d", (unsigned long)h, rc);
	if (rc == 0) FAIL("timer_del of stale handle %lx returned 0", (unsigned long)h);
	if (qb_loop_timer_is_running(L, h)) FAIL("stale handle %lx is_running", (unsigned long)h);
}

/* ---------- fds ---------- */
struct fdreg { int slot; int alive; int id; int gen; };
static int fd_gens;
struct fdslot {
	int a, b;
	int watched; int events; int evunion; int prio; int fn;
	struct fdreg *reg;
	int pend;		/* bytes readable on a */
	uint64_t ready_since;	/* 0 = not (known) ready */
	int zombie;		/* callback returned <0 but descriptor kept open */
};
#define MAXF 64
static struct fdslot fs[MAXF];
static int reg_ids;
static uint64_t fd_cbs;

static void slot_open(int s)
{
	int sv[2];
	if (socketpair(AF_UNIX, SOCK_STREAM | SOCK_NONBLOCK | SOCK_CLOEXEC, 0, sv) != 0) { perror("socketpair"); exit(2); }
	fs[s].a = sv[0]; fs[s].b = sv[1]; fs[s].pend = 0; fs[s].watched = 0; fs[s].reg = NULL; fs[s].ready_since = 0; fs[s].zombie = 0;
}
static void slot_ready_update(int s)
{
	int ready = fs[s].watched && (((fs[s].events & POLLIN) && fs[s].pend > 0) || (fs[s].events & POLLOUT));
	if (!ready) fs[s].ready_since = 0;
	else if (!fs[s].ready_since) fs[s].ready_since = now_ns();
}
static void liveness_check(void)
{
	int s;
	uint64_t n = now_ns();
	for (s = 0; s < NF; s++)
		if (fs[s].watched && fs[s].ready_since && n - fs[s].ready_since > 3000000000ULL && in_run)
			FAIL("fd slot %d (fd %d) watched and ready for >3s without callback", s, fs[s].a);
}
static int32_t fd_common(int32_t fd, int32_t revents, void *data, int fn);
static int32_t fd_fn0(int32_t fd, int32_t re, void *d) { return fd_common(fd, re, d, 0); }
static int32_t fd_fn1(int32_t fd, int32_t re, void *d) { return fd_common(fd, re, d, 1); }
static qb_loop_poll_dispatch_fn ffn[2] = { fd_fn0, fd_fn1 };
static const int evsets[] = { POLLIN, POLLIN, POLLIN, POLLIN | POLLOUT, POLLOUT, POLLIN | POLLPRI };

static void fd_add(int s)
{
	struct fdreg *r;
	int rc, ev = evsets[R(6)], p = R(3), fn = R(2);
	if (fs[s].watched) {
		rc = qb_loop_poll_add(L, p, fs[s].a, ev, fs[s].reg, ffn[fn]);
		tr("poll_add DUP slot=%d fd=%d rc=%d", s, fs[s].a, rc);
		if (rc == 0) FAIL("poll_add of already watched fd %d succeeded", fs[s].a);
		return;
	}
	if (fs[s].zombie && !allow_keep) return;
	r = calloc(1, sizeof(*r));
	r->slot = s; r->alive = 1; r->id = reg_ids++; r->gen = fd_gens++;
	rc = qb_loop_poll_add(L, p, fs[s].a, ev, r, ffn[fn]);
	tr("poll_add slot=%d fd=%d ev=%x p=%d reg=%d rc=%d", s, fs[s].a, ev, p, r->id, rc);
	if (rc != 0) FAIL("poll_add of unwatched fd %d (slot %d%s) rc=%d", fs[s].a, s, fs[s].zombie ? ", earlier callback returned <0 with fd kept open" : "", rc);
	fs[s].watched = 1; fs[s].events = ev; fs[s].evunion = ev; fs[s].prio = p; fs[s].fn = fn; fs[s].reg = r; fs[s].zombie = 0;
	slot_ready_update(s);
}
static void fd_del(int s)
{
	int rc = qb_loop_poll_del(L, fs[s].a);
	tr("poll_del slot=%d fd=%d watched=%d rc=%d", s, fs[s].a, fs[s].watched, rc);
	if (fs[s].watched) {
		if (rc != 0) FAIL("poll_del of watched fd %d rc=%d", fs[s].a, rc);
		fs[s].reg->alive = 0;
		fs[s].watched = 0; fs[s].reg = NULL;
		slot_ready_update(s);
	}
}
static void fd_mod(int s)
{
	int rc, ev = evsets[R(6)], p = allow_modprio ? R(3) : fs[s].prio, fn = R(2);
	struct fdreg *r = fs[s].reg;
	if (fs[s].watched && R(2)) {
		r = calloc(1, sizeof(*r));
		r->slot = s; r->alive = 1; r->id = reg_ids++; r->gen = fs[s].reg->gen;
	}
	if (!fs[s].watched) p = R(3);
	rc = qb_loop_poll_mod(L, p, fs[s].a, ev, r, ffn[fn]);
	tr("poll_mod slot=%d fd=%d ev=%x p=%d reg=%d watched=%d rc=%d", s, fs[s].a, ev, p, r ? r->id : -1, fs[s].watched, rc);
	if (fs[s].watched) {
		if (rc != 0) FAIL("poll_mod of watched fd %d rc=%d", fs[s].a, rc);
		if (r != fs[s].reg) fs[s].reg->alive = 0;
		fs[s].reg = r; fs[s].events = ev; fs[s].evunion |= ev; fs[s].prio = p; fs[s].fn = fn;
		fs[s].ready_since = 0;
		slot_ready_update(s);
	} else if (rc == 0 && !fs[s].zombie) {
		FAIL("poll_mod of unwatched fd %d succeeded", fs[s].a);
	}
}
static void fd_write(int s)
{
	if (fs[s].pend > 2000) return;
	if (write(fs[s].b, "x", 1) == 1) fs[s].pend++;
	tr("write slot=%d fd=%d pend=%d", s, fs[s].a, fs[s].pend);
	slot_ready_update(s);
}
static void fd_drain(int s)
{
	char buf[4096];
	while (read(fs[s].a, buf, sizeof buf) > 0) ;
	fs[s].pend = 0;
	fs[s].ready_since = 0;
	slot_ready_update(s);
}
static void fd_reuse(int s, int proper)
{
	/* close the descriptor and get the same number again */
	int olda = fs[s].a;
	if (fs[s].watched && proper) fd_del(s);
	if (fs[s].watched) {	/* improper: only from own callback, handled by caller */
		fs[s].reg->alive = 0; fs[s].watched = 0; fs[s].reg = NULL;
	}
	close(fs[s].a); close(fs[s].b);
	slot_open(s);
	tr("reuse slot=%d old fd=%d new fd=%d", s, olda, fs[s].a);
}
static int32_t fd_common(int32_t fd, int32_t revents, void *data, int fn)
{
	struct fdreg *r = data;
	int s, ret = 0, act, mygen;
	cb_enter("fd", r ? r->id : -1);
	fd_cbs++;
	if (r == NULL) FAIL("fd callback with NULL data");
	s = r->slot;
	if (!r->alive) FAIL("fd callback for dead registration %d (slot %d fd %d) - deleted/negative return/replaced", r->id, s, fd);
	if (fs[s].reg != r || !fs[s].watched) FAIL("fd callback reg mismatch slot %d", s);
	if (fd != fs[s].a) FAIL("fd callback fd %d != slot fd %d", fd, fs[s].a);
	if (fn != fs[s].fn) FAIL("fd callback wrong fn slot %d", s);
	if ((revents & ~(fs[s].evunion | POLLERR | POLLHUP)) != 0)
		FAIL("fd callback revents %x not in events %x", revents, fs[s].evunion);
	fs[s].evunion = fs[s].events;
	fs[s].ready_since = 0;
	mygen = r->gen;
	liveness_check();
	act = R(20);
	if (act < 8) fd_drain(s);
	do_ops(R(CBOPS));
	/* state may have changed by nested ops */
	if (fs[s].watched && fs[s].reg->gen == mygen) {
		r = fs[s].reg;
		if (act == 19) {
			/* negative return: no longer watched */
			r->alive = 0; fs[s].watched = 0; fs[s].reg = NULL; fs[s].ready_since = 0;
			if (allow_keep && R(2)) {
				fs[s].zombie = 1;
				tr("fd cb returns -1, keeps fd %d open", fd);
			} else {
				fd_reuse(s, 0);
				tr("fd cb returns -1 after close");
			}
			ret = -1;
		} else if (act == 18 && allow_reuse) {
			/* close inside own callback, new descriptor gets the number, is added */
			fd_reuse(s, 0);
			fd_add(s);
			ret = R(2) ? -1 : 0;
			tr("fd cb closed+reused, returns %d", ret);
		} else if (act == 17) {
			fd_del(s);
			ret = R(2) ? -1 : 0;
			tr("fd cb self-del returns %d", ret);
		} else {
			slot_ready_update(s);
		}
	} else {
		ret = (R(8) == 0) ? -1 : 0;
		if (ret < 0) {
			/* returning negative from a callback whose registration was already
			 * removed; if the slot was re-added meanwhile the new one must survive */
			tr("fd cb (already gone) returns -1");
		}
	}
	cb_leave();
	return ret;
}
static void op_fd(void)
{
	int s = R(NF), a = R(100);
	if (no_fd) return;
	if (a < 30) fd_write(s);
	else if (a < 55) { if (!fs[s].watched) fd_add(s); else if (R(8) == 0) fd_add(s); }
	else if (a < 70) fd_del(s);
	else if (a < 85) fd_mod(s);
	else if (a < 90) fd_drain(s);
	else if (allow_reuse) {
		int was = fs[s].watched;
		fd_reuse(s, 1);
		if (was || R(2)) fd_add(s);
	}
}

/* ---------- signals ---------- */
struct sh { int id; int signo; int prio; int alive; long raises, calls, slack; qb_loop_signal_handle h; int fn; };
#define MAXS 8
static struct sh *sp[MAXS]; static int nsp;
static int sh_ids;
static int signos[3];
static int in_sh_cb; static struct sh *cur_sh;
static int sig_alive_count(int signo)
{
	int i, n = 0;
	for (i = 0; i < nsp; i++) if (sp[i]->signo == signo) n++;
	return n;
}
static void sh_remove(struct sh *h)
{
	int i;
	h->alive = 0;
	for (i = 0; i < nsp; i++) if (sp[i] == h) { sp[i] = sp[--nsp]; break; }
}
static int32_t sig_common(int32_t sig, void *data, int fn)
{
	struct sh *h = data;
	int ret = 0, a;
	cb_enter("sig", h->id);
	if (!h->alive) FAIL("signal callback for deleted handler %d", h->id);
	if (sig != h->signo) FAIL("signal callback signo %d != %d", sig, h->signo);
	if (h->fn >= 0 && fn != h->fn) FAIL("signal callback wrong fn");
	h->calls++;
	if (h->calls > h->raises + h->slack)
		FAIL("signal handler %d called %ld times, only %ld raises (+%ld slack)", h->id, h->calls, h->raises, h->slack);
	do_ops(R(CBOPS));
	if (h->alive) {
		a = R(12);
		if (a == 0) {
			ret = 1; sh_remove(h);
			tr("sig cb returns 1 (delete)");
		} else if (a == 1) {
			int rc = qb_loop_signal_del(L, h->h);
			tr("sig cb self-del rc=%d", rc);
			if (rc != 0) FAIL("signal_del rc=%d", rc);
			sh_remove(h);
			ret = (allow_sigself && R(2)) ? 1 : 0;
			tr("sig cb after self-del returns %d", ret);
		}
	}
	cb_leave();
	return ret;
}
static int32_t sig_fn0(int32_t s, void *d) { return sig_common(s, d, 0); }
static int32_t sig_fn1(int32_t s, void *d) { return sig_common(s, d, 1); }
static qb_loop_signal_dispatch_fn sfn[2] = { sig_fn0, sig_fn1 };
static long pipe_unread(void)
{
	int n = 0;
	if (sigpipe_rd < 0) return 1000000;
	if (ioctl(sigpipe_rd, FIONREAD, &n) != 0) return 1000000;
	return n / 4;
}
static void op_sig(void)
{
	int a = R(100), rc, i;
	struct sh *h;
	if (no_sig) return;
	if (a < 25) {
		if (nsp >= MAXS) return;
		h = calloc(1, sizeof(*h));
		h->id = sh_ids++; h->signo = signos[R(3)]; h->prio = R(3); h->alive = 1; h->fn = R(2);
		h->slack = pipe_unread();
		rc = qb_loop_signal_add(L, h->prio, h->signo, h, sfn[h->fn], &h->h);
		tr("signal_add id=%d sig=%d p=%d slack=%ld rc=%d", h->id, h->signo, h->prio, h->slack, rc);
		if (rc != 0) FAIL("signal_add rc=%d", rc);
		sp[nsp++] = h;
	} else if (a < 40) {
		if (!nsp) return;
		h = sp[R(nsp)];
		rc = qb_loop_signal_del(L, h->h);
		tr("signal_del id=%d rc=%d", h->id, rc);
		if (rc != 0) FAIL("signal_del rc=%d", rc);
		sh_remove(h);
	} else if (a < 50) {
		if (!nsp) return;
		h = sp[R(nsp)];
		h->prio = R(3); h->fn = R(2);
		rc = qb_loop_signal_mod(L, h->prio, h->signo, h, sfn[h->fn & 1], h->h);
		tr("signal_mod id=%d p=%d rc=%d", h->id, h->prio, rc);
		if (rc != 0) FAIL("signal_mod rc=%d", rc);
		/* clones already queued keep the old fn: tolerate by not checking fn */
		h->fn = -1;
	} else {
		int signo = signos[R(3)];
		if (sig_alive_count(signo) == 0) return;
		if (pipe_unread() > 2000) return;
		for (i = 0; i < nsp; i++) if (sp[i]->signo == signo) sp[i]->raises++;
		tr("raise sig=%d", signo);
		in_raise = 1;
		raise(signo);
		in_raise = 0;
	}
}

/* ---------- driver ---------- */
static void do_one_op(void)
{
	int a = R(100);
	nops++;
	progress++;
	if (a < 15) op_job_add();
	else if (a < 22) op_job_del();
	else if (a < 37) op_timer_add();
	else if (a < 45) op_timer_del();
	else if (a < 50) op_timer_del_stale();
	else if (a < 80) op_fd();
	else if (a < 97) op_sig();
	else if (in_run && !stop_called && cb_depth > 0) {
		tr("stop");
		qb_loop_stop(L);
		stop_called = 1;
	}
}
static void do_ops(int n)
{
	if (cb_depth > 0 && stop_called) return;
	while (n-- > 0 && nops < maxops) {
		do_one_op();
		if (stop_called) return;
	}
}
static void run_once(void)
{
	static const uint64_t sd[] = { 0, 0, 1000, 300000, 1000000, 3000000 };
	if (stoppers_pending == 0) { timer_add(sd[R(6)], 1); stoppers_pending++; }
	tr("RUN");
	stop_called = 0;
	in_run = 1;
	qb_loop_run(L);
	in_run = 0;
	if (!stop_called) FAIL("qb_loop_run returned without stop");
	stop_called = 0;
	tr("RUN returned");
}

static void *watchdog(void *arg)
{
	uint64_t last = 0; int idle = 0;
	sigset_t ss; sigfillset(&ss); pthread_sigmask(SIG_BLOCK, &ss, NULL);
	for (;;) {
		sleep(1);
		if (progress == last) idle++; else idle = 0;
		last = progress;
		if (idle >= 15) {
			fprintf(stderr, "VIOLATION: HANG no progress for 15s (in_run=%d stop_called=%d)\n", in_run, stop_called);
			dump_trace();
			_exit(4);
		}
	}
	return NULL;
}

static void final_checks(void)
{
	int i, s, guard = 0;
	/* drain: everything pending must complete */
	while ((njp > 0 || ntp > 0) && guard++ < 2000)
		run_once();
	if (njp > 0) FAIL("%d jobs never ran (first id %d)", njp, jp[0]->id);
	if (ntp > 0) FAIL("%d timers never ran", ntp);
	/* signals: run until pipe empty */
	guard = 0;
	while (!no_sig && pipe_unread() > 0 && guard++ < 5000)
		run_once();
	for (i = 0; i < 6; i++) run_once();
	for (i = 0; i < nsp; i++) {
		struct sh *h = sp[i];
		if (h->calls < h->raises)
			FAIL("signal handler %d (sig %d): %ld raises but only %ld calls", h->id, h->signo, h->raises, h->calls);
	}
	/* every watched fd made ready must get a callback */
	for (s = 0; s < NF && !no_fd; s++) {
		uint64_t before;
		if (!fs[s].watched) continue;
		if (!(fs[s].events & (POLLIN | POLLOUT))) continue;
		if (fs[s].events & POLLIN) fd_write(s);
		before = fd_cbs;
		guard = 0;
		while (fs[s].watched && fs[s].ready_since && guard++ < 50)
			run_once();
		if (fs[s].watched && fs[s].ready_since)
			FAIL("final: fd slot %d fd %d ready but no callback in 50 runs (fd_cbs %lu->%lu)", s, fs[s].a, (unsigned long)before, (unsigned long)fd_cbs);
	}
}

int main(int argc, char **argv)
{
	pthread_t wt;
	int s, probe;
	const char *fl = argc > 3 ? argv[3] : "";
	rs = argc > 1 ? strtoul(argv[1], NULL, 0) : 1;
	if (rs == 0) rs = 0x9e3779b9;
	maxops = argc > 2 ? strtoull(argv[2], NULL, 0) : 100000;
	for (; *fl; fl++) {
		switch (*fl) {
		case 'v': verbose = 1; break;
		case 'k': allow_keep = 1; break;
		case 'z': allow_sigself = 1; break;
		case 's': no_sig = 1; break;
		case 'f': no_fd = 1; break;
		case 'm': allow_modprio = 1; break;
		case 'c': allow_reuse = 1; break;
		case 'A': CBOPS = 7; break;
		case 'S': NF = atoi(fl + 1); while (fl[1] >= '0' && fl[1] <= '9') fl++; break;
		}
	}
	if (NF > MAXF) NF = MAXF;
	srandom(rs);
	signos[0] = SIGUSR1; signos[1] = SIGUSR2; signos[2] = SIGRTMIN + 3;
	pthread_create(&wt, NULL, watchdog, NULL);

	probe = dup(0); close(probe);
	L = qb_loop_create();
	/* qb_loop_create: epoll fd = probe, signal pipe = probe+1, probe+2 */
	sigpipe_rd = probe + 1;
	{
		struct pollfd p = { sigpipe_rd, POLLIN, 0 };
		int n;
		if (poll(&p, 1, 0) < 0 || ioctl(sigpipe_rd, FIONREAD, &n) != 0) sigpipe_rd = -1;
	}
	for (s = 0; s < NF; s++) slot_open(s);

	while (nops < maxops) {
		do_ops(R(6));
		run_once();
	}
	final_checks();
	fprintf(stderr, "OK seed=%s ops=%lu callbacks=%lu fd_cbs=%lu jobs=%d timers=%d early_timers=%lu\n",
		argc > 1 ? argv[1] : "1", (unsigned long)nops, (unsigned long)ncb, (unsigned long)fd_cbs, job_ids, tmr_ids, (unsigned long)early_timers);
	return 0;
}
