/*
 * C08 finding 1: a descriptor whose callback returned a negative value is
 * dropped from the loop's table but stays registered in the epoll set.
 * Afterwards it can neither be added again (-EEXIST) nor deleted (-EBADF),
 * and while it is ready every loop iteration sleeps 100ms.
 */
#include <stdio.h>
#include <stdlib.h>
#include <unistd.h>
#include <poll.h>
#include <time.h>
#include <sys/socket.h>
#include <qb/qbdefs.h>
#include <qb/qbloop.h>

static qb_loop_t *l;
static int sv[2];
static int first_calls, second_calls, ticks;
static int rc_add2 = 12345, rc_del = 12345;
static uint64_t t0, t1;

static uint64_t now_ns(void)
{
	struct timespec ts;
	clock_gettime(CLOCK_MONOTONIC, &ts);
	return ts.tv_sec * 1000000000ULL + ts.tv_nsec;
}

static int32_t second_cb(int32_t fd, int32_t revents, void *data)
{
	char c;
	second_calls++;
	(void)read(fd, &c, 1);
	return 0;
}

static void tick(void *data);

static int32_t first_cb(int32_t fd, int32_t revents, void *data)
{
	first_calls++;
	/* continue from a timer once this callback has returned */
	qb_loop_timer_add(l, QB_LOOP_MED, 0, NULL, tick, NULL);
	return -1;		/* "stop watching me"; descriptor stays open and readable */
}

static void tick(void *data)
{
	if (ticks == 0) {
		t0 = now_ns();
		/* registration ended when first_cb returned -1: add it again */
		rc_add2 = qb_loop_poll_add(l, QB_LOOP_MED, sv[0], POLLIN, NULL, second_cb);
		if (rc_add2 != 0) {
			rc_del = qb_loop_poll_del(l, sv[0]);
		}
	}
	if (++ticks == 6) {
		t1 = now_ns();
		qb_loop_stop(l);
		return;
	}
	qb_loop_timer_add(l, QB_LOOP_MED, 0, NULL, tick, NULL);
}

int main(void)
{
	int bad = 0;
	l = qb_loop_create();
	socketpair(AF_UNIX, SOCK_STREAM, 0, sv);
	(void)write(sv[1], "x", 1);
	if (qb_loop_poll_add(l, QB_LOOP_MED, sv[0], POLLIN, NULL, first_cb) != 0) {
		printf("first add failed\n");
		return 2;
	}
	qb_loop_run(l);

	printf("first_cb calls=%d (expected 1)\n", first_calls);
	printf("re-add after negative return: rc=%d (expected 0)\n", rc_add2);
	if (rc_add2 != 0)
		printf("poll_del of that descriptor: rc=%d\n", rc_del);
	printf("second_cb calls=%d (expected >=1)\n", second_calls);
	printf("5 zero-length timers took %lu ms\n", (unsigned long)((t1 - t0) / 1000000));
	if (first_calls != 1) bad = 1;
	if (rc_add2 != 0) bad = 1;
	if (second_calls < 1) bad = 1;
	if ((t1 - t0) > 300 * QB_TIME_NS_IN_MSEC) bad = 1;
	printf(bad ? "VIOLATED\n" : "held\n");
	return bad;
}
