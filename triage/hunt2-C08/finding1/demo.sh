#!/bin/sh
# usage: demo.sh <tree>    exit 0 = property held, non-zero = violated
T=${1:-/repo}
D=$(cd "$(dirname "$0")" && pwd)
OUT=$(mktemp -d /tmp/hunt2-C08-demo.XXXXXX)
gcc -g -O1 -fsanitize=address,undefined -DHAVE_CONFIG_H -I$T/include -I$T/include/qb -I$T/lib \
  -o $OUT/demo $D/demo.c $T/lib/loop.c $T/lib/loop_job.c $T/lib/loop_timerlist.c $T/lib/loop_poll.c $T/lib/loop_poll_epoll.c \
  -L$T/lib/.libs -lqb -lpthread || exit 99
LD_LIBRARY_PATH=$T/lib/.libs ASAN_OPTIONS=detect_leaks=0 $OUT/demo
rc=$?
rm -rf $OUT
exit $rc
