#define _GNU_SOURCE
#include <stdio.h>
#include <stdlib.h>
#include <string.h>
#include <unistd.h>
#include <signal.h>
#include <poll.h>
#include <pthread.h>
#include <time.h>
#include <sys/socket.h>
#include <qb/qbdefs.h>
#include <qb/qbloop.h>

static qb_loop_t *l;
static uint64_t now_ns(void){struct timespec ts;clock_gettime(CLOCK_MONOTONIC,&ts);return ts.tv_sec*1000000000ULL+ts.tv_nsec;}

/* ---- test A: many always-ready fds: every one gets callbacks ---- */
#define NA 100
static int acalls[NA]; static int afd[NA][2]; static int aticks;
static int32_t a_cb(int32_t fd, int32_t re, void *d){ acalls[(long)d]++; return 0; }
static void a_tick(void *d){ if (++aticks == 30) { qb_loop_stop(l); return; } qb_loop_timer_add(l, QB_LOOP_LOW, 0, NULL, a_tick, NULL); }
static int testA(void)
{
	long i; int bad = 0, mn = 1<<30, mx = 0;
	for (i = 0; i < NA; i++) {
		socketpair(AF_UNIX, SOCK_STREAM, 0, afd[i]);
		(void)write(afd[i][1], "x", 1);
		if (qb_loop_poll_add(l, i % 3, afd[i][0], POLLIN, (void*)i, a_cb) != 0) { printf("add %ld failed\n", i); return 1; }
	}
	qb_loop_timer_add(l, QB_LOOP_LOW, 0, NULL, a_tick, NULL);
	qb_loop_run(l);
	for (i = 0; i < NA; i++) { if (acalls[i] < mn) mn = acalls[i]; if (acalls[i] > mx) mx = acalls[i]; if (acalls[i] == 0) { bad = 1; printf("fd idx %ld never called\n", i);} }
	printf("testA: %d fds, 30 ticks: min calls %d max %d\n", NA, mn, mx);
	return bad;
}

/* ---- test B: async signals from another thread, acked: exactly once each ---- */
static volatile int bcalls; static int bsent; static volatile int bdone;
static int32_t b_cb(int32_t sig, void *d){ bcalls++; return 0; }
static pthread_t mainthr;
static void *b_sender(void *a)
{
	int i; sigset_t ss; sigfillset(&ss); pthread_sigmask(SIG_BLOCK,&ss,NULL);
	for (i = 0; i < 3000; i++) {
		int before = bcalls; uint64_t t0 = now_ns();
		pthread_kill(mainthr, SIGUSR1); bsent++;
		while (bcalls == before) { if (now_ns() - t0 > 3000000000ULL) { printf("signal %d not dispatched within 3s\n", i); bdone = 2; return NULL; } sched_yield(); }
		if ((i % 7) == 0) usleep(100 + (i % 13) * 50);
	}
	bdone = 1; return NULL;
}
static void b_tick(void *d){ if (bdone) { qb_loop_stop(l); return; } qb_loop_timer_add(l, QB_LOOP_LOW, 3*QB_TIME_NS_IN_MSEC, NULL, b_tick, NULL); }
static int testB(void)
{
	pthread_t t; qb_loop_signal_handle h;
	mainthr = pthread_self();
	qb_loop_signal_add(l, QB_LOOP_HIGH, SIGUSR1, NULL, b_cb, &h);
	pthread_create(&t, NULL, b_sender, NULL);
	qb_loop_timer_add(l, QB_LOOP_LOW, 0, NULL, b_tick, NULL);
	qb_loop_run(l);
	pthread_join(t, NULL);
	printf("testB: sent %d, callbacks %d, done=%d\n", bsent, bcalls, bdone);
	return !(bdone == 1 && bsent == bcalls);
}

/* ---- test C: many signals raised before the loop gets to run ---- */
static int ccalls;
static int32_t c_cb(int32_t sig, void *d){ ccalls++; return 0; }
static int cN;
static void c_tick(void *d){ static int idle; static int last; if (ccalls == last) idle++; else idle = 0; last = ccalls; if (ccalls >= cN || idle > 50) { qb_loop_stop(l); return; } qb_loop_timer_add(l, QB_LOOP_LOW, QB_TIME_NS_IN_MSEC, NULL, c_tick, NULL); }
static int testC(int n)
{
	int i; qb_loop_signal_handle h;
	cN = n;
	qb_loop_signal_add(l, QB_LOOP_HIGH, SIGUSR1, NULL, c_cb, &h);
	alarm(20);
	for (i = 0; i < n; i++) raise(SIGUSR1);
	alarm(0);
	qb_loop_timer_add(l, QB_LOOP_LOW, 0, NULL, c_tick, NULL);
	qb_loop_run(l);
	printf("testC: raised %d, callbacks %d\n", n, ccalls);
	return ccalls != n;
}

int main(int argc, char **argv)
{
	int rc = 0;
	l = qb_loop_create();
	if (argc < 2) return 2;
	if (argv[1][0] == 'A') rc = testA();
	if (argv[1][0] == 'B') rc = testB();
	if (argv[1][0] == 'C') rc = testC(argc > 2 ? atoi(argv[2]) : 16384);
	printf(rc ? "VIOLATED\n" : "held\n");
	return rc;
}
