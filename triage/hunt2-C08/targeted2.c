#define _GNU_SOURCE
#include <stdio.h>
#include <stdlib.h>
#include <string.h>
#include <unistd.h>
#include <poll.h>
#include <time.h>
#include <sys/socket.h>
#include <qb/qbdefs.h>
#include <qb/qbloop.h>
static qb_loop_t *l;
/* D: many timers, deletes, exact-once */
#define ND 6000
static struct dt { qb_loop_timer_handle h; int fired; int deleted; } d[ND];
static int dfired, dexpect;
static void d_cb(void *p){ struct dt *t = p; if (t->deleted) { printf("deleted timer fired\n"); exit(1);} if (t->fired++) { printf("timer fired twice\n"); exit(1);} dfired++;
	/* delete a random other pending timer from the callback */
	{ int k = rand() % ND; if (!d[k].fired && !d[k].deleted && (rand()%4)==0) { int rc = qb_loop_timer_del(l, d[k].h); if (rc) { printf("del rc=%d\n", rc); exit(1);} d[k].deleted = 1; dexpect--; } }
	if (dfired >= dexpect) qb_loop_stop(l); }
static void guard(void *p){ printf("guard: fired %d expected %d\n", dfired, dexpect); qb_loop_stop(l); }
static int testD(void)
{
	int i, bad = 0;
	srand(7);
	for (i = 0; i < ND; i++) {
		uint64_t dur = (rand() % 8 == 0) ? 5000000 : (uint64_t)(rand() % 30000) * 1000;
		if (qb_loop_timer_add(l, rand() % 3, dur, &d[i], d_cb, &d[i].h) != 0) { printf("add failed %d\n", i); return 1; }
	}
	dexpect = ND;
	for (i = 0; i < ND; i += 3) { if (qb_loop_timer_del(l, d[i].h) != 0) { printf("del failed\n"); return 1; } d[i].deleted = 1; dexpect--; 
		if (qb_loop_timer_del(l, d[i].h) == 0) { printf("double del succeeded\n"); return 1; } }
	qb_loop_timer_add(l, QB_LOOP_LOW, 3000ULL * QB_TIME_NS_IN_MSEC, NULL, guard, NULL);
	qb_loop_run(l);
	for (i = 0; i < ND; i++) if (!d[i].deleted && d[i].fired != 1) { bad = 1; printf("timer %d fired %d\n", i, d[i].fired); break; }
	printf("testD: fired %d expected %d\n", dfired, dexpect);
	return bad || dfired != dexpect;
}
/* E: fd callback deletes itself, re-adds the same descriptor, returns -1: the new registration must live */
static int sv[2]; static int e1, e2;
static int32_t e_cb2(int32_t fd, int32_t re, void *p){ char c; e2++; (void)read(fd,&c,1); if (e2 == 3) qb_loop_stop(l); else (void)write(sv[1],"y",1); return 0; }
static int32_t e_cb1(int32_t fd, int32_t re, void *p){ int rc; e1++; rc = qb_loop_poll_del(l, fd); if (rc) printf("del rc %d\n", rc); rc = qb_loop_poll_add(l, QB_LOOP_HIGH, fd, POLLIN, NULL, e_cb2); if (rc) printf("add rc %d\n", rc); return -1; }
static int testE(void)
{
	socketpair(AF_UNIX, SOCK_STREAM, 0, sv);
	(void)write(sv[1], "x", 1);
	qb_loop_poll_add(l, QB_LOOP_LOW, sv[0], POLLIN, NULL, e_cb1);
	qb_loop_timer_add(l, QB_LOOP_LOW, 1000ULL * QB_TIME_NS_IN_MSEC, NULL, guard, NULL);
	qb_loop_run(l);
	printf("testE: cb1 %d cb2 %d\n", e1, e2);
	return !(e1 == 1 && e2 == 3);
}
/* F: stop with work queued, delete queued things outside, run again */
static int f_order[16], f_n; static int f_fdcalls;
static void f_job(void *p){ f_order[f_n++] = (int)(long)p; if ((long)p == 1) qb_loop_stop(l); if ((long)p == 9) qb_loop_stop(l); }
static int32_t f_fd(int32_t fd, int32_t re, void *p){ f_fdcalls++; return 0; }
static void f_tm(void *p){ f_order[f_n++] = 100; }
static int testF(void)
{
	qb_loop_timer_handle th; int rc, i, bad = 0;
	socketpair(AF_UNIX, SOCK_STREAM, 0, sv);
	(void)write(sv[1], "x", 1);
	qb_loop_job_add(l, QB_LOOP_HIGH, (void*)1, f_job);
	qb_loop_job_add(l, QB_LOOP_HIGH, (void*)2, f_job);
	qb_loop_job_add(l, QB_LOOP_HIGH, (void*)3, f_job);
	qb_loop_timer_add(l, QB_LOOP_HIGH, 0, NULL, f_tm, &th);
	qb_loop_poll_add(l, QB_LOOP_HIGH, sv[0], POLLIN, NULL, f_fd);
	usleep(1000);
	qb_loop_run(l);   /* job 1 stops; job2, job3, timer, fd are queued */
	rc = qb_loop_job_del(l, QB_LOOP_HIGH, (void*)2, f_job); if (rc) { printf("job_del rc %d\n", rc); bad = 1; }
	rc = qb_loop_timer_del(l, th); if (rc) { printf("timer_del rc %d\n", rc); bad = 1; }
	rc = qb_loop_poll_del(l, sv[0]); if (rc) { printf("poll_del rc %d\n", rc); bad = 1; }
	qb_loop_job_add(l, QB_LOOP_HIGH, (void*)9, f_job);
	qb_loop_run(l);
	printf("testF: order:"); for (i = 0; i < f_n; i++) printf(" %d", f_order[i]); printf(" fdcalls=%d\n", f_fdcalls);
	if (!(f_n == 3 && f_order[0] == 1 && f_order[1] == 3 && f_order[2] == 9 && f_fdcalls == 0)) bad = 1;
	return bad;
}
int main(int argc, char **argv)
{
	int rc = 0;
	l = qb_loop_create();
	if (argv[1][0] == 'D') rc = testD();
	if (argv[1][0] == 'E') rc = testE();
	if (argv[1][0] == 'F') rc = testF();
	printf(rc ? "VIOLATED\n" : "held\n");
	return rc;
}
