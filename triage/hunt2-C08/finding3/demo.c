/*
 * C08 finding 3: signals are handed to the loop through a non-blocking pipe;
 * when the pipe is full the signal handler retries the write for ever.  The
 * reader of the pipe is the loop itself, i.e. the thread the handler has
 * interrupted, so the process spins in the handler and no callback (signal
 * or other) ever runs again.
 */
#define _GNU_SOURCE
#include <stdio.h>
#include <stdlib.h>
#include <signal.h>
#include <unistd.h>
#include <fcntl.h>
#include <pthread.h>
#include <qb/qbdefs.h>
#include <qb/qbloop.h>

static qb_loop_t *l;
static int calls, n_raise;
static volatile int raised;

static int32_t sig_cb(int32_t sig, void *data)
{
	if (++calls == n_raise) qb_loop_stop(l);
	return 0;
}

static void burst(void *data)
{
	/* a callback during which many signals arrive (here: raised directly) */
	int i;
	for (i = 0; i < n_raise; i++) {
		raise(SIGUSR1);
		raised = i + 1;
	}
}

static void *watchdog(void *arg)
{
	sigset_t ss;
	sigfillset(&ss);
	pthread_sigmask(SIG_BLOCK, &ss, NULL);
	sleep(5);
	printf("after 5s: raised %d of %d, callbacks %d\n", raised, n_raise, calls);
	printf("VIOLATED (main thread spins in the signal handler)\n");
	fflush(stdout);
	_exit(1);
}

int main(void)
{
	pthread_t t;
	int p[2], cap;
	qb_loop_signal_handle h;

	pipe(p);
	cap = fcntl(p[0], F_GETPIPE_SZ);
	n_raise = cap / 4 + 1;
	printf("pipe capacity %d bytes -> raising %d signals in one callback\n", cap, n_raise);

	l = qb_loop_create();
	qb_loop_signal_add(l, QB_LOOP_HIGH, SIGUSR1, NULL, sig_cb, &h);
	qb_loop_job_add(l, QB_LOOP_MED, NULL, burst);
	pthread_create(&t, NULL, watchdog, NULL);
	qb_loop_run(l);
	printf("raised %d, callbacks %d\n", raised, calls);
	printf(calls == n_raise ? "held\n" : "VIOLATED\n");
	return calls != n_raise;
}
